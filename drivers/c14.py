"""C14 bounded stand-in: belief propagation on acyclic networks vs brute-force numpy references.

Reference semantics (shares no code with quimb): the *joint* array of a network is the broadcast product of the raw
tensor data over the axes of all labels (one axis per label, hyper labels included).  From it
  value          = joint.sum() * 10**exponent                       (one-norm flavours; dangling labels are summed)
  index marginal = joint summed over every other label / joint.sum()
  tensor marginal= joint summed over the labels not on that tensor / joint.sum()
  psi            = joint summed over the non-dangling labels        (two-norm flavours), norm^2 = sum |psi|^2 *
                   10**(2 exponent), marginals / reduced density matrices from |psi|^2 resp. psi psi^dagger.
"""

import itertools

import numpy as np

from vf.rtc import driver

TOL_RUN = 1e-11      # message tolerance handed to run()
RTOL = 1e-6          # relative tolerance of double precision values / marginals
RTOL_SINGLE = 3e-3   # single precision (run with quimb's default tol=5e-6)


# ----------------------------------------------------------------------------------------------
# acyclic factor graphs
# ----------------------------------------------------------------------------------------------

KINDS_SIMPLE = ["chain", "star", "tree", "forest"]
KINDS_HYPER = ["hyper", "hyperstar", "hyperforest"]


def gen_geometry(rng, n, kind, dims=(1, 2, 3), dangling=0.0, uniform=None, force_dangling=False, n_scalars=0):
    """random acyclic factor graph: n tensors; returns (inds per tensor, sizes of labels, number of components, parent of each tensor).
    kind: chain / star / tree / forest (labels on <= 2 tensors), hyper / hyperstar / hyperforest (a label may sit on
    3+ tensors; the tensor--label incidence graph stays a forest).  dangling = probability of an outer label per
    tensor (two draws); force_dangling: every tensor gets exactly one outer label 'k{i}' (vector-like network)."""
    inds = [[] for _ in range(n)]
    parents = [None] * (n + n_scalars)
    sizes = {}
    nb = 0

    def newdim():
        return int(uniform) if uniform else int(rng.choice(dims))

    ncomp = 1
    if kind in ("forest", "hyperforest") and n >= 2:
        ncomp = int(rng.integers(2, min(n, 3) + 1))
    hyper_pool = []  # labels that may be joined by a further tensor
    for t in range(ncomp, n):
        join = None
        if kind in ("hyper", "hyperforest") and hyper_pool and (t == ncomp + 1 or rng.random() < 0.4):
            join = hyper_pool[int(rng.integers(len(hyper_pool)))]
        elif kind == "hyperstar" and hyper_pool:
            join = hyper_pool[0]
        if join is not None:
            inds[t].append(join)
            continue
        if kind == "chain":
            p = t - 1
        elif kind == "star":
            p = 0
        else:
            p = int(rng.integers(0, t))
        ix = f"e{nb}"
        nb += 1
        parents[t] = p
        sizes[ix] = newdim()
        inds[p].append(ix)
        inds[t].append(ix)
        hyper_pool.append(ix)
    no = 0
    for t in range(n):
        if force_dangling:
            ix = f"k{t}"
            sizes[ix] = newdim()
            inds[t].append(ix)
            continue
        for _ in range(2):
            if rng.random() < dangling and len(inds[t]) < 4:
                ix = f"o{no}"
                no += 1
                sizes[ix] = newdim()
                inds[t].append(ix)
    for _ in range(n_scalars):
        inds.append([])
    # keep the brute-force joint small: dangling labels are shrunk to dimension 2, then dropped (never the forced
    # site labels of vector-like networks, which are only shrunk), then bonds are shrunk
    def too_big():
        return np.prod([float(s) for s in sizes.values()]) > 1.0e5

    dang = [ix for ix in sizes if ix[0] in "ok"]
    if not uniform:
        for ix in dang:
            if too_big():
                sizes[ix] = min(sizes[ix], 2)
    for ix in reversed(dang):
        if too_big() and ix[0] == "o":
            del sizes[ix]
            for ii in inds:
                if ix in ii:
                    ii.remove(ix)
    if not uniform:
        for ix in list(sizes):
            if too_big():
                sizes[ix] = min(sizes[ix], 2)
        for ix in dang:
            if too_big() and ix in sizes:
                sizes[ix] = 1
    for t in range(len(inds)):
        perm = rng.permutation(len(inds[t]))
        inds[t] = [inds[t][int(q)] for q in perm]
    return inds, sizes, ncomp + n_scalars, parents


def gen_data(rng, shape, data, dtype):
    if data == "pos":
        x = rng.uniform(0.2, 1.2, size=shape)
        if "complex" in dtype:
            x = x.astype(dtype)
    elif data == "signed":
        x = rng.normal(size=shape)
    else:
        x = rng.normal(size=shape) + 1j * rng.normal(size=shape)
    return np.asarray(x).astype(dtype)


def dtype_for(data, single=False):
    if data == "complex":
        return "complex64" if single else "complex128"
    return "float32" if single else "float64"


def build_tn(qtn, inds, sizes, arrays, exponent=0.0, site_tags=True, groups=None):
    ts = []
    for t, (ii, a) in enumerate(zip(inds, arrays)):
        tags = [f"I{t}"]
        if groups is not None:
            tags.append(f"G{groups[t]}")
        ts.append(qtn.Tensor(a, inds=tuple(ii), tags=tags))
    tn = qtn.TensorNetwork(ts)
    if exponent:
        tn.exponent = exponent
    return tn


class Ref:
    """brute-force reference of one network (double precision)"""

    def __init__(self, inds, sizes, arrays, exponent=0.0):
        self.labels = list(sizes)
        self.pos = {ix: q for q, ix in enumerate(self.labels)}
        self.sizes = sizes
        self.exponent = float(exponent)
        cplx = any(np.iscomplexobj(a) for a in arrays)
        joint = np.ones((), dtype=np.complex128 if cplx else np.float64)
        absj = np.ones(())
        N = len(self.labels)
        for ii, a in zip(inds, arrays):
            a = np.asarray(a).astype(np.complex128 if cplx else np.float64)
            ps = [self.pos[ix] for ix in ii]
            order = np.argsort(ps)
            a = np.transpose(a, order) if a.ndim else a
            shape = [1] * N
            for ix in ii:
                shape[self.pos[ix]] = sizes[ix]
            a = a.reshape(shape)
            joint = joint * a
            absj = absj * np.abs(a)
        self.joint = np.broadcast_to(joint, [sizes[ix] for ix in self.labels]) if N else joint
        self.zabs = float(np.broadcast_to(absj, self.joint.shape).sum()) * 10.0 ** self.exponent
        self.total = self.joint.sum()
        self.inds = inds

    @property
    def value(self):
        return self.total * 10.0 ** self.exponent

    def marginal(self, labels):
        """joint summed over all other labels, axes in the order of `labels`, normalised to sum 1"""
        keep = [self.pos[ix] for ix in labels]
        axes = tuple(q for q in range(len(self.labels)) if q not in keep)
        m = self.joint.sum(axis=axes) if axes else self.joint
        cur = sorted(keep)
        m = np.transpose(m, [cur.index(q) for q in keep]) if len(keep) > 1 else m
        return m / self.total

    def outer(self):
        cnt = {}
        for ii in self.inds:
            for ix in ii:
                cnt[ix] = cnt.get(ix, 0) + 1
        return [ix for ix in self.labels if cnt.get(ix, 0) == 1]

    def psi(self, out):
        """joint summed over the labels not in `out` (axes in the order of `out`), times 10**exponent"""
        keep = [self.pos[ix] for ix in out]
        axes = tuple(q for q in range(len(self.labels)) if q not in keep)
        m = self.joint.sum(axis=axes) if axes else self.joint
        cur = sorted(keep)
        if len(keep) > 1:
            m = np.transpose(m, [cur.index(q) for q in keep])
        return m * 10.0 ** self.exponent


def as_value(r):
    """value of a contract(...) return: scalar or (mantissa, exponent)"""
    if isinstance(r, tuple):
        if len(r) != 2:
            raise ValueError(f"strip_exponent return has {len(r)} entries")
        m, e = r
        return complex(m) * 10.0 ** float(np.real(e))
    if np.ndim(r) != 0:
        raise ValueError(f"expected a scalar, got shape {np.shape(r)}")
    return complex(r)


def cmp_value(got, ref, zabs, rtol, what="value"):
    if not np.isfinite(got):
        return f"{what}: not finite ({got})"
    tol = rtol * abs(ref) + rtol * 1e-3 * zabs
    if abs(got - ref) > tol:
        return (f"{what}: got {got:.12g}, brute-force reference {complex(ref):.12g} (|diff|={abs(got - ref):.2e}, "
                f"allowed {tol:.2e})")
    return None


def cmp_array(got, ref, rtol, what, scale=None):
    got = np.asarray(got)
    ref = np.asarray(ref)
    if got.shape != ref.shape:
        return f"{what}: shape {got.shape} != reference {ref.shape}"
    if not np.all(np.isfinite(got)):
        return f"{what}: not finite"
    sc = float(np.abs(ref).max()) if scale is None else scale
    d = float(np.abs(got - ref).max()) if got.size else 0.0
    if d > rtol * max(sc, 1e-300):
        return f"{what}: max |diff| {d:.3e} vs brute-force reference (scale {sc:.3e})"
    return None


def well_conditioned(ref, data):
    """signed / complex data: the exact value must not be a near-cancellation (|Z| >= 1e-3 x sum of |terms|)"""
    if data == "pos":
        return True
    return abs(ref.value) >= 1e-3 * ref.zabs


def draw_opts(rng, flavour, quick_damped=True):
    """random option set for one BP run (all JSON-able)"""
    o = {}
    o["damping"] = float(rng.choice([0.0, 0.0, 0.3, 0.7]))
    o["update"] = "parallel" if flavour == "HV1BP" else str(rng.choice(["sequential", "parallel"]))
    if flavour in ("D1BP", "L1BP", "D2BP", "L2BP"):
        o["local_convergence"] = bool(rng.integers(0, 2))
    if flavour == "HV1BP":
        o["normalize"] = str(rng.choice(["default", "L1", "L2", "Linf"]))
    else:
        o["normalize"] = str(rng.choice(["default", "default", "L1", "L2", "Linf", "L2phased"]))
    o["strip_exponent"] = bool(rng.integers(0, 2))
    o["interface"] = str(rng.choice(["function", "class"]))
    o["diis"] = bool(flavour != "L2BP" and rng.random() < 0.15)
    if flavour == "HV1BP":
        o["thread_pool"] = bool(o["interface"] == "class" and rng.random() < 0.3)
    return o


def run_kwargs(o):
    kw = dict(damping=o["damping"], update=o["update"])
    if "local_convergence" in o:
        kw["local_convergence"] = o["local_convergence"]
    if o.get("normalize", "default") != "default":
        kw["normalize"] = o["normalize"]
    return kw


def max_its(o, n):
    """far more sweeps than the diameter (<= n) needs: undamped BP on a tree is stationary after <= n + 1 sweeps,
    a damped message approaches its limit like damping**k along each of <= n levels"""
    d = o["damping"]
    if d == 0.0:
        return 60 + 10 * n
    return 400 + 150 * n if d <= 0.3 else 1500 + 500 * n


def make_init(rng, init, dtype):
    """message initialisation function fill_fn(shape) (deterministic: numbers drawn from a private generator)"""
    if init == "uniform":
        return lambda shape: np.ones(shape, dtype=dtype)
    seed = int(rng.integers(1 << 30))
    r = np.random.default_rng(seed)

    def fill(shape):
        return r.uniform(0.3, 1.3, size=shape).astype(dtype)

    return fill


# ----------------------------------------------------------------------------------------------
# one-norm flavours: value
# ----------------------------------------------------------------------------------------------

def lazy_groups(rng, parents, n_total):
    """site groups for the lazy flavours: a tensor joins the group of its parent with probability 0.4 (groups are
    connected subtrees, so the graph of groups is again a forest)"""
    g = []
    for t in range(n_total):
        p = parents[t]
        if p is not None and rng.random() < 0.4:
            g.append(g[p])
        else:
            g.append(t)
    return g


def supplied_messages_1norm(qtn, tn, flavour, rng, dtype):
    """explicit `messages=` dictionaries with random positive entries"""
    ms = {}
    if flavour == "D1BP":
        for ix, tids in tn.ind_map.items():
            if len(tids) == 2:
                for tid in tids:
                    ms[ix, tid] = rng.uniform(0.3, 1.3, size=tn.ind_size(ix)).astype(dtype)
    else:
        for ix, tids in tn.ind_map.items():
            for tid in tids:
                ms[ix, tid] = rng.uniform(0.3, 1.3, size=tn.ind_size(ix)).astype(dtype)
                ms[tid, ix] = rng.uniform(0.3, 1.3, size=tn.ind_size(ix)).astype(dtype)
    return ms


def run_one_norm(qbp, flavour, tn, o, n, init_arg, site_tags=None, tol=TOL_RUN, extra=None):
    """run one one-norm flavour through its function or class interface; returns (value, info, bp or None)"""
    kw = run_kwargs(o)
    if extra:
        kw.update(extra)
    info = {}
    its = max_its(o, n)
    fn = {"D1BP": qbp.contract_d1bp, "HD1BP": qbp.contract_hd1bp, "HV1BP": qbp.contract_hv1bp,
          "L1BP": qbp.contract_l1bp}[flavour]
    cls = {"D1BP": qbp.D1BP, "HD1BP": qbp.HD1BP, "HV1BP": qbp.HV1BP, "L1BP": qbp.L1BP}[flavour]
    if flavour == "L1BP":
        kw["site_tags"] = site_tags
        if init_arg is not None:
            kw["message_init_function"] = init_arg
    elif init_arg is not None:
        kw["messages"] = init_arg
    runkw = {} if tol is None else dict(tol=tol)
    if o.get("diis"):
        runkw["diis"] = True
    if o["interface"] == "function":
        r = fn(tn, max_iterations=its, strip_exponent=o["strip_exponent"], info=info, progbar=False, **runkw, **kw)
        return as_value(r), info, None
    if o.get("thread_pool"):
        kw["thread_pool"] = 2
    bp = cls(tn, **kw)
    bp.run(max_iterations=its, info=info, progbar=False, **runkw)
    info["converged_attr"] = bool(bp.converged)
    r = bp.contract(strip_exponent=o["strip_exponent"])
    return as_value(r), info, bp


class RollingStop(Exception):
    """run() set converged=True although the last maximal message change is large (the rolling-mean stopping rule
    fired): reported under its own contract (see check2)"""


ROLLING_CONTRACT = ("*BP.run(): converged=True is not reported while the maximal message change is still large "
                    "(>= 1e-6, single precision 1e-3; damped runs on acyclic networks)")


def check_converged(info, its, tol=TOL_RUN):
    if not info.get("converged", False):
        return (f"run() reports no convergence after {info.get('iterations')} of {its} iterations on an acyclic network "
                f"(max message change {info.get('max_mdiff')})")
    if "converged_attr" in info and not info["converged_attr"]:
        return "info['converged'] is True but bp.converged is False"
    # the documented rolling-mean rule may end a run on a plateau slightly above tol; that is judged by the value.  A
    # stop while the messages still change at the level of the value tolerance is reported on its own
    md = info.get("max_mdiff")
    big = 1e-6 if tol < 1e-6 else 1e-3
    if md is not None and float(md) >= big:
        raise RollingStop(f"converged=True after {info.get('iterations')} iterations with max message change "
                          f"{float(md):.3g} (tol {tol:g}, rolling mean of differences "
                          f"{info.get('rolling_abs_mean_diff')})")
    return None


def _guard(thunk, mode):
    def f():
        try:
            r = thunk()
        except RollingStop as e:
            return str(e) if mode == "rolling" else None
        except Exception:
            if mode == "rolling":
                return None  # reported by the main contract
            raise
        return None if mode == "rolling" else r

    return f


def check2(cx, contract, params, thunk, rolling=True, **kw):
    """evaluate `thunk` under `contract`; a damped run that stops by the rolling-mean rule with a large message change
    is reported under ROLLING_CONTRACT instead (same params), so that the two defects stay distinguishable"""
    cx.check(contract, params, _guard(thunk, "main"), **kw)
    if rolling and params.get("damping", 0.0):
        cx.check(ROLLING_CONTRACT, params, _guard(thunk, "rolling"), **kw)


ONE_NORM = ["D1BP", "HD1BP", "HV1BP", "L1BP"]


def one_norm_case(rng, flavour, kind, n, data, single=False, n_scalars=0, exponent=0.0):
    """geometry + data for a one-norm flavour (D1BP / L1BP: closed networks of bonds; hyper flavours: dangling and
    hyper labels, HV1BP with one uniform dimension)"""
    hyperfl = flavour in ("HD1BP", "HV1BP")
    uniform = int(rng.integers(1, 4)) if flavour == "HV1BP" else None
    dangling = float(rng.choice([0.0, 0.3, 0.6])) if hyperfl else 0.0
    inds, sizes, ncomp, parents = gen_geometry(rng, n, kind, dangling=dangling, uniform=uniform, n_scalars=n_scalars)
    dtype = dtype_for(data, single)
    arrays = [gen_data(rng, [sizes[ix] for ix in ii], data, dtype) for ii in inds]
    return inds, sizes, arrays, parents, dtype


def n_message_pairs(flavour, inds, sizes, groups=None):
    """number of undirected message channels the flavour maintains on this network"""
    holders = {ix: [t for t, ii in enumerate(inds) if ix in ii] for ix in sizes}
    if flavour in ("HD1BP", "HV1BP"):
        return sum(len(h) for h in holders.values())
    if flavour in ("L1BP", "L2BP"):
        return len({tuple(sorted((groups[h[0]], groups[h[1]]))) for h in holders.values()
                    if len(h) == 2 and groups[h[0]] != groups[h[1]]})
    return sum(1 for h in holders.values() if len(h) == 2)


def make_one_norm_case(seed, flavour, kind, n, data):
    """everything of one case of the one-norm value driver, regenerated from its seed"""
    rng = np.random.default_rng(seed)
    single = bool(rng.random() < 0.15)
    exponent = float(rng.choice([0.0, 0.0, 1.3, -1.3]))
    n_scalars = int(rng.integers(1, 3)) if (kind in ("forest", "hyperforest") and rng.random() < 0.5) else 0
    for _ in range(20):  # deterministic rejection of near-cancelling signed data
        inds, sizes, arrays, parents, dtype = one_norm_case(rng, flavour, kind, n, data, single, n_scalars)
        ref = Ref(inds, sizes, arrays, exponent)
        if well_conditioned(ref, data):
            break
    else:
        return None
    o = draw_opts(rng, flavour)
    init = str(rng.choice(["default", "uniform", "random", "supplied"]))
    if flavour == "L1BP" and init == "supplied":
        init = "random"
    groups = lazy_groups(rng, parents, len(inds)) if flavour == "L1BP" else None
    mrng = np.random.default_rng(int(rng.integers(1 << 30)))
    fill = make_init(rng, init, dtype) if init in ("uniform", "random") else None
    params = dict(flavour=flavour, kind=kind, n=n, data=data, dtype=dtype, exponent=exponent,
                  n_scalars=sum(1 for ii in inds if not ii), n_labels=len(sizes),
                  n_message_pairs=n_message_pairs(flavour, inds, sizes, groups),
                  size1_labels=sum(1 for v in sizes.values() if v == 1), init=init, seed=seed, **o)
    if groups is not None:
        params["n_groups"] = len(set(groups))
    return inds, sizes, arrays, ref, o, init, fill, groups, mrng, dtype, single, exponent, params


@driver("C14", "one-norm-value-on-trees", chunks=6, timeout=200,
        bound="D1BP / HD1BP / HV1BP / L1BP (contract_* functions and class .run()/.contract()) on random acyclic "
              "networks: chains, stars, random trees, forests (incl. isolated scalar tensors), hyper-trees (a label on 3+ "
              "tensors; hyper flavours only), 1..9 tensors, label dimensions 1..3 (HV1BP: one uniform dimension), "
              "dangling labels for the hyper flavours, lazy groups of 1..n tensors for L1BP; positive / signed / complex "
              "data (signed and complex only when |Z| >= 1e-3 sum|terms|), float64/complex128 (tol=1e-11, value rtol "
              "1e-6) and float32/complex64 (default tol, rtol 3e-3); stored exponent 0 / +-1.3; damping {0,0.3,0.7}, "
              "update sequential/parallel, local_convergence, normalize {default,L1,L2,Linf,L2phased}, strip_exponent, "
              "message init default / uniform / random positive / supplied dictionary; max_iterations >> diameter")
def one_norm_value(cx):
    import quimb.tensor as qtn
    import quimb.tensor.belief_propagation as qbp

    reps = 1 if cx.quick else 10
    sizes_n = [1, 2, 3, 4, 6, 9] if cx.quick else list(range(1, 10))
    for flavour in ONE_NORM:
        kinds = KINDS_SIMPLE + (KINDS_HYPER if flavour in ("HD1BP", "HV1BP") else [])
        for kind, n, data, rep in itertools.product(kinds, sizes_n, ["pos", "signed", "complex"], range(reps)):
            if not cx.mine():
                continue
            if cx.out_of_time():
                cx.inconclusive.append("one-norm-value-on-trees: time budget exhausted")
                return
            seed = int(cx.rng.integers(1 << 31))
            c = make_one_norm_case(seed, flavour, kind, n, data)
            if c is None:
                continue
            inds, sizes, arrays, ref, o, init, fill, groups, mrng, dtype, single, exponent, params = c

            def thunk(inds=inds, sizes=sizes, arrays=arrays, ref=ref, o=o, init=init, fill=fill, groups=groups,
                      flavour=flavour, single=single, exponent=exponent, mrng=mrng, dtype=dtype, n=n):
                tn = build_tn(qtn, inds, sizes, arrays, exponent, groups=groups)
                before = [t.data.copy() for t in tn]
                site_tags = None
                if flavour == "L1BP":
                    site_tags = sorted({f"G{g}" for g in groups})
                if init == "supplied":
                    init_arg = supplied_messages_1norm(qtn, tn, flavour, mrng, dtype)
                else:
                    init_arg = fill
                got, info, bp = run_one_norm(qbp, flavour, tn, o, len(inds), init_arg, site_tags,
                                             tol=None if single else TOL_RUN)
                e = check_converged(info, max_its(o, len(inds)), 5e-6 if single else TOL_RUN)
                if e:
                    return e
                e = cmp_value(got, ref.value, ref.zabs, RTOL_SINGLE if single else RTOL, f"{flavour} value")
                if e:
                    return e
                if tn.exponent != exponent or any(not np.array_equal(a, t.data) for a, t in zip(before, tn)):
                    return "the input network was modified (inplace=False)"
                return None

            check2(cx, "contract_*1bp / *1BP.run().contract(): converges and equals the sum over all labels of the product "
                   "of the tensors (x 10**exponent) on an acyclic network", params, thunk, nontrivial=n > 1)


# ----------------------------------------------------------------------------------------------
# one-norm (hyper) flavours: marginals read from the messages, sampling by decimation
# ----------------------------------------------------------------------------------------------

def make_marginal_case(seed, flavour, kind, n, data):
    rng = np.random.default_rng(seed)
    exponent = float(rng.choice([0.0, 1.3]))
    for _ in range(20):
        inds, sizes, arrays, parents, dtype = one_norm_case(rng, flavour, kind, n, data, False, 0)
        ref = Ref(inds, sizes, arrays, exponent)
        if well_conditioned(ref, data) and sizes:
            break
    else:
        return None
    o = draw_opts(rng, flavour)
    for k in ("strip_exponent", "diis", "thread_pool"):
        o.pop(k, None)
    o["interface"] = str(rng.choice(["class", "run_function"]))
    params = dict(flavour=flavour, kind=kind, n=n, data=data, exponent=exponent, seed=seed,
                  n_scalars=sum(1 for ii in inds if not ii), **o)
    return inds, sizes, arrays, ref, o, exponent, params


def hyper_messages(qbp, flavour, tn, o, n):
    """converged messages in the (tid, ix) / (ix, tid) dictionary form + the convergence flag"""
    from quimb.tensor.belief_propagation import hd1bp as m_hd, hv1bp as m_hv

    kw = dict(damping=o["damping"])
    its = max_its(o, n)
    info = {}
    if o["interface"] == "run_function":
        if flavour == "HD1BP":
            ms, conv = m_hd.run_belief_propagation_hd1bp(tn, max_iterations=its, tol=TOL_RUN, progbar=False, info=info,
                                                         **kw)
        else:
            if o["normalize"] != "default":
                kw["normalize"] = o["normalize"]
            ms, conv = m_hv.run_belief_propagation_hv1bp(tn, max_iterations=its, tol=TOL_RUN, progbar=False, info=info,
                                                         **kw)
        if bool(conv) != bool(info.get("converged")):
            raise ValueError("returned convergence flag differs from info['converged']")
        check_converged(info, its)
        return ms, conv
    kw = run_kwargs(o)
    if flavour == "HD1BP":
        bp = qbp.HD1BP(tn, **kw)
    else:
        bp = qbp.HV1BP(tn, **kw)
    bp.run(max_iterations=its, tol=TOL_RUN, progbar=False, info=info)
    if info.get("converged"):
        check_converged(info, its)
    ms = bp.messages if flavour == "HD1BP" else bp.get_messages_dense()
    return ms, bp.converged


@driver("C14", "one-norm-marginals-and-sampling", chunks=4, timeout=200,
        bound="HD1BP / HV1BP messages (class .run() and run_belief_propagation_*) on acyclic networks as in "
              "one-norm-value-on-trees (1..8 tensors, hyper and dangling labels, no rank-0 tensors): "
              "compute_index_marginal / compute_all_index_marginals_from_messages / compute_tensor_marginal == the joint "
              "summed over the other labels / total (positive, signed and complex data with |Z| >= 1e-3 sum|terms|, rtol "
              "1e-6 of the largest entry); sample_hd1bp / sample_hv1bp (positive data, tol=1e-11, bias False/True, all "
              "labels or a subset): configuration in range, tn_config sums to the weight of the configuration, omega == "
              "its exact probability")
def one_norm_marginals(cx):
    import quimb.tensor as qtn
    import quimb.tensor.belief_propagation as qbp
    from quimb.tensor.belief_propagation import bp_common

    reps = 1 if cx.quick else 8
    sizes_n = [1, 2, 3, 5, 8] if cx.quick else list(range(1, 9))
    kinds = KINDS_SIMPLE + KINDS_HYPER
    for flavour, kind, n, data, rep in itertools.product(["HD1BP", "HV1BP"], kinds, sizes_n,
                                                         ["pos", "signed", "complex"], range(reps)):
        if not cx.mine():
            continue
        if cx.out_of_time():
            cx.inconclusive.append("one-norm-marginals-and-sampling: time budget exhausted")
            return
        seed = int(cx.rng.integers(1 << 31))
        c = make_marginal_case(seed, flavour, kind, n, data)
        if c is None or c[6]["n_scalars"]:
            continue
        inds, sizes, arrays, ref, o, exponent, params = c

        def thunk(inds=inds, sizes=sizes, arrays=arrays, ref=ref, o=o, exponent=exponent, flavour=flavour):
            tn = build_tn(qtn, inds, sizes, arrays, exponent)
            ms, conv = hyper_messages(qbp, flavour, tn, o, len(inds))
            if not conv:
                return "no convergence reported on an acyclic network with max_iterations >> diameter"
            allm = bp_common.compute_all_index_marginals_from_messages(tn, ms)
            if set(allm) != set(sizes):
                return f"marginal dictionary has labels {sorted(allm)} != {sorted(sizes)}"
            for ix in sizes:
                r = ref.marginal([ix])
                e = cmp_array(allm[ix], r, RTOL, f"index marginal of {ix} (all-marginals dictionary)")
                e = e or cmp_array(bp_common.compute_index_marginal(tn, ix, ms), r, RTOL, f"compute_index_marginal({ix})")
                if e:
                    return e
            return None

        check2(cx, "index marginals read from converged hyper BP messages == brute-force marginals of the joint",
               params, thunk, nontrivial=n > 1)

        cnt = {}
        for ii in inds:
            for ix in ii:
                cnt[ix] = cnt.get(ix, 0) + 1
        for with_outer in (False, True):
            sel = [q for q, ii in enumerate(inds) if ii and any(cnt[ix] == 1 for ix in ii) == with_outer]
            if not sel:
                continue

            def tthunk(inds=inds, sizes=sizes, arrays=arrays, ref=ref, o=o, exponent=exponent, flavour=flavour, sel=sel):
                tn = build_tn(qtn, inds, sizes, arrays, exponent)
                ms, conv = hyper_messages(qbp, flavour, tn, o, len(inds))
                if not conv:
                    return "no convergence reported on an acyclic network with max_iterations >> diameter"
                for q in sel:
                    (tid,) = tn._get_tids_from_tags(f"I{q}")
                    t = tn.tensor_map[tid]
                    r = ref.marginal(list(t.inds))
                    e = cmp_array(bp_common.compute_tensor_marginal(tn, tid, ms), r, RTOL,
                                  f"compute_tensor_marginal of tensor {q} {t.inds}")
                    if e:
                        return e
                return None

            check2(cx, "compute_tensor_marginal from converged hyper BP messages == brute-force marginal of the joint over "
                   "the labels of the tensor", dict(params, tensors_with_outer_label=with_outer), tthunk, rolling=False,
                   nontrivial=n > 1)

        if data != "pos":
            continue
        srng = np.random.default_rng(seed + 1)
        bias = bool(srng.integers(0, 2))
        subset = bool(srng.integers(0, 2))
        labels = list(sizes)
        out = [labels[int(q)] for q in srng.permutation(len(labels))[:max(1, len(labels) // 2)]] if subset else None
        sseed = int(srng.integers(1 << 30))
        sparams = dict(flavour=flavour, kind=kind, n=n, exponent=exponent, seed=seed, damping=o["damping"], bias=bias,
                       subset=subset)

        def sthunk(inds=inds, sizes=sizes, arrays=arrays, ref=ref, o=o, exponent=exponent, flavour=flavour, bias=bias,
                   out=out, sseed=sseed):
            tn = build_tn(qtn, inds, sizes, arrays, exponent)
            fn = qbp.sample_hd1bp if flavour == "HD1BP" else qbp.sample_hv1bp
            config, tnc, omega = fn(tn, output_inds=out, max_iterations=max_its(o, len(inds)), tol=TOL_RUN,
                                    damping=o["damping"], bias=bias, seed=sseed, progbar=False)
            want = set(sizes) if out is None else set(out)
            if set(config) != want:
                return f"sampled labels {sorted(config)} != requested {sorted(want)}"
            sel = []
            for ix in ref.labels:
                if ix in config:
                    v = int(config[ix])
                    if not 0 <= v < sizes[ix]:
                        return f"value {v} of label {ix} outside [0,{sizes[ix]})"
                    sel.append(v)
                else:
                    sel.append(slice(None))
            w = ref.joint[tuple(sel)].sum()
            got_w = as_value(tnc.contract(output_inds=())) if tnc.num_tensors else None
            e = cmp_value(got_w, w * 10.0 ** exponent, abs(w) * 10.0 ** exponent, RTOL, "sum of tn_config")
            if e:
                return e
            p = float(np.real(w / ref.total))
            if abs(float(omega) - p) > RTOL * p:
                return f"omega = {float(omega):.10g} but the exact probability of the sampled configuration is {p:.10g}"
            return None

        cx.check("sample_h*1bp: configuration in range, tn_config carries its weight, omega == exact probability",
                 sparams, sthunk, nontrivial=n > 1)


# ----------------------------------------------------------------------------------------------
# two-norm flavours: norm, marginals of |psi|^2, reduced density matrices, sampling
# ----------------------------------------------------------------------------------------------

def bond_conditioning(inds, sizes, arrays):
    """smallest ratio (least / largest singular value) over all bonds and both sides of the matrix
    [bond label x outer labels of the side] obtained by contracting one side of the cut tree: the exact BP message
    into the other side is its Gram matrix.  1.0 for networks without bonds."""
    holders = {}
    for t, ii in enumerate(inds):
        for ix in ii:
            holders.setdefault(ix, []).append(t)
    worst = 1.0
    for ix, hs in holders.items():
        if len(hs) != 2:
            continue
        for start in hs:
            side, stack = {start}, [start]
            while stack:
                t = stack.pop()
                for jx in inds[t]:
                    if jx == ix:
                        continue
                    for u in holders[jx]:
                        if u not in side:
                            side.add(u)
                            stack.append(u)
            side = sorted(side)
            sub_inds = [inds[t] for t in side]
            labels = {jx: sizes[jx] for ii in sub_inds for jx in ii}
            r = Ref(sub_inds, labels, [arrays[t] for t in side])
            outer = [jx for jx in r.outer() if jx != ix]
            M = r.psi([ix] + outer).reshape(sizes[ix], -1)
            sv = np.linalg.svd(M, compute_uv=False)
            ratio = 0.0 if len(sv) < sizes[ix] else float(sv[-1] / sv[0]) if sv[0] > 0 else 0.0
            worst = min(worst, ratio)
    return worst


def make_two_norm_case(seed, flavour, kind, n, data, vector_like=None, single=None, phys2=False):
    rng = np.random.default_rng(seed)
    if single is None:
        single = bool(rng.random() < 0.12)
    if vector_like is None:
        vector_like = bool(rng.integers(0, 2))
    exponent = float(rng.choice([0.0, 0.0, 0.7, -0.7]))
    dangling = float(rng.choice([0.0, 0.4, 0.8]))
    for _ in range(20):
        inds, sizes, ncomp, parents = gen_geometry(rng, n, kind, dangling=dangling, force_dangling=vector_like)
        if phys2:
            for ix in sizes:
                if ix[0] == "k":
                    sizes[ix] = 2
        dtype = dtype_for(data, single)
        arrays = [gen_data(rng, [sizes[ix] for ix in ii], data, dtype) for ii in inds]
        ref = Ref(inds, sizes, arrays, exponent)
        out = ref.outer()
        psi = ref.psi(out)
        norm2 = float(np.sum(np.abs(psi) ** 2))
        # the norm must not be a near-cancellation of the bond sums (root-mean-square entry of psi >= 1e-2 x the
        # mean sum of |terms| per entry)
        if data == "pos" or (norm2 > 0 and np.sqrt(norm2) >= 1e-2 * ref.zabs / np.sqrt(max(psi.size, 1))):
            break
    else:
        return None
    o = draw_opts(rng, flavour)
    groups = lazy_groups(rng, parents, len(inds)) if flavour == "L2BP" else None
    init = "default"
    if flavour == "D2BP":
        init = str(rng.choice(["default", "default", "supplied", "partial"]))
    mseed = int(rng.integers(1 << 30))
    shrinkable = False
    for ix in sizes:
        holders = [ii for ii in inds if ix in ii]
        if len(holders) == 2:
            for ii in holders:
                other = int(np.prod([sizes[jx] for jx in ii if jx != ix], dtype=int))
                if other < sizes[ix]:
                    shrinkable = True
    params = dict(flavour=flavour, kind=kind, n=n, data=data, dtype=dtype, exponent=exponent, vector_like=vector_like,
                  n_outer=len(out), size1_labels=sum(1 for v in sizes.values() if v == 1), init=init, seed=seed,
                  n_message_pairs=n_message_pairs(flavour, inds, sizes, groups), shrinkable=shrinkable, **o)
    if groups is not None:
        params["n_groups"] = len(set(groups))
    params["full_rank_bonds"] = bool(bond_conditioning(inds, sizes, arrays) >= 1e-3)
    return dict(inds=inds, sizes=sizes, arrays=arrays, ref=ref, out=out, psi=psi, norm2=norm2, o=o, groups=groups,
                init=init, mseed=mseed, dtype=dtype, single=single, exponent=exponent, params=params, parents=parents,
                vector_like=vector_like)


def supplied_messages_2norm(tn, mseed, dtype, partial):
    """random hermitian positive definite initial messages keyed (label, destination tid)"""
    r = np.random.default_rng(mseed)
    ms = {}
    cplx = "complex" in dtype
    for ix, tids in tn.ind_map.items():
        if len(tids) != 2:
            continue
        for tid in tids:
            d = tn.ind_size(ix)
            a = r.normal(size=(d, d)) + (1j * r.normal(size=(d, d)) if cplx else 0.0)
            m = (a @ a.conj().T + 0.3 * np.eye(d)).astype(dtype)
            if partial and r.random() < 0.5:
                continue
            ms[ix, tid] = m
    return ms


def two_norm_bp(qbp, c, tn, tol=TOL_RUN, site_tags=None):
    """a converged D2BP / L2BP instance for the case c (class interface); returns (bp, info)"""
    o = c["o"]
    kw = run_kwargs(o)
    info = {}
    its = max_its(o, len(c["inds"]))
    if c["params"]["flavour"] == "D2BP":
        if c["init"] != "default":
            kw["messages"] = supplied_messages_2norm(tn, c["mseed"], c["dtype"], c["init"] == "partial")
        bp = qbp.D2BP(tn, **kw)
    else:
        bp = qbp.L2BP(tn, site_tags=site_tags or sorted({f"G{g}" for g in c["groups"]}), **kw)
    bp.run(max_iterations=its, info=info, progbar=False, diis=bool(o.get("diis")),
           **({} if tol is None else dict(tol=tol)))
    info["converged_attr"] = bool(bp.converged)
    return bp, info


def as_vector_tn(qtn, tn, n):
    return tn.view_as_(qtn.TensorNetworkGenVector, sites=list(range(n)), site_tag_id="I{}", site_ind_id="k{}")


def ref_rdm(psi, out, keep):
    pos = [out.index(ix) for ix in keep]
    x = np.moveaxis(psi, pos, list(range(len(pos))))
    D = int(np.prod(x.shape[:len(pos)], dtype=int))
    M = x.reshape(D, -1)
    rho = M @ M.conj().T
    return rho / np.trace(rho)


@driver("C14", "two-norm-value-and-marginals", chunks=6, timeout=200,
        bound="D2BP / L2BP (contract_* functions, class .run()/.contract()) on random acyclic networks: chains, stars, "
              "trees, forests, 1..9 tensors, bond and outer dimensions 1..3, 0..2 outer labels per tensor or exactly one "
              "site label per tensor, lazy groups for L2BP; positive / signed / complex data, float64/complex128 "
              "(tol=1e-11, rtol 1e-6) and float32/complex64 (default tol, rtol 3e-3), stored exponent 0 / +-0.7; options as "
              "in one-norm-value-on-trees; D2BP initial messages default / supplied random positive definite / partly "
              "supplied.  Norm^2 == sum |psi|^2 of the dense state; D2BP.compute_marginal == marginal of |psi|^2; "
              "D2BP.partial_trace (one site, two adjacent sites, normalised) and L2BP.partial_trace(site) == psi psi^+ "
              "traced over the rest")
def two_norm_value(cx):
    import quimb.tensor as qtn
    import quimb.tensor.belief_propagation as qbp

    reps = 1 if cx.quick else 10
    sizes_n = [1, 2, 3, 4, 6, 9] if cx.quick else list(range(1, 10))
    for flavour, kind, n, data, rep in itertools.product(["D2BP", "L2BP"], KINDS_SIMPLE, sizes_n,
                                                         ["pos", "signed", "complex"], range(reps)):
        if not cx.mine():
            continue
        if cx.out_of_time():
            cx.inconclusive.append("two-norm-value-and-marginals: time budget exhausted")
            return
        seed = int(cx.rng.integers(1 << 31))
        c = make_two_norm_case(seed, flavour, kind, n, data)
        if c is None:
            continue
        params = c["params"]

        def thunk(c=c, flavour=flavour):
            o = c["o"]
            tn = build_tn(qtn, c["inds"], c["sizes"], c["arrays"], c["exponent"], groups=c["groups"])
            before = [t.data.copy() for t in tn]
            rtol = RTOL_SINGLE if c["single"] else RTOL
            want = c["norm2"]
            if o["interface"] == "function":
                kw = run_kwargs(o)
                info = {}
                if flavour == "D2BP":
                    if c["init"] != "default":
                        kw["messages"] = supplied_messages_2norm(tn, c["mseed"], c["dtype"], c["init"] == "partial")
                    fn = qbp.contract_d2bp
                else:
                    kw["site_tags"] = sorted({f"G{g}" for g in c["groups"]})
                    fn = qbp.contract_l2bp
                if not c["single"]:
                    kw["tol"] = TOL_RUN
                if o.get("diis"):
                    kw["diis"] = True
                got = as_value(fn(tn, max_iterations=max_its(o, len(c["inds"])), strip_exponent=o["strip_exponent"],
                                  info=info, progbar=False, **kw))
            else:
                bp, info = two_norm_bp(qbp, c, tn, tol=None if c["single"] else TOL_RUN)
                got = as_value(bp.contract(strip_exponent=o["strip_exponent"]))
            e = check_converged(info, max_its(o, len(c["inds"])), 5e-6 if c["single"] else TOL_RUN)
            if e:
                return e
            e = cmp_value(got, want, want, rtol, f"{flavour} norm^2")
            if e:
                return e
            if any(not np.array_equal(a, t.data) for a, t in zip(before, tn)):
                return "the input network was modified (inplace=False)"
            return None

        check2(cx, "contract_*2bp / *2BP.run().contract(): converges and equals sum |psi|^2 of the dense state "
               "(x 10**(2 exponent)) on an acyclic network", params, thunk, nontrivial=n > 1)

        if c["single"] or not c["out"]:
            continue

        if flavour == "D2BP":
            def mthunk(c=c):
                tn = build_tn(qtn, c["inds"], c["sizes"], c["arrays"], c["exponent"])
                bp, info = two_norm_bp(qbp, c, tn)
                e = check_converged(info, 0)
                if e:
                    return e
                p2 = np.abs(c["psi"]) ** 2
                for q, ix in enumerate(c["out"]):
                    r = p2.sum(axis=tuple(a for a in range(p2.ndim) if a != q))
                    r = r / r.sum()
                    e = cmp_array(bp.compute_marginal(ix), r, RTOL, f"compute_marginal({ix})", scale=1.0)
                    if e:
                        return e
                return None

            check2(cx, "D2BP.compute_marginal(ind) == marginal of |psi|^2 of the dense state", params, mthunk,
                   rolling=False, nontrivial=n > 1)

        if not c["vector_like"]:
            continue

        def pthunk(c=c, flavour=flavour):
            nn = len(c["inds"])
            tn = build_tn(qtn, c["inds"], c["sizes"], c["arrays"], c["exponent"], groups=c["groups"])
            as_vector_tn(qtn, tn, nn)
            bp, info = two_norm_bp(qbp, c, tn, site_tags=[f"I{s}" for s in range(nn)])
            e = check_converged(info, 0)
            if e:
                return e
            if flavour == "L2BP":  # partial_trace(site) of the lazy flavour: one tensor per site here
                for s in range(nn):
                    if f"I{s}" not in bp.neighbors:
                        continue
                    rho = bp.partial_trace(s)
                    e = cmp_array(rho, ref_rdm(c["psi"], c["out"], [f"k{s}"]), RTOL, f"L2BP.partial_trace({s})", scale=1.0)
                    if e:
                        return e
                return None
            wheres = [(s,) for s in range(nn)]
            for s, p in enumerate(c["parents"]):
                if p is not None:
                    wheres.append((s, p) if s % 2 else (p, s))
            for w in wheres:
                rho = bp.partial_trace(w)
                e = cmp_array(rho, ref_rdm(c["psi"], c["out"], [f"k{s}" for s in w]), RTOL, f"D2BP.partial_trace({w})",
                              scale=1.0)
                if e:
                    return e
            return None

        check2(cx, "*2BP.partial_trace (single sites; D2BP also adjacent pairs) == reduced density matrix of the dense "
               "state", params, pthunk, rolling=False, nontrivial=n > 1)


# ----------------------------------------------------------------------------------------------
# gauging / compression with converged messages and no truncation
# ----------------------------------------------------------------------------------------------

def ref_of_tn(tn):
    """brute-force reference of a quimb network from the raw data of its tensors"""
    inds = [list(t.inds) for t in tn]
    sizes = {}
    for t in tn:
        for ix, d in zip(t.inds, t.shape):
            if sizes.setdefault(ix, int(d)) != int(d):
                raise ValueError(f"label {ix} has two different sizes in the result ({sizes[ix]} and {d})")
    return Ref(inds, sizes, [np.asarray(t.data) for t in tn], float(np.real(tn.exponent)))


def dense_by_einsum(tn, out):
    """dense tensor of a quimb network over the labels `out` (all others summed) by one numpy einsum over the raw
    tensor data, times 10**exponent; checks that every label has one size"""
    ids, sizes, ops = {}, {}, []
    for t in tn:
        for ix, d in zip(t.inds, t.shape):
            if sizes.setdefault(ix, int(d)) != int(d):
                raise ValueError(f"label {ix} has two different sizes in the result ({sizes[ix]} and {d})")
            ids.setdefault(ix, len(ids))
        ops += [np.asarray(t.data), [ids[ix] for ix in t.inds]]
    if len(ids) > 52:
        raise ValueError("too many labels for numpy einsum")
    cnt = {}
    for t in tn:
        for ix in t.inds:
            cnt[ix] = cnt.get(ix, 0) + 1
    outer = sorted(ix for ix, k in cnt.items() if k == 1)
    x = np.einsum(*ops, [ids[ix] for ix in out], optimize="greedy") if all(ix in ids for ix in out) else None
    return x if x is None else x * 10.0 ** float(np.real(tn.exponent)), outer


def same_state(tn_new, out, psi, rtol, what):
    """the network tn_new denotes the dense tensor psi over the outer labels `out`"""
    got, outer = dense_by_einsum(tn_new, out)
    if outer != sorted(out):
        return f"{what}: outer labels {outer} != {sorted(out)}"
    return cmp_array(got, psi, rtol, f"{what}: dense tensor after the operation")


GAUGE_ROUTES_D2 = ["gauge_all('bp')", "gauge_all_belief_propagation", "gauge_all_belief_propagation_", "gauge_d2bp",
                   "compress_d2bp", "D2BP.compress", "D2BP.compress(inplace)", "D2BP.gauge_symmetric",
                   "D2BP.gauge_insert+inverse", "D2BP.gauge_temp", "tn.gauge_insert(bp)+inverse"]
GAUGE_ROUTES_L2 = ["compress_l2bp", "compress_l2bp(lazy)", "L2BP.compress"]


@driver("C14", "bp-gauging-and-compression-untruncated", chunks=6, timeout=200,
        bound="networks as in two-norm-value-and-marginals (1..8 tensors, double precision, incl. rank-deficient bonds); "
              "messages converged with tol=1e-11 and max_iterations >> diameter (damping {0,0.3}, both update orders, "
              "local_convergence on/off); gauge_all('bp') / gauge_all_belief_propagation(_) / gauge_d2bp / compress_d2bp / "
              "D2BP.compress / gauge_symmetric (max_bond=None, cutoff=0) / D2BP.gauge_insert + returned inverses / "
              "gauge_temp / TensorNetwork.gauge_insert(bp) on a sub-network / compress_l2bp / L2BP.compress: the dense tensor "
              "over the outer labels is unchanged (rtol 1e-6 of its largest entry), inplace=False leaves the input untouched; "
              "D2BP.gate_ without truncation == the gate applied to the dense state; D1BP / HD1BP.get_gauged_tn on closed "
              "trees: value unchanged and product of the first entries == exact value")
def gauging(cx):
    import quimb.tensor as qtn
    import quimb.tensor.belief_propagation as qbp

    reps = 1 if cx.quick else 6
    sizes_n = [1, 2, 3, 5, 8] if cx.quick else list(range(1, 9))
    for kind, n, data, rep in itertools.product(KINDS_SIMPLE, sizes_n, ["pos", "signed", "complex"], range(reps)):
        seed = int(cx.rng.integers(1 << 31))
        cD = make_two_norm_case(seed, "D2BP", kind, n, data, single=False)
        cL = make_two_norm_case(seed + 7, "L2BP", kind, n, data, single=False)
        for c, routes in ((cD, GAUGE_ROUTES_D2), (cL, GAUGE_ROUTES_L2)):
            if c is None:
                continue
            c["o"]["damping"] = min(c["o"]["damping"], 0.3)
            c["params"]["damping"] = c["o"]["damping"]
            for route in routes:
                if ("insert" in route or "gauge_temp" in route) and not c["params"]["full_rank_bonds"]:
                    continue  # inverse square roots of singular messages: ill-conditioned by construction
                if not cx.mine():
                    continue
                if cx.out_of_time():
                    cx.inconclusive.append("bp-gauging-and-compression-untruncated: time budget exhausted")
                    return
                params = dict(c["params"], route=route)
                for k in ("strip_exponent", "interface", "init", "diis"):
                    params.pop(k, None)
                c["o"]["diis"] = False

                def thunk(c=c, route=route):
                    o = c["o"]
                    nn = len(c["inds"])
                    tn = build_tn(qtn, c["inds"], c["sizes"], c["arrays"], c["exponent"], groups=c["groups"])
                    before = [t.data.copy() for t in tn]
                    psi = c["psi"]
                    out = c["out"]
                    kw = run_kwargs(o)
                    its = max_its(o, nn)
                    info = {}
                    run = dict(max_iterations=its, tol=TOL_RUN, info=info)
                    inplace = False
                    if route == "gauge_all('bp')":
                        new = tn.gauge_all("bp", **run, **kw)
                    elif route == "gauge_all_belief_propagation":
                        new = tn.gauge_all_belief_propagation(**run, **kw)
                    elif route == "gauge_all_belief_propagation_":
                        new = tn.gauge_all_belief_propagation_(**run, **kw)
                        inplace = True
                    elif route == "gauge_d2bp":
                        new = qbp.gauge_d2bp(tn, **run, **kw)
                    elif route == "compress_d2bp":
                        new = qbp.compress_d2bp(tn, max_bond=None, cutoff=0.0, **run, **kw)
                    elif route.startswith("compress_l2bp"):
                        new = qbp.compress_l2bp(tn, max_bond=None, cutoff=0.0, lazy="lazy" in route,
                                                site_tags=sorted({f"G{g}" for g in c["groups"]}), **run, **kw)
                    else:
                        bp, info = two_norm_bp(qbp, c, tn)
                        if route == "L2BP.compress":
                            new = bp.compress(tn.copy(), max_bond=None, cutoff=0.0)
                        elif route == "D2BP.compress":
                            new = bp.compress(max_bond=None, cutoff=0.0)
                        elif route == "D2BP.compress(inplace)":
                            new = bp.compress(max_bond=None, cutoff=0.0, inplace=True)
                            if new is not bp.tn:
                                return "compress(inplace=True) did not return the network of the BP object"
                        elif route == "D2BP.gauge_symmetric":
                            new = bp.gauge_symmetric()
                        else:
                            # insertion of sqrt(messages) on the boundary of a sub-network and removal again
                            pick = [q for q in range(nn) if q % 2 == 0]
                            sub = bp.tn.select_any([f"I{q}" for q in pick], virtual=False)
                            sub_before = [(t.inds, t.data.copy()) for t in sub]
                            if route == "D2BP.gauge_insert+inverse":
                                outer = bp.gauge_insert(sub)
                                for t, ix, minv in outer:
                                    t.gate_(minv, ix)
                            elif route == "tn.gauge_insert(bp)+inverse":
                                outer = sub.gauge_insert(bp, smudge=1e-12, return_gauges="inverse")
                                for t, ix, minv in outer:
                                    t.gate_(minv, ix)
                            else:
                                with bp.gauge_temp(sub) as outer:
                                    pass
                            for (ii, a), t in zip(sub_before, sub):
                                if t.inds != ii:
                                    return f"labels changed {ii} -> {t.inds}"
                                e = cmp_array(t.data, a, 1e-6, f"{route}: tensor {ii} after insertion and removal",
                                              scale=float(np.abs(a).max()))
                                if e:
                                    return e
                            e = check_converged(info, its)
                            return e
                    e = check_converged(info, its)
                    if e:
                        return e
                    if inplace:
                        if new is not tn:
                            return "the in-place spelling returned another object"
                    elif any(not np.array_equal(a, t.data) for a, t in zip(before, tn)) or tn.num_tensors != nn:
                        return "inplace=False but the input network was modified"
                    return same_state(new, out, psi, 1e-6, route)

                check2(cx, "BP gauging / compression with converged messages, max_bond=None, cutoff=0: the dense tensor "
                       "over the outer labels is unchanged", params, thunk, nontrivial=n > 1)

        # D2BP.gate_ without truncation on vector-like networks
        cG = make_two_norm_case(seed + 13, "D2BP", kind, n, data, vector_like=True, single=False)
        if cG is not None and cG["params"]["full_rank_bonds"] and cx.mine():
            grng = np.random.default_rng(seed + 14)
            pairs = [(s, p) for s, p in enumerate(cG["parents"]) if p is not None]
            where = pairs[int(grng.integers(len(pairs)))] if pairs and grng.random() < 0.8 else (int(grng.integers(n)),)
            if len(where) == 2 and grng.random() < 0.5:
                where = where[::-1]
            D = int(np.prod([cG["sizes"][f"k{s}"] for s in where], dtype=int))
            G = grng.normal(size=(D, D)) + (1j * grng.normal(size=(D, D)) if data == "complex" else 0.0)
            cG["o"]["damping"] = min(cG["o"]["damping"], 0.3)
            params = dict(cG["params"], damping=cG["o"]["damping"], where=list(where), n_gate_sites=len(where))
            for k in ("strip_exponent", "interface", "diis"):
                params.pop(k, None)
            cG["o"]["diis"] = False

            def gthunk(c=cG, where=where, G=G):
                nn = len(c["inds"])
                tn = build_tn(qtn, c["inds"], c["sizes"], c["arrays"], c["exponent"])
                as_vector_tn(qtn, tn, nn)
                bp, info = two_norm_bp(qbp, c, tn)
                e = check_converged(info, 0)
                if e:
                    return e
                bp.gate_(G, where, max_bond=None, cutoff=0.0)
                out = c["out"]
                pos = [out.index(f"k{s}") for s in where]
                x = np.moveaxis(c["psi"], pos, list(range(len(pos))))
                shp = x.shape
                y = (G @ x.reshape(G.shape[1], -1)).reshape(shp)
                want = np.moveaxis(y, list(range(len(pos))), pos)
                e = same_state(bp.tn, out, want, 1e-6, f"D2BP.gate_(G, {where})")
                if e:
                    return e
                # messages were updated by gate_: BP re-converges to the norm of the new state
                info2 = {}
                bp.run(max_iterations=max_its(c["o"], nn), tol=TOL_RUN, info=info2)
                e = check_converged(info2, 0)
                if e:
                    return e
                n2 = float(np.sum(np.abs(want) ** 2))
                return cmp_value(as_value(bp.contract()), n2, n2, RTOL, "norm^2 after gate_ and re-convergence")

            check2(cx, "D2BP.gate_(G, where) without truncation == G applied to the dense state; BP then gives its norm",
                   params, gthunk, nontrivial=n > 1)

        # one-norm gauged networks (closed trees)
        for flavour in ("D1BP", "HD1BP"):
            if data == "complex" or not cx.mine():
                continue
            c1 = make_one_norm_case(seed + 21, "D1BP", kind, n, data)
            if c1 is None:
                continue
            inds, sizes, arrays, ref, o, init, fill, groups, mrng, dtype, single, exponent, p1 = c1
            if single or p1["n_scalars"] == len(inds):
                continue
            params = dict(flavour=flavour, kind=kind, n=n, data=data, exponent=exponent, seed=seed + 21,
                          damping=o["damping"], update=o["update"], n_scalars=p1["n_scalars"],
                          size1_labels=p1["size1_labels"])
            if flavour == "D1BP":
                params["local_convergence"] = o["local_convergence"]

            def g1thunk(inds=inds, sizes=sizes, arrays=arrays, ref=ref, o=o, exponent=exponent, flavour=flavour):
                tn = build_tn(qtn, inds, sizes, arrays, exponent)
                kw = dict(damping=o["damping"], update=o["update"])
                if flavour == "D1BP":
                    kw["local_convergence"] = o["local_convergence"]
                bp = (qbp.D1BP if flavour == "D1BP" else qbp.HD1BP)(tn, **kw)
                info = {}
                bp.run(max_iterations=max_its(o, len(inds)), tol=TOL_RUN, info=info)
                e = check_converged(info, 0)
                if e:
                    return e
                g = bp.get_gauged_tn()
                val, _ = dense_by_einsum(g, [])
                e = cmp_value(complex(val), ref.value, ref.zabs, 1e-6, "value of the gauged network")
                if e:
                    return e
                z0 = 10.0 ** float(np.real(g.exponent))
                for t in g:
                    z0 = z0 * np.asarray(t.data).reshape(-1)[0]
                return cmp_value(complex(z0), ref.value, ref.zabs, 1e-6, "product of the first entries of the gauged tensors")

            check2(cx, "*1BP.get_gauged_tn() on a closed tree: same value, and the product of the first entries of the "
                   "tensors is the exact value", params, g1thunk, nontrivial=n > 1)


# ----------------------------------------------------------------------------------------------
# sampling from |psi|^2 by D2BP decimation
# ----------------------------------------------------------------------------------------------

@driver("C14", "two-norm-sampling", chunks=3, timeout=200,
        bound="sample_d2bp on acyclic vector-like networks (one site label per tensor, 1..7 tensors, bonds 1..3, site "
              "dimension 2 everywhere or mixed 1..3), positive / signed / complex data, double precision, tol=1e-11, "
              "max_iterations >> diameter, local_convergence on/off, both update orders, bias None / 2: configuration in "
              "range over all outer labels, tn_config == the selected amplitude, omega == product of the exact (biased) "
              "conditional probabilities of |psi|^2 in the order of decimation (rtol 1e-6)")
def two_norm_sampling(cx):
    import quimb.tensor as qtn
    import quimb.tensor.belief_propagation as qbp

    reps = 1 if cx.quick else 8
    sizes_n = [1, 2, 4, 7] if cx.quick else list(range(1, 8))
    for kind, n, data, phys2, rep in itertools.product(KINDS_SIMPLE, sizes_n, ["pos", "signed", "complex"], [True, False],
                                                       range(reps)):
        if not cx.mine():
            continue
        if cx.out_of_time():
            cx.inconclusive.append("two-norm-sampling: time budget exhausted")
            return
        seed = int(cx.rng.integers(1 << 31))
        c = make_two_norm_case(seed, "D2BP", kind, n, data, vector_like=True, single=False, phys2=phys2)
        if c is None:
            continue
        rng = np.random.default_rng(seed + 3)
        lc = bool(rng.integers(0, 2))
        update = str(rng.choice(["sequential", "parallel"]))
        bias = None if rng.random() < 0.6 else 2.0
        sseed = int(rng.integers(1 << 30))
        all2 = all(c["sizes"][ix] == 2 for ix in c["out"])
        params = dict(kind=kind, n=n, data=data, exponent=c["exponent"], seed=seed, local_convergence=lc, update=update,
                      bias=bias, all_phys_dim_2=all2, size1_labels=c["params"]["size1_labels"])

        def thunk(c=c, lc=lc, update=update, bias=bias, sseed=sseed):
            nn = len(c["inds"])
            tn = build_tn(qtn, c["inds"], c["sizes"], c["arrays"], c["exponent"])
            config, tnc, omega = qbp.sample_d2bp(tn, max_iterations=60 + 10 * nn, tol=TOL_RUN, seed=sseed, bias=bias,
                                                 local_convergence=lc, update=update, progbar=False)
            out = c["out"]
            if set(config) != set(out):
                return f"sampled labels {sorted(config)} != outer labels {sorted(out)}"
            p2 = np.abs(c["psi"]) ** 2
            fixed = {}
            om = 1.0
            for ix, v in config.items():  # dictionary order == order of decimation
                v = int(v)
                q = out.index(ix)
                if not 0 <= v < p2.shape[q]:
                    return f"value {v} of label {ix} outside [0,{p2.shape[q]})"
                sel = tuple(fixed.get(a, slice(None)) for a in range(p2.ndim))
                rest = p2[sel]
                axes = [a for a in range(p2.ndim) if a not in fixed]
                pm = rest.sum(axis=tuple(k for k, a in enumerate(axes) if a != q))
                pm = pm / pm.sum()
                if bias is not None:
                    pm = pm ** bias
                    pm = pm / pm.sum()
                om *= float(pm[v])
                fixed[q] = v
            amp = c["psi"][tuple(fixed[a] for a in range(p2.ndim))]
            got_amp, _ = dense_by_einsum(tnc, [])
            e = cmp_value(complex(got_amp), amp, abs(amp), RTOL, "tn_config amplitude")
            if e:
                return e
            if abs(float(omega) - om) > RTOL * om:
                return (f"omega = {float(omega):.10g} but the product of the exact conditional probabilities of the sampled "
                        f"values is {om:.10g}")
            return None

        cx.check("sample_d2bp: configuration in range, tn_config is its amplitude, omega == exact probability under |psi|^2",
                 params, thunk, nontrivial=n > 1)


# ----------------------------------------------------------------------------------------------
# schedule independence (systematic option grid on one network, messages compared too)
# ----------------------------------------------------------------------------------------------

def canon_message(m):
    m = np.asarray(m)
    if m.ndim >= 2 and m.shape[0] == m.shape[-1] and m.ndim == 2:
        tr = np.trace(m)
        return m / tr if tr != 0 else m
    k = int(np.argmax(np.abs(m.reshape(-1))))
    return m / m.reshape(-1)[k]


def messages_of(bp, flavour):
    if flavour == "HV1BP":
        return bp.get_messages_dense()
    if flavour in ("L1BP", "L2BP"):
        return {k: t.data for k, t in bp.messages.items()}
    return dict(bp.messages)


SCHEDULES = [dict(update=u, damping=d, local_convergence=lc, init=i)
             for u in ("sequential", "parallel") for d in (0.0, 0.3, 0.7) for lc in (False, True)
             for i in ("default", "uniform", "random")]


def build_bp(qbp, flavour, tn, sched, site_tags, fill, dtype):
    kw = dict(damping=sched["damping"])
    if flavour != "HV1BP":
        kw["update"] = sched["update"]
    if flavour in ("D1BP", "L1BP", "D2BP", "L2BP"):
        kw["local_convergence"] = sched["local_convergence"]
    if flavour in ("L1BP", "L2BP"):
        kw["site_tags"] = site_tags
    if sched["init"] != "default":
        if flavour in ("D1BP", "HD1BP", "HV1BP"):
            kw["messages"] = fill
        elif flavour == "L1BP":
            kw["message_init_function"] = fill
        elif flavour == "D2BP":
            ms = {}
            for ix, tids in tn.ind_map.items():
                if len(tids) == 2:
                    for tid in tids:
                        d = tn.ind_size(ix)
                        ms[ix, tid] = np.eye(d, dtype=dtype) if sched["init"] == "uniform" else \
                            (np.diag(fill((d,))) + 0.1).astype(dtype)
            kw["messages"] = ms
    cls = getattr(qbp, flavour)
    return cls(tn, **kw)


@driver("C14", "schedule-independence", chunks=6, timeout=200,
        bound="all six flavours, one acyclic network per (flavour, kind, size in {3,5,8}, data kind), double precision; "
              "every schedule in update {sequential, parallel} x damping {0, 0.3, 0.7} x local_convergence {off, on} x initial "
              "messages {default, uniform, random positive} (quick: a deterministic third of them): converges within "
              "max_iterations >> diameter, value == brute-force reference (rtol 1e-6) and every message, rescaled to "
              "largest entry 1 (trace 1 for two-norm matrices), equals the message of the plain schedule (sequential, "
              "undamped, no local convergence, default initialisation) to 1e-6")
def schedules(cx):
    import quimb.tensor as qtn
    import quimb.tensor.belief_propagation as qbp

    flavours = ["D1BP", "HD1BP", "HV1BP", "L1BP", "D2BP", "L2BP"]
    sizes_n = [3, 6] if cx.quick else [3, 5, 8]
    for flavour in flavours:
        kinds = ["chain", "star", "tree", "forest"] + (["hyper", "hyperstar"] if flavour in ("HD1BP", "HV1BP") else [])
        for kind, n, data in itertools.product(kinds, sizes_n, ["pos", "signed", "complex"]):
            seed = int(cx.rng.integers(1 << 31))
            if flavour in ("D2BP", "L2BP"):
                c = make_two_norm_case(seed, flavour, kind, n, data, single=False)
                if c is None:
                    continue
                inds, sizes, arrays, exponent, groups, dtype = (c["inds"], c["sizes"], c["arrays"], c["exponent"],
                                                               c["groups"], c["dtype"])
                want, scale = c["norm2"], c["norm2"]
                size1 = c["params"]["size1_labels"]
            else:
                c = make_one_norm_case(seed, flavour, kind, n, data)
                if c is None:
                    continue
                inds, sizes, arrays, ref, _, _, _, groups, _, dtype, single, exponent, p1 = c
                if p1["n_scalars"] and flavour == "HV1BP":
                    continue  # recorded separately (rank-0 tensors are ignored by HV1BP)
                if single:
                    dtype = dtype_for(data)
                    arrays = [a.astype(dtype) for a in arrays]
                    ref = Ref(inds, sizes, arrays, exponent)
                want, scale = ref.value, ref.zabs
                size1 = p1["size1_labels"]
            site_tags = sorted({f"G{g}" for g in groups}) if groups is not None else None
            for k, sched in enumerate(SCHEDULES):
                if flavour == "HV1BP" and (sched["update"] == "sequential" or sched["local_convergence"]):
                    continue
                if flavour == "HD1BP" and sched["local_convergence"]:
                    continue
                if flavour == "L2BP" and sched["init"] != "default":
                    continue
                if cx.quick and (k + n) % 3:
                    continue
                if not cx.mine():
                    continue
                if cx.out_of_time():
                    cx.inconclusive.append("schedule-independence: time budget exhausted")
                    return
                fseed = int(np.random.default_rng([seed, k]).integers(1 << 30))
                params = dict(flavour=flavour, kind=kind, n=n, data=data, seed=seed, size1_labels=size1, **sched)

                def thunk(inds=inds, sizes=sizes, arrays=arrays, exponent=exponent, groups=groups, dtype=dtype,
                          want=want, scale=scale, sched=sched, flavour=flavour, site_tags=site_tags, fseed=fseed):
                    tn = build_tn(qtn, inds, sizes, arrays, exponent, groups=groups)
                    plain = dict(update="parallel" if flavour == "HV1BP" else "sequential", damping=0.0,
                                 local_convergence=False, init="default")
                    bp0 = build_bp(qbp, flavour, tn, plain, site_tags, None, dtype)
                    bp0.run(max_iterations=60 + 10 * len(inds), tol=TOL_RUN)
                    if not bp0.converged:
                        return "the plain schedule did not converge"
                    fill = make_init(np.random.default_rng(fseed), sched["init"], dtype) if sched["init"] != "default" \
                        else None
                    bp = build_bp(qbp, flavour, tn, sched, site_tags, fill, dtype)
                    info = {}
                    o = dict(damping=sched["damping"])
                    bp.run(max_iterations=max_its(o, len(inds)), tol=TOL_RUN, info=info)
                    e = check_converged(info, max_its(o, len(inds)))
                    if e:
                        return e
                    e = cmp_value(as_value(bp.contract()), want, scale, RTOL, f"{flavour} value under this schedule")
                    if e:
                        return e
                    m0, m1 = messages_of(bp0, flavour), messages_of(bp, flavour)
                    if set(m0) != set(m1):
                        return "different message keys"
                    for key in m0:
                        a, b = canon_message(m0[key]), canon_message(m1[key])
                        e = cmp_array(b, a, 1e-6, f"message {key} (rescaled) vs the plain schedule", scale=1.0)
                        if e:
                            return e
                    return None

                check2(cx, "BP result does not depend on the schedule: value exact and messages equal those of the plain "
                       "schedule up to scale", params, thunk)


# ----------------------------------------------------------------------------------------------
# region graphs: counting numbers
# ----------------------------------------------------------------------------------------------

def ref_region_counts(regions):
    """intersection closure of the family (non-empty intersections) and the counting numbers
    c(r) = 1 - sum of c(s) over the strict supersets s of r in the closure"""
    fam = {frozenset(r) for r in regions}
    closure = set(fam)
    grew = True
    while grew:
        grew = False
        for a, b in itertools.combinations(list(closure), 2):
            x = a & b
            if x and x not in closure:
                closure.add(x)
                grew = True
    counts = {}
    for r in sorted(closure, key=len, reverse=True):
        counts[r] = 1 - sum(c for s, c in counts.items() if r < s)
    pair = set(fam) | {a & b for a, b in itertools.combinations(list(fam), 2) if a & b}
    deep = closure != pair
    return counts, deep


def check_counts(got, regions, autoprune, what):
    want, _ = ref_region_counts(regions)
    if autoprune:
        want = {r: c for r, c in want.items() if c != 0}
    if set(got) != set(want):
        miss = [sorted(r) for r in set(want) - set(got)]
        extra = [sorted(r) for r in set(got) - set(want)]
        return f"{what}: regions differ from the intersection closure: missing {miss[:4]}, unexpected {extra[:4]}"
    for r, c in want.items():
        if got[r] != c:
            return f"{what}: count of {sorted(r)} is {got[r]}, defining recursion gives {c}"
    nodes = set().union(*regions) if regions else set()
    for v in sorted(nodes):
        tot = sum(c for r, c in got.items() if v in r)
        if tot != 1:
            return f"{what}: counting numbers of the regions containing node {v} sum to {tot}, not 1"
    return None


@driver("C14", "region-graph-counting-numbers", chunks=2, timeout=200,
        bound="RegionGraph(regions, autocomplete=True, autoprune in {True, False}) and gen_region_counts(regions, "
              "autocomplete=True, autoprune in {True, False}) on every family of 1..3 distinct non-empty subsets of a "
              "4-node universe (quick) / of a 5-node universe plus 600 random families of 4..6 subsets of 6 nodes "
              "(thorough), each also with a duplicated region and as lists / tuples: regions == intersection closure (minus "
              "zero counts when pruning), counts obey c(r) = 1 - sum over strict supersets, and for every node the counts of "
              "the regions containing it sum to 1")
def region_graph(cx):
    from quimb.tensor.belief_propagation import RegionGraph, gen_region_counts

    U = 4 if cx.quick else 5
    subsets = [frozenset(c) for k in range(1, U + 1) for c in itertools.combinations(range(U), k)]
    fams = [list(f) for k in (1, 2, 3) for f in itertools.combinations(subsets, k)]
    if not cx.quick:
        rng = np.random.default_rng(12345)
        sub6 = [frozenset(c) for k in range(1, 6) for c in itertools.combinations(range(6), k)]
        for _ in range(600):
            k = int(rng.integers(4, 7))
            fams.append([sub6[int(q)] for q in rng.permutation(len(sub6))[:k]])
    for idx, fam in enumerate(fams):
        if not cx.mine():
            continue
        if cx.out_of_time():
            cx.inconclusive.append("region-graph-counting-numbers: time budget exhausted")
            return
        regs = [sorted(r) for r in fam]
        _, deep = ref_region_counts(fam)
        base = frozenset.intersection(*fam)
        # two regions meet exactly in the (non-empty) part common to all regions, which is not itself a given region
        base_only = bool(base) and base not in fam and any(a & b == base for a, b in itertools.combinations(fam, 2))
        variant = idx % 3
        given = [tuple(r) for r in regs] if variant == 1 else ([list(r) for r in regs] + [list(regs[0])] if variant == 2
                                                               else [set(r) for r in regs])
        for autoprune in (True, False):
            params = dict(regions=regs, autoprune=autoprune, given_as=["sets", "tuples", "lists+duplicate"][variant],
                          needs_deep_closure=bool(deep), overlap_is_common_part=base_only)

            def t_rg(given=given, fam=fam, autoprune=autoprune):
                rg = RegionGraph(given, autocomplete=True, autoprune=autoprune)
                got = {frozenset(r): rg.get_count(r) for r in rg.regions}
                e = check_counts(got, fam, autoprune, "RegionGraph")
                if e:
                    return e
                if autoprune is False and not rg.isbalanced():
                    return "isbalanced() is False although every node count is 1"
                return None

            cx.check("RegionGraph(autocomplete=True): regions are the intersection closure and the counting numbers of the "
                     "regions containing a node sum to 1", params, t_rg, nontrivial=len(fam) > 1)

            def t_gen(given=given, fam=fam, autoprune=autoprune):
                got = {}
                for r, c in gen_region_counts(given, autocomplete=True, autoprune=autoprune):
                    r = frozenset(r)
                    if r in got:
                        return f"region {sorted(r)} generated twice"
                    got[r] = c
                return check_counts(got, fam, autoprune, "gen_region_counts")

            cx.check("gen_region_counts(autocomplete=True): regions are the intersection closure and the counting numbers "
                     "of the regions containing a node sum to 1", params, t_gen, nontrivial=len(fam) > 1)


# ----------------------------------------------------------------------------------------------
# combine_local_contractions (the helper every flavour uses to assemble its estimate)
# ----------------------------------------------------------------------------------------------

@driver("C14", "combine-local-contractions", chunks=1, timeout=120,
        bound="combine_local_contractions on 0..8 values (positive / signed / complex, magnitudes 1e-30..1e30), counting "
              "numbers in {-2,-1,1,2,3} (fractional only for positive values), initial mantissa / exponent, overall power "
              "{1, 2, 0.5 (positive data)}, strip_exponent, an exact zero among the values with check_zero=True: the result "
              "(or mantissa * 10**exponent) == (mantissa0 * 10**exponent0 * prod x**p)**power to 1e-10 relative")
def combine(cx):
    from quimb.tensor.belief_propagation import combine_local_contractions

    rng = cx.rng
    N = 150 if cx.quick else 1500
    for idx in range(N):
        kind = ["pos", "signed", "complex"][idx % 3]
        k = int(rng.integers(0, 9))
        mags = 10.0 ** rng.uniform(-30, 30, size=k) if idx % 5 == 0 else 10.0 ** rng.uniform(-2, 2, size=k)
        if kind == "pos":
            xs = mags
            ps = [float(rng.choice([-2, -1, 1, 2, 3, 0.5, -0.25])) for _ in range(k)]
        elif kind == "signed":
            xs = mags * rng.choice([-1.0, 1.0], size=k)
            ps = [int(rng.choice([-2, -1, 1, 2, 3])) for _ in range(k)]
        else:
            xs = mags * np.exp(1j * rng.uniform(-np.pi, np.pi, size=k))
            ps = [int(rng.choice([-2, -1, 1, 2, 3])) for _ in range(k)]
        power = float(rng.choice([1.0, 1.0, 2.0, 0.5])) if kind == "pos" else float(rng.choice([1.0, 1.0, 2.0]))
        m0 = None if idx % 2 else (float(rng.uniform(0.5, 2)) if kind == "pos" else
                                   (-1.5 if kind == "signed" else complex(np.exp(1j * rng.uniform(-3, 3)))))
        e0 = None if idx % 4 < 2 else float(rng.uniform(-5, 5))
        strip = bool(idx % 2 == 0)
        zero = bool(idx % 11 == 0 and k > 0)
        if zero:
            xs = np.array(xs, dtype=complex if kind == "complex" else float)
            xs[int(rng.integers(k))] = 0.0
            ps = [abs(p) for p in ps]
        params = dict(idx=idx, kind=kind, k=k, power=power, strip_exponent=strip, zero=zero, mantissa=str(m0), exponent=e0,
                      ps=ps)

        def thunk(xs=xs, ps=ps, power=power, m0=m0, e0=e0, strip=strip, zero=zero):
            vals = [(x, p) for x, p in zip(xs, ps)]
            r = combine_local_contractions(vals, backend="numpy", strip_exponent=strip, check_zero=True, mantissa=m0,
                                           exponent=e0, power=power)
            if strip and not (isinstance(r, tuple) and len(r) == 2):
                return f"strip_exponent=True did not return a pair: {r!r}"
            if zero:
                isz = (r[0] == 0) if strip else (r == 0)
                return None if isz else f"a zero value with check_zero=True gave {r}"
            logmag = (e0 or 0.0) + sum(p * np.log10(abs(x)) for x, p in zip(xs, ps))
            phase = complex(1.0 if m0 is None else m0)
            for x, p in zip(xs, ps):
                phase *= (x / abs(x)) ** p
            logmag *= power
            phase = phase ** power
            if abs(logmag) > 300:
                if not strip:
                    return None
                m, e = r
                ok = abs(complex(m) - phase) <= 1e-10 * abs(phase) and abs(float(e) - logmag) <= 1e-9 * abs(logmag)
                return None if ok else f"(mantissa, exponent) = {r}, reference ({phase}, {logmag})"
            want = phase * 10.0 ** logmag
            got = as_value(r)
            if abs(got - want) > 1e-10 * abs(want):
                return f"got {got}, reference {want}"
            return None

        cx.check("combine_local_contractions == (mantissa0 * 10**exponent0 * prod x**p) ** power", params, thunk,
                 nontrivial=k > 0)


# ----------------------------------------------------------------------------------------------
# normalisations of a converged BP object and loop / cluster corrections on trees (which must be trivial)
# ----------------------------------------------------------------------------------------------

OBJ_METHODS = {
    "D1BP": ["normalize_message_pairs", "normalize_tensors", "get_normalized_tn", "contract_gloop_expand",
             "contract_loop_series_expansion", "contract_with_loops"],
    "HD1BP": ["normalize_messages", "contract_gloop_expand"],
    "L1BP": ["normalize_message_pairs"],
    "D2BP": ["normalize_message_pairs", "normalize_tensors", "contract_gloop_expand", "contract_loop_series_expansion"],
    "L2BP": ["normalize_message_pairs"],
}


@driver("C14", "bp-object-normalisations-and-corrections-on-trees", chunks=3, timeout=200,
        bound="converged D1BP / HD1BP / L1BP / D2BP / L2BP objects (undamped, tol=1e-11) on acyclic networks with 2..7 "
              "tensors (closed for the one-norm flavours), positive / signed (/ complex for two-norm) double precision "
              "data, stored exponent 0 or non-zero: normalize_message_pairs / normalize_messages / normalize_tensors / "
              "get_normalized_tn leave contract() at the exact value (and produce the documented unit overlaps / unit "
              "local contractions); contract_gloop_expand (default product form), contract_loop_series_expansion and "
              "contract_with_loops on a network without loops return the exact value (rtol 1e-6)")
def bp_objects(cx):
    import quimb.tensor as qtn
    import quimb.tensor.belief_propagation as qbp

    reps = 1 if cx.quick else 6
    sizes_n = [2, 5] if cx.quick else [2, 3, 4, 5, 7]
    for flavour, methods in OBJ_METHODS.items():
        two = flavour in ("D2BP", "L2BP")
        datas = ["pos", "signed", "complex"] if two else ["pos", "signed"]
        for kind, n, data, rep in itertools.product(["chain", "star", "tree", "forest"], sizes_n, datas, range(reps)):
            seed = int(cx.rng.integers(1 << 31))
            if two:
                c = make_two_norm_case(seed, flavour, kind, n, data, single=False)
                if c is None:
                    continue
                inds, sizes, arrays, exponent, groups = c["inds"], c["sizes"], c["arrays"], c["exponent"], c["groups"]
                want, scale = c["norm2"], c["norm2"]
            else:
                c = make_one_norm_case(seed, "L1BP" if flavour == "L1BP" else "D1BP", kind, n, data)
                if c is None:
                    continue
                inds, sizes, arrays, ref, _, _, _, groups, _, dtype, single, exponent, p1 = c
                if single:
                    arrays = [a.astype(dtype_for(data)) for a in arrays]
                    ref = Ref(inds, sizes, arrays, exponent)
                want, scale = ref.value, ref.zabs
            site_tags = sorted({f"G{g}" for g in groups}) if groups is not None else None
            for method in methods:
                if not cx.mine():
                    continue
                if cx.out_of_time():
                    cx.inconclusive.append("bp-object-normalisations-and-corrections-on-trees: time budget exhausted")
                    return
                params = dict(flavour=flavour, method=method, kind=kind, n=n, data=data, seed=seed,
                              exponent_nonzero=bool(exponent), n_scalars=sum(1 for ii in inds if not ii))

                def thunk(inds=inds, sizes=sizes, arrays=arrays, exponent=exponent, groups=groups, flavour=flavour,
                          method=method, want=want, scale=scale, site_tags=site_tags):
                    tn = build_tn(qtn, inds, sizes, arrays, exponent, groups=groups)
                    kw = dict(site_tags=site_tags) if site_tags else {}
                    bp = getattr(qbp, flavour)(tn, **kw)
                    info = {}
                    bp.run(max_iterations=60 + 10 * len(inds), tol=TOL_RUN, info=info)
                    e = check_converged(info, 0)
                    if e:
                        return e
                    e = cmp_value(as_value(bp.contract()), want, scale, RTOL, "contract() before the call")
                    if e:
                        return e
                    if method in ("normalize_message_pairs", "normalize_messages"):
                        getattr(bp, method)()
                        if flavour in ("D1BP", "D2BP"):
                            for ix, tids in bp.tn.ind_map.items():
                                if len(tids) == 2:
                                    a, b = (np.asarray(bp.messages[ix, t]).reshape(-1) for t in tids)
                                    if abs(abs(a @ b) - 1) > 1e-8 or abs(a @ a - b @ b) > 1e-8 * abs(a @ a):
                                        return f"bond {ix}: <mi|mj> = {a @ b}, <mi|mi> = {a @ a}, <mj|mj> = {b @ b}"
                        got = as_value(bp.contract())
                    elif method == "normalize_tensors":
                        bp.normalize_message_pairs()
                        bp.normalize_tensors()
                        for tid in bp.tn.tensor_map:
                            v = complex(bp.local_tensor_contract(tid))
                            if abs(v - 1) > 1e-8:
                                return f"local contraction of tensor {tid} is {v} after normalize_tensors"
                        got = as_value(bp.contract())
                    elif method == "get_normalized_tn":
                        bp.normalize_message_pairs()
                        tnn, sign, ex = bp.get_normalized_tn()
                        val, _ = dense_by_einsum(tnn, [])
                        got = complex(val) * complex(sign) * 10.0 ** float(np.real(ex))
                        e = cmp_value(as_value(bp.contract()), want, scale, RTOL, "contract() after get_normalized_tn")
                        if e:
                            return e
                    else:
                        got = as_value(getattr(bp, method)())
                    return cmp_value(got, want, scale, RTOL, f"{flavour}.{method}: value")

                cx.check("converged BP object on a tree: normalisation methods keep contract() exact; loop / cluster "
                         "corrections are trivial (value stays exact)", params, thunk)


# ----------------------------------------------------------------------------------------------
# exactly zero-valued acyclic networks
# ----------------------------------------------------------------------------------------------

@driver("C14", "zero-valued-trees", chunks=1, timeout=120,
        bound="chains of 2..5 tensors whose two end tensors are supported on different values of their bond (diagonal positive "
              "tensors in between), so that the value (one-norm flavours) resp. the state (two-norm flavours, with one outer "
              "label on each end) is exactly zero; bond dimensions 2..3; default options, scalar and (mantissa, exponent) "
              "return forms: the returned value is exactly 0 (not NaN)")
def zero_valued(cx):
    import quimb.tensor as qtn
    import quimb.tensor.belief_propagation as qbp

    rng = cx.rng
    for flavour, n, d, strip in itertools.product(["D1BP", "HD1BP", "HV1BP", "L1BP", "D2BP", "L2BP"], [2, 3, 5], [2, 3],
                                                  [False, True]):
        two = flavour in ("D2BP", "L2BP")
        diag = [rng.uniform(0.5, 1.5, size=d) for _ in range(n - 2)]
        v, w = rng.uniform(0.5, 1.5, size=2), rng.uniform(0.5, 1.5, size=2)
        params = dict(flavour=flavour, n=n, d=d, strip_exponent=strip, zero_value=True)

        def thunk(flavour=flavour, n=n, d=d, strip=strip, diag=diag, v=v, w=w, two=two):
            e0, e1 = np.zeros(d), np.zeros(d)
            e0[0], e1[d - 1] = 1.0, 2.0
            ts = []
            first = np.multiply.outer(e0, v) if two else e0
            last = np.multiply.outer(e1, w) if two else e1
            ts.append(qtn.Tensor(first, ["e0"] + (["k0"] if two else []), tags=["I0"]))
            for q, dd in enumerate(diag):
                ts.append(qtn.Tensor(np.diag(dd), [f"e{q}", f"e{q + 1}"], tags=[f"I{q + 1}"]))
            ts.append(qtn.Tensor(last, [f"e{n - 2}"] + (["k1"] if two else []), tags=[f"I{n - 1}"]))
            tn = qtn.TensorNetwork(ts)
            info = {}
            fn = getattr(qbp, "contract_" + flavour.lower())
            kw = dict(site_tags=[f"I{q}" for q in range(n)]) if flavour in ("L1BP", "L2BP") else {}
            r = fn(tn, strip_exponent=strip, info=info, **kw)
            if strip and not (isinstance(r, tuple) and len(r) == 2):
                return f"strip_exponent=True returned {r!r}"
            m = r[0] if strip else r
            if not np.isfinite(complex(m)):
                return f"value of an exactly zero-valued chain: {r!r} (expected 0)"
            if complex(m) != 0:
                return f"value of an exactly zero-valued chain: {r!r} (expected exactly 0)"
            return None

        cx.check("contract_*bp on an acyclic network whose exact value is 0 returns 0", params, thunk)
