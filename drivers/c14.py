"""C14 bounded stand-in: belief propagation on acyclic networks vs brute-force numpy references.

Reference semantics (shares no code with quimb): the *joint* array of a network is the broadcast product of the raw
tensor data over the axes of all labels (one axis per label, hyper labels included).  From it
  value          = joint.sum() * 10**exponent                       (one-norm flavours; dangling labels are summed)
  index marginal = joint summed over every other label / joint.sum()
  tensor marginal= joint summed over the labels not on that tensor / joint.sum()
  psi            = joint summed over the non-dangling labels        (two-norm flavours), norm^2 = sum |psi|^2 *
                   10**(2 exponent), marginals / reduced density matrices from |psi|^2 resp. psi psi^dagger.
"""

import itertools

import numpy as np

from vf.rtc import driver

TOL_RUN = 1e-11      # message tolerance handed to run()
RTOL = 1e-6          # relative tolerance of double precision values / marginals
RTOL_SINGLE = 3e-3   # single precision (run with quimb's default tol=5e-6)


# ----------------------------------------------------------------------------------------------
# acyclic factor graphs
# ----------------------------------------------------------------------------------------------

KINDS_SIMPLE = ["chain", "star", "tree", "forest"]
KINDS_HYPER = ["hyper", "hyperstar", "hyperforest"]


def gen_geometry(rng, n, kind, dims=(1, 2, 3), dangling=0.0, uniform=None, force_dangling=False, n_scalars=0):
    """random acyclic factor graph: n tensors; returns (inds per tensor, sizes of labels, number of components, parent of each tensor).
    kind: chain / star / tree / forest (labels on <= 2 tensors), hyper / hyperstar / hyperforest (a label may sit on
    3+ tensors; the tensor--label incidence graph stays a forest).  dangling = probability of an outer label per
    tensor (two draws); force_dangling: every tensor gets exactly one outer label 'k{i}' (vector-like network)."""
    inds = [[] for _ in range(n)]
    parents = [None] * (n + n_scalars)
    sizes = {}
    nb = 0

    def newdim():
        return int(uniform) if uniform else int(rng.choice(dims))

    ncomp = 1
    if kind in ("forest", "hyperforest") and n >= 2:
        ncomp = int(rng.integers(2, min(n, 3) + 1))
    hyper_pool = []  # labels that may be joined by a further tensor
    for t in range(ncomp, n):
        join = None
        if kind in ("hyper", "hyperforest") and hyper_pool and (t == ncomp + 1 or rng.random() < 0.4):
            join = hyper_pool[int(rng.integers(len(hyper_pool)))]
        elif kind == "hyperstar" and hyper_pool:
            join = hyper_pool[0]
        if join is not None:
            inds[t].append(join)
            continue
        if kind == "chain":
            p = t - 1
        elif kind == "star":
            p = 0
        else:
            p = int(rng.integers(0, t))
        ix = f"b{nb}"
        nb += 1
        parents[t] = p
        sizes[ix] = newdim()
        inds[p].append(ix)
        inds[t].append(ix)
        hyper_pool.append(ix)
    no = 0
    for t in range(n):
        if force_dangling:
            ix = f"k{t}"
            sizes[ix] = newdim()
            inds[t].append(ix)
            continue
        for _ in range(2):
            if rng.random() < dangling and len(inds[t]) < 4:
                ix = f"o{no}"
                no += 1
                sizes[ix] = newdim()
                inds[t].append(ix)
    for _ in range(n_scalars):
        inds.append([])
    # keep the brute-force joint small: dangling labels are shrunk to dimension 2, then dropped (never the forced
    # site labels of vector-like networks, which are only shrunk), then bonds are shrunk
    def too_big():
        return np.prod([float(s) for s in sizes.values()]) > 1.0e5

    dang = [ix for ix in sizes if ix[0] in "ok"]
    if not uniform:
        for ix in dang:
            if too_big():
                sizes[ix] = min(sizes[ix], 2)
    for ix in reversed(dang):
        if too_big() and ix[0] == "o":
            del sizes[ix]
            for ii in inds:
                if ix in ii:
                    ii.remove(ix)
    if not uniform:
        for ix in list(sizes):
            if too_big():
                sizes[ix] = min(sizes[ix], 2)
        for ix in dang:
            if too_big() and ix in sizes:
                sizes[ix] = 1
    for t in range(len(inds)):
        perm = rng.permutation(len(inds[t]))
        inds[t] = [inds[t][int(q)] for q in perm]
    return inds, sizes, ncomp + n_scalars, parents


def gen_data(rng, shape, data, dtype):
    if data == "pos":
        x = rng.uniform(0.2, 1.2, size=shape)
        if "complex" in dtype:
            x = x.astype(dtype)
    elif data == "signed":
        x = rng.normal(size=shape)
    else:
        x = rng.normal(size=shape) + 1j * rng.normal(size=shape)
    return np.asarray(x).astype(dtype)


def dtype_for(data, single=False):
    if data == "complex":
        return "complex64" if single else "complex128"
    return "float32" if single else "float64"


def build_tn(qtn, inds, sizes, arrays, exponent=0.0, site_tags=True, groups=None):
    ts = []
    for t, (ii, a) in enumerate(zip(inds, arrays)):
        tags = [f"I{t}"]
        if groups is not None:
            tags.append(f"G{groups[t]}")
        ts.append(qtn.Tensor(a, inds=tuple(ii), tags=tags))
    tn = qtn.TensorNetwork(ts)
    if exponent:
        tn.exponent = exponent
    return tn


class Ref:
    """brute-force reference of one network (double precision)"""

    def __init__(self, inds, sizes, arrays, exponent=0.0):
        self.labels = list(sizes)
        self.pos = {ix: q for q, ix in enumerate(self.labels)}
        self.sizes = sizes
        self.exponent = float(exponent)
        cplx = any(np.iscomplexobj(a) for a in arrays)
        joint = np.ones((), dtype=np.complex128 if cplx else np.float64)
        absj = np.ones(())
        N = len(self.labels)
        for ii, a in zip(inds, arrays):
            a = np.asarray(a).astype(np.complex128 if cplx else np.float64)
            ps = [self.pos[ix] for ix in ii]
            order = np.argsort(ps)
            a = np.transpose(a, order) if a.ndim else a
            shape = [1] * N
            for ix in ii:
                shape[self.pos[ix]] = sizes[ix]
            a = a.reshape(shape)
            joint = joint * a
            absj = absj * np.abs(a)
        self.joint = np.broadcast_to(joint, [sizes[ix] for ix in self.labels]) if N else joint
        self.zabs = float(np.broadcast_to(absj, self.joint.shape).sum()) * 10.0 ** self.exponent
        self.total = self.joint.sum()
        self.inds = inds

    @property
    def value(self):
        return self.total * 10.0 ** self.exponent

    def marginal(self, labels):
        """joint summed over all other labels, axes in the order of `labels`, normalised to sum 1"""
        keep = [self.pos[ix] for ix in labels]
        axes = tuple(q for q in range(len(self.labels)) if q not in keep)
        m = self.joint.sum(axis=axes) if axes else self.joint
        cur = sorted(keep)
        m = np.transpose(m, [cur.index(q) for q in keep]) if len(keep) > 1 else m
        return m / self.total

    def outer(self):
        cnt = {}
        for ii in self.inds:
            for ix in ii:
                cnt[ix] = cnt.get(ix, 0) + 1
        return [ix for ix in self.labels if cnt.get(ix, 0) == 1]

    def psi(self, out):
        """joint summed over the labels not in `out` (axes in the order of `out`), times 10**exponent"""
        keep = [self.pos[ix] for ix in out]
        axes = tuple(q for q in range(len(self.labels)) if q not in keep)
        m = self.joint.sum(axis=axes) if axes else self.joint
        cur = sorted(keep)
        if len(keep) > 1:
            m = np.transpose(m, [cur.index(q) for q in keep])
        return m * 10.0 ** self.exponent


def as_value(r):
    """value of a contract(...) return: scalar or (mantissa, exponent)"""
    if isinstance(r, tuple):
        if len(r) != 2:
            raise ValueError(f"strip_exponent return has {len(r)} entries")
        m, e = r
        return complex(m) * 10.0 ** float(np.real(e))
    if np.ndim(r) != 0:
        raise ValueError(f"expected a scalar, got shape {np.shape(r)}")
    return complex(r)


def cmp_value(got, ref, zabs, rtol, what="value"):
    if not np.isfinite(got):
        return f"{what}: not finite ({got})"
    tol = rtol * abs(ref) + rtol * 1e-3 * zabs
    if abs(got - ref) > tol:
        return (f"{what}: got {got:.12g}, brute-force reference {complex(ref):.12g} (|diff|={abs(got - ref):.2e}, "
                f"allowed {tol:.2e})")
    return None


def cmp_array(got, ref, rtol, what, scale=None):
    got = np.asarray(got)
    ref = np.asarray(ref)
    if got.shape != ref.shape:
        return f"{what}: shape {got.shape} != reference {ref.shape}"
    if not np.all(np.isfinite(got)):
        return f"{what}: not finite"
    sc = float(np.abs(ref).max()) if scale is None else scale
    d = float(np.abs(got - ref).max()) if got.size else 0.0
    if d > rtol * max(sc, 1e-300):
        return f"{what}: max |diff| {d:.3e} vs brute-force reference (scale {sc:.3e})"
    return None


def well_conditioned(ref, data):
    """signed / complex data: the exact value must not be a near-cancellation (|Z| >= 1e-3 x sum of |terms|)"""
    if data == "pos":
        return True
    return abs(ref.value) >= 1e-3 * ref.zabs


def draw_opts(rng, flavour, quick_damped=True):
    """random option set for one BP run (all JSON-able)"""
    o = {}
    o["damping"] = float(rng.choice([0.0, 0.0, 0.3, 0.7]))
    o["update"] = "parallel" if flavour == "HV1BP" else str(rng.choice(["sequential", "parallel"]))
    if flavour in ("D1BP", "L1BP", "D2BP", "L2BP"):
        o["local_convergence"] = bool(rng.integers(0, 2))
    if flavour == "HV1BP":
        o["normalize"] = str(rng.choice(["default", "L1", "L2", "Linf"]))
    else:
        o["normalize"] = str(rng.choice(["default", "default", "L1", "L2", "Linf", "L2phased"]))
    o["strip_exponent"] = bool(rng.integers(0, 2))
    o["interface"] = str(rng.choice(["function", "class"]))
    return o


def run_kwargs(o):
    kw = dict(damping=o["damping"], update=o["update"])
    if "local_convergence" in o:
        kw["local_convergence"] = o["local_convergence"]
    if o.get("normalize", "default") != "default":
        kw["normalize"] = o["normalize"]
    return kw


def max_its(o, n):
    """far more sweeps than the diameter (<= n) needs: undamped BP on a tree is stationary after <= n + 1 sweeps,
    a damped message approaches its limit like damping**k along each of <= n levels"""
    d = o["damping"]
    if d == 0.0:
        return 60 + 10 * n
    return 400 + 150 * n if d <= 0.3 else 1500 + 500 * n


def make_init(rng, init, dtype):
    """message initialisation function fill_fn(shape) (deterministic: numbers drawn from a private generator)"""
    if init == "uniform":
        return lambda shape: np.ones(shape, dtype=dtype)
    seed = int(rng.integers(1 << 30))
    r = np.random.default_rng(seed)

    def fill(shape):
        return r.uniform(0.3, 1.3, size=shape).astype(dtype)

    return fill


# ----------------------------------------------------------------------------------------------
# one-norm flavours: value
# ----------------------------------------------------------------------------------------------

def lazy_groups(rng, parents, n_total):
    """site groups for the lazy flavours: a tensor joins the group of its parent with probability 0.4 (groups are
    connected subtrees, so the graph of groups is again a forest)"""
    g = []
    for t in range(n_total):
        p = parents[t]
        if p is not None and rng.random() < 0.4:
            g.append(g[p])
        else:
            g.append(t)
    return g


def supplied_messages_1norm(qtn, tn, flavour, rng, dtype):
    """explicit `messages=` dictionaries with random positive entries"""
    ms = {}
    if flavour == "D1BP":
        for ix, tids in tn.ind_map.items():
            if len(tids) == 2:
                for tid in tids:
                    ms[ix, tid] = rng.uniform(0.3, 1.3, size=tn.ind_size(ix)).astype(dtype)
    else:
        for ix, tids in tn.ind_map.items():
            for tid in tids:
                ms[ix, tid] = rng.uniform(0.3, 1.3, size=tn.ind_size(ix)).astype(dtype)
                ms[tid, ix] = rng.uniform(0.3, 1.3, size=tn.ind_size(ix)).astype(dtype)
    return ms


def run_one_norm(qbp, flavour, tn, o, n, init_arg, site_tags=None, tol=TOL_RUN, extra=None):
    """run one one-norm flavour through its function or class interface; returns (value, info, bp or None)"""
    kw = run_kwargs(o)
    if extra:
        kw.update(extra)
    info = {}
    its = max_its(o, n)
    fn = {"D1BP": qbp.contract_d1bp, "HD1BP": qbp.contract_hd1bp, "HV1BP": qbp.contract_hv1bp,
          "L1BP": qbp.contract_l1bp}[flavour]
    cls = {"D1BP": qbp.D1BP, "HD1BP": qbp.HD1BP, "HV1BP": qbp.HV1BP, "L1BP": qbp.L1BP}[flavour]
    if flavour == "L1BP":
        kw["site_tags"] = site_tags
        if init_arg is not None:
            kw["message_init_function"] = init_arg
    elif init_arg is not None:
        kw["messages"] = init_arg
    runkw = {} if tol is None else dict(tol=tol)
    if o["interface"] == "function":
        r = fn(tn, max_iterations=its, strip_exponent=o["strip_exponent"], info=info, progbar=False, **runkw, **kw)
        return as_value(r), info, None
    bp = cls(tn, **kw)
    bp.run(max_iterations=its, info=info, progbar=False, **runkw)
    info["converged_attr"] = bool(bp.converged)
    r = bp.contract(strip_exponent=o["strip_exponent"])
    return as_value(r), info, bp


def check_converged(info, its):
    if not info.get("converged", False):
        return (f"run() reports no convergence after {info.get('iterations')} of {its} iterations on an acyclic network "
                f"(max message change {info.get('max_mdiff')})")
    if "converged_attr" in info and not info["converged_attr"]:
        return "info['converged'] is True but bp.converged is False"
    return None


ONE_NORM = ["D1BP", "HD1BP", "HV1BP", "L1BP"]


def one_norm_case(rng, flavour, kind, n, data, single=False, n_scalars=0, exponent=0.0):
    """geometry + data for a one-norm flavour (D1BP / L1BP: closed networks of bonds; hyper flavours: dangling and
    hyper labels, HV1BP with one uniform dimension)"""
    hyperfl = flavour in ("HD1BP", "HV1BP")
    uniform = int(rng.integers(1, 4)) if flavour == "HV1BP" else None
    dangling = float(rng.choice([0.0, 0.3, 0.6])) if hyperfl else 0.0
    inds, sizes, ncomp, parents = gen_geometry(rng, n, kind, dangling=dangling, uniform=uniform, n_scalars=n_scalars)
    dtype = dtype_for(data, single)
    arrays = [gen_data(rng, [sizes[ix] for ix in ii], data, dtype) for ii in inds]
    return inds, sizes, arrays, parents, dtype


def make_one_norm_case(seed, flavour, kind, n, data):
    """everything of one case of the one-norm value driver, regenerated from its seed"""
    rng = np.random.default_rng(seed)
    single = bool(rng.random() < 0.15)
    exponent = float(rng.choice([0.0, 0.0, 1.3, -1.3]))
    n_scalars = int(rng.integers(1, 3)) if (kind in ("forest", "hyperforest") and rng.random() < 0.5) else 0
    for _ in range(20):  # deterministic rejection of near-cancelling signed data
        inds, sizes, arrays, parents, dtype = one_norm_case(rng, flavour, kind, n, data, single, n_scalars)
        ref = Ref(inds, sizes, arrays, exponent)
        if well_conditioned(ref, data):
            break
    else:
        return None
    o = draw_opts(rng, flavour)
    init = str(rng.choice(["default", "uniform", "random", "supplied"]))
    if flavour == "L1BP" and init == "supplied":
        init = "random"
    groups = lazy_groups(rng, parents, len(inds)) if flavour == "L1BP" else None
    mrng = np.random.default_rng(int(rng.integers(1 << 30)))
    fill = make_init(rng, init, dtype) if init in ("uniform", "random") else None
    params = dict(flavour=flavour, kind=kind, n=n, data=data, dtype=dtype, exponent=exponent,
                  n_scalars=sum(1 for ii in inds if not ii), n_labels=len(sizes),
                  size1_labels=sum(1 for v in sizes.values() if v == 1), init=init, seed=seed, **o)
    if groups is not None:
        params["n_groups"] = len(set(groups))
    return inds, sizes, arrays, ref, o, init, fill, groups, mrng, dtype, single, exponent, params


@driver("C14", "one-norm-value-on-trees", chunks=6, timeout=200,
        bound="D1BP / HD1BP / HV1BP / L1BP (contract_* functions and class .run()/.contract()) on random acyclic "
              "networks: chains, stars, random trees, forests (incl. isolated scalar tensors), hyper-trees (a label on 3+ "
              "tensors; hyper flavours only), 1..9 tensors, label dimensions 1..3 (HV1BP: one uniform dimension), "
              "dangling labels for the hyper flavours, lazy groups of 1..n tensors for L1BP; positive / signed / complex "
              "data (signed and complex only when |Z| >= 1e-3 sum|terms|), float64/complex128 (tol=1e-11, value rtol "
              "1e-6) and float32/complex64 (default tol, rtol 3e-3); stored exponent 0 / +-1.3; damping {0,0.3,0.7}, "
              "update sequential/parallel, local_convergence, normalize {default,L1,L2,Linf,L2phased}, strip_exponent, "
              "message init default / uniform / random positive / supplied dictionary; max_iterations >> diameter")
def one_norm_value(cx):
    import quimb.tensor as qtn
    import quimb.tensor.belief_propagation as qbp

    reps = 1 if cx.quick else 5
    sizes_n = [1, 2, 3, 4, 6, 9] if cx.quick else list(range(1, 10))
    for flavour in ONE_NORM:
        kinds = KINDS_SIMPLE + (KINDS_HYPER if flavour in ("HD1BP", "HV1BP") else [])
        for kind, n, data, rep in itertools.product(kinds, sizes_n, ["pos", "signed", "complex"], range(reps)):
            if not cx.mine():
                continue
            if cx.out_of_time():
                cx.inconclusive.append("one-norm-value-on-trees: time budget exhausted")
                return
            seed = int(cx.rng.integers(1 << 31))
            c = make_one_norm_case(seed, flavour, kind, n, data)
            if c is None:
                continue
            inds, sizes, arrays, ref, o, init, fill, groups, mrng, dtype, single, exponent, params = c

            def thunk(inds=inds, sizes=sizes, arrays=arrays, ref=ref, o=o, init=init, fill=fill, groups=groups,
                      flavour=flavour, single=single, exponent=exponent, mrng=mrng, dtype=dtype, n=n):
                tn = build_tn(qtn, inds, sizes, arrays, exponent, groups=groups)
                before = [t.data.copy() for t in tn]
                site_tags = None
                if flavour == "L1BP":
                    site_tags = sorted({f"G{g}" for g in groups})
                if init == "supplied":
                    init_arg = supplied_messages_1norm(qtn, tn, flavour, mrng, dtype)
                else:
                    init_arg = fill
                got, info, bp = run_one_norm(qbp, flavour, tn, o, len(inds), init_arg, site_tags,
                                             tol=None if single else TOL_RUN)
                e = check_converged(info, max_its(o, len(inds)))
                if e:
                    return e
                e = cmp_value(got, ref.value, ref.zabs, RTOL_SINGLE if single else RTOL, f"{flavour} value")
                if e:
                    return e
                if tn.exponent != exponent or any(not np.array_equal(a, t.data) for a, t in zip(before, tn)):
                    return "the input network was modified (inplace=False)"
                return None

            cx.check("contract_*1bp / *1BP.run().contract(): converges and equals the sum over all labels of the product "
                     "of the tensors (x 10**exponent) on an acyclic network", params, thunk,
                     nontrivial=n > 1)


# ----------------------------------------------------------------------------------------------
# one-norm (hyper) flavours: marginals read from the messages, sampling by decimation
# ----------------------------------------------------------------------------------------------

def make_marginal_case(seed, flavour, kind, n, data):
    rng = np.random.default_rng(seed)
    exponent = float(rng.choice([0.0, 1.3]))
    for _ in range(20):
        inds, sizes, arrays, parents, dtype = one_norm_case(rng, flavour, kind, n, data, False, 0)
        ref = Ref(inds, sizes, arrays, exponent)
        if well_conditioned(ref, data) and sizes:
            break
    else:
        return None
    o = draw_opts(rng, flavour)
    o.pop("strip_exponent")
    o["interface"] = str(rng.choice(["class", "run_function"]))
    params = dict(flavour=flavour, kind=kind, n=n, data=data, exponent=exponent, seed=seed,
                  n_scalars=sum(1 for ii in inds if not ii), **o)
    return inds, sizes, arrays, ref, o, exponent, params


def hyper_messages(qbp, flavour, tn, o, n):
    """converged messages in the (tid, ix) / (ix, tid) dictionary form + the convergence flag"""
    from quimb.tensor.belief_propagation import hd1bp as m_hd, hv1bp as m_hv

    kw = dict(damping=o["damping"])
    its = max_its(o, n)
    if o["interface"] == "run_function":
        if flavour == "HD1BP":
            ms, conv = m_hd.run_belief_propagation_hd1bp(tn, max_iterations=its, tol=TOL_RUN, progbar=False, **kw)
        else:
            if o["normalize"] != "default":
                kw["normalize"] = o["normalize"]
            ms, conv = m_hv.run_belief_propagation_hv1bp(tn, max_iterations=its, tol=TOL_RUN, progbar=False, **kw)
        return ms, conv
    kw = run_kwargs(o)
    if flavour == "HD1BP":
        bp = qbp.HD1BP(tn, **kw)
    else:
        bp = qbp.HV1BP(tn, **kw)
    bp.run(max_iterations=its, tol=TOL_RUN, progbar=False)
    ms = bp.messages if flavour == "HD1BP" else bp.get_messages_dense()
    return ms, bp.converged


@driver("C14", "one-norm-marginals-and-sampling", chunks=4, timeout=200,
        bound="HD1BP / HV1BP messages (class .run() and run_belief_propagation_*) on acyclic networks as in "
              "one-norm-value-on-trees (1..8 tensors, hyper and dangling labels, no rank-0 tensors): "
              "compute_index_marginal / compute_all_index_marginals_from_messages / compute_tensor_marginal == the joint "
              "summed over the other labels / total (positive, signed and complex data with |Z| >= 1e-3 sum|terms|, rtol "
              "1e-6 of the largest entry); sample_hd1bp / sample_hv1bp (positive data, tol=1e-11, bias False/True, all "
              "labels or a subset): configuration in range, tn_config sums to the weight of the configuration, omega == "
              "its exact probability")
def one_norm_marginals(cx):
    import quimb.tensor as qtn
    import quimb.tensor.belief_propagation as qbp
    from quimb.tensor.belief_propagation import bp_common

    reps = 1 if cx.quick else 6
    sizes_n = [1, 2, 3, 5, 8] if cx.quick else list(range(1, 9))
    kinds = KINDS_SIMPLE + KINDS_HYPER
    for flavour, kind, n, data, rep in itertools.product(["HD1BP", "HV1BP"], kinds, sizes_n,
                                                         ["pos", "signed", "complex"], range(reps)):
        if not cx.mine():
            continue
        if cx.out_of_time():
            cx.inconclusive.append("one-norm-marginals-and-sampling: time budget exhausted")
            return
        seed = int(cx.rng.integers(1 << 31))
        c = make_marginal_case(seed, flavour, kind, n, data)
        if c is None or c[6]["n_scalars"]:
            continue
        inds, sizes, arrays, ref, o, exponent, params = c

        def thunk(inds=inds, sizes=sizes, arrays=arrays, ref=ref, o=o, exponent=exponent, flavour=flavour):
            tn = build_tn(qtn, inds, sizes, arrays, exponent)
            ms, conv = hyper_messages(qbp, flavour, tn, o, len(inds))
            if not conv:
                return "no convergence reported on an acyclic network with max_iterations >> diameter"
            allm = bp_common.compute_all_index_marginals_from_messages(tn, ms)
            if set(allm) != set(sizes):
                return f"marginal dictionary has labels {sorted(allm)} != {sorted(sizes)}"
            for ix in sizes:
                r = ref.marginal([ix])
                e = cmp_array(allm[ix], r, RTOL, f"index marginal of {ix} (all-marginals dictionary)")
                e = e or cmp_array(bp_common.compute_index_marginal(tn, ix, ms), r, RTOL, f"compute_index_marginal({ix})")
                if e:
                    return e
            return None

        cx.check("index marginals read from converged hyper BP messages == brute-force marginals of the joint",
                 params, thunk, nontrivial=n > 1)

        cnt = {}
        for ii in inds:
            for ix in ii:
                cnt[ix] = cnt.get(ix, 0) + 1
        for with_outer in (False, True):
            sel = [q for q, ii in enumerate(inds) if ii and any(cnt[ix] == 1 for ix in ii) == with_outer]
            if not sel:
                continue

            def tthunk(inds=inds, sizes=sizes, arrays=arrays, ref=ref, o=o, exponent=exponent, flavour=flavour, sel=sel):
                tn = build_tn(qtn, inds, sizes, arrays, exponent)
                ms, conv = hyper_messages(qbp, flavour, tn, o, len(inds))
                if not conv:
                    return "no convergence reported on an acyclic network with max_iterations >> diameter"
                for q in sel:
                    (tid,) = tn._get_tids_from_tags(f"I{q}")
                    t = tn.tensor_map[tid]
                    r = ref.marginal(list(t.inds))
                    e = cmp_array(bp_common.compute_tensor_marginal(tn, tid, ms), r, RTOL,
                                  f"compute_tensor_marginal of tensor {q} {t.inds}")
                    if e:
                        return e
                return None

            cx.check("compute_tensor_marginal from converged hyper BP messages == brute-force marginal of the joint over "
                     "the labels of the tensor", dict(params, tensors_with_outer_label=with_outer), tthunk,
                     nontrivial=n > 1)

        if data != "pos":
            continue
        srng = np.random.default_rng(seed + 1)
        bias = bool(srng.integers(0, 2))
        subset = bool(srng.integers(0, 2))
        labels = list(sizes)
        out = [labels[int(q)] for q in srng.permutation(len(labels))[:max(1, len(labels) // 2)]] if subset else None
        sseed = int(srng.integers(1 << 30))
        sparams = dict(flavour=flavour, kind=kind, n=n, exponent=exponent, seed=seed, damping=o["damping"], bias=bias,
                       subset=subset)

        def sthunk(inds=inds, sizes=sizes, arrays=arrays, ref=ref, o=o, exponent=exponent, flavour=flavour, bias=bias,
                   out=out, sseed=sseed):
            tn = build_tn(qtn, inds, sizes, arrays, exponent)
            fn = qbp.sample_hd1bp if flavour == "HD1BP" else qbp.sample_hv1bp
            config, tnc, omega = fn(tn, output_inds=out, max_iterations=max_its(o, len(inds)), tol=TOL_RUN,
                                    damping=o["damping"], bias=bias, seed=sseed, progbar=False)
            want = set(sizes) if out is None else set(out)
            if set(config) != want:
                return f"sampled labels {sorted(config)} != requested {sorted(want)}"
            sel = []
            for ix in ref.labels:
                if ix in config:
                    v = int(config[ix])
                    if not 0 <= v < sizes[ix]:
                        return f"value {v} of label {ix} outside [0,{sizes[ix]})"
                    sel.append(v)
                else:
                    sel.append(slice(None))
            w = ref.joint[tuple(sel)].sum()
            got_w = as_value(tnc.contract(output_inds=())) if tnc.num_tensors else None
            e = cmp_value(got_w, w * 10.0 ** exponent, abs(w) * 10.0 ** exponent, RTOL, "sum of tn_config")
            if e:
                return e
            p = float(np.real(w / ref.total))
            if abs(float(omega) - p) > RTOL * p:
                return f"omega = {float(omega):.10g} but the exact probability of the sampled configuration is {p:.10g}"
            return None

        cx.check("sample_h*1bp: configuration in range, tn_config carries its weight, omega == exact probability",
                 sparams, sthunk, nontrivial=n > 1)
