"""C06 bounded stand-in: applying a gate equals multiplying by the operator, in every application mode.

Reference semantics (shares no code with quimb): the dense form of a network is computed by pairwise numpy.einsum
over the raw arrays of its tensors (times 10**exponent); the embedded operator is applied to the dense tensor with
numpy.tensordot on the axes of the target sites, in the given site order.
"""

import itertools
import warnings

import numpy as np

from vf.rtc import driver

# ----------------------------------------------------------------------------------------------
# independent dense semantics
# ----------------------------------------------------------------------------------------------


def _pair(a, la, b, lb, keep):
    """contract two labelled arrays, summing the labels that are not in ``keep``"""
    labels = list(dict.fromkeys(list(la) + list(lb)))
    num = {x: i for i, x in enumerate(labels)}
    out = [x for x in labels if x in keep]
    r = np.einsum(a, [num[x] for x in la], b, [num[x] for x in lb], [num[x] for x in out])
    return r, out


def dense_of(tn, out_inds):
    """dense array of a tensor network with one axis per label of ``out_inds`` (numpy only)"""
    ops = [(np.asarray(t.data), list(t.inds)) for t in tn.tensors]
    out_inds = list(out_inds)
    for a, la in ops:
        if len(set(la)) != len(la):
            raise ValueError(f"repeated label on one tensor: {la}")
    while len(ops) > 1:
        best = None
        for i in range(len(ops)):
            si = set(ops[i][1])
            for j in range(i + 1, len(ops)):
                sh = si & set(ops[j][1])
                if not sh:
                    continue
                size = 1
                dims = dict(zip(ops[i][1], ops[i][0].shape))
                dims.update(zip(ops[j][1], ops[j][0].shape))
                others = set(out_inds)
                for k, (_, lk) in enumerate(ops):
                    if k not in (i, j):
                        others.update(lk)
                for x in (si | set(ops[j][1])):
                    if x in others:
                        size *= dims[x]
                if best is None or size < best[0]:
                    best = (size, i, j)
        if best is None:
            i, j = 0, 1
        else:
            _, i, j = best
        others = set(out_inds)
        for k, (_, lk) in enumerate(ops):
            if k not in (i, j):
                others.update(lk)
        r, lr = _pair(ops[i][0], ops[i][1], ops[j][0], ops[j][1], others)
        ops = [o for k, o in enumerate(ops) if k not in (i, j)] + [(r, lr)]
    a, la = ops[0]
    extra = [x for x in la if x not in out_inds]
    if extra:
        a, la = _pair(a, la, np.ones(()), [], set(out_inds))
    if set(la) != set(out_inds):
        raise ValueError(f"outer labels {sorted(la)} != requested {sorted(out_inds)}")
    a = np.transpose(a, [la.index(x) for x in out_inds]) if la else a
    ex = getattr(tn, "exponent", 0.0)
    return a * (10.0 ** ex if ex else 1.0)


def apply_op(Gt, axes, T):
    """apply the operator tensor Gt (out dims..., in dims...) to the axes ``axes`` (in that order) of T"""
    k = len(axes)
    out = np.tensordot(Gt, T, axes=(list(range(k, 2 * k)), list(axes)))
    rest = [a for a in range(T.ndim) if a not in axes]
    return np.transpose(out, np.argsort(list(axes) + rest))


def op_variant(Gt, k, how):
    """G, G^T or G^dagger as a tensor (out..., in...)"""
    if how == "plain":
        return Gt
    perm = list(range(k, 2 * k)) + list(range(k))
    Gt = np.transpose(Gt, perm)
    return Gt.conj() if how == "dagger" else Gt


def rel_err(got, ref):
    got, ref = np.asarray(got), np.asarray(ref)
    if got.shape != ref.shape:
        return f"shape {got.shape} != reference {ref.shape}"
    if not np.all(np.isfinite(got)):
        return "non-finite entries"
    return float(np.linalg.norm(got - ref) / max(np.linalg.norm(ref), 1e-300))


# ----------------------------------------------------------------------------------------------
# geometries
# ----------------------------------------------------------------------------------------------


def _rand(rng, shape, cplx):
    a = rng.normal(size=shape)
    if cplx:
        a = a + 1j * rng.normal(size=shape)
    return a


def build_mps(qtn, rng, dims, bonds, cyclic, cplx):
    L = len(dims)
    arrays = []
    for i in range(L):
        bl = bonds[(i - 1) % L] if (cyclic or i > 0) else None
        br = bonds[i % len(bonds)] if (cyclic or i < L - 1) else None
        shp = tuple(b for b in (bl, br) if b is not None) + (dims[i],)
        arrays.append(_rand(rng, shp, cplx))
    return qtn.MatrixProductState(arrays, shape="lrp")


def build_mpo(qtn, rng, dims, bonds, cyclic, cplx):
    L = len(dims)
    arrays = []
    for i in range(L):
        bl = bonds[(i - 1) % L] if (cyclic or i > 0) else None
        br = bonds[i % len(bonds)] if (cyclic or i < L - 1) else None
        shp = tuple(b for b in (bl, br) if b is not None) + (dims[i], dims[i])
        arrays.append(_rand(rng, shp, cplx))
    return qtn.MatrixProductOperator(arrays, shape="lrud")


def build_graph(qtn, rng, nodes, edges, dims, bond, cplx, operator=False, ind_id="k{}", tag_id="I{}", low_id="b{}", extra_tag=None):
    ts = []
    for n_i, node in enumerate(nodes):
        inds, shape = [], []
        for e_i, (a, b) in enumerate(edges):
            if node in (a, b):
                inds.append(f"e{e_i}")
                shape.append(bond[e_i % len(bond)])
        inds.append(ind_id.format(node))
        shape.append(dims[n_i])
        if operator:
            inds.append(low_id.format(node))
            shape.append(dims[n_i])
        perm = list(rng.permutation(len(inds)))
        inds = [inds[p] for p in perm]
        shape = [shape[p] for p in perm]
        tags = [tag_id.format(node)] + ([extra_tag] if extra_tag else []) + (["ODD"] if n_i % 2 else [])
        ts.append(qtn.Tensor(_rand(rng, shape, cplx), inds=inds, tags=tags))
    tn = qtn.TensorNetwork(ts)
    if operator:
        return tn.view_as(qtn.TensorNetworkGenOperator, sites=tuple(nodes), site_tag_id=tag_id, upper_ind_id=ind_id, lower_ind_id=low_id)
    return tn.view_as(qtn.TensorNetworkGenVector, sites=tuple(nodes), site_tag_id=tag_id, site_ind_id=ind_id)


GRAPHS = {
    # name: (nodes, edges)
    "path3": ((0, 1, 2), ((0, 1), (1, 2))),
    "tree5": (("a", "b", "c", "d", "e"), (("a", "b"), ("a", "c"), ("c", "d"), ("c", "e"))),
    "ring4": ((0, 1, 2, 3), ((0, 1), (1, 2), (2, 3), (3, 0))),
    "k4": ((0, 1, 2, 3), ((0, 1), (0, 2), (0, 3), (1, 2), (1, 3), (2, 3))),
    "dbl3": ((0, 1, 2), ((0, 1), (0, 1), (1, 2))),  # a double bond between 0 and 1
    "two": ((7, 3), ((7, 3),)),
    "lone": ((5,), ()),
    "grid23": (((0, 0), (0, 1), (0, 2), (1, 0), (1, 1), (1, 2)),
               (((0, 0), (0, 1)), ((0, 1), (0, 2)), ((1, 0), (1, 1)), ((1, 1), (1, 2)), ((0, 0), (1, 0)), ((0, 1), (1, 1)), ((0, 2), (1, 2)))),
    "disc4": ((0, 1, 2, 3), ((0, 1), (2, 3))),  # two disconnected components
}


def geometries(quick):
    """(name, kind, spec): kind in mps / peps / graph / mpo / gop"""
    g = [
        ("mps1", "mps", dict(dims=(2,), bonds=(1,), cyclic=False)),
        ("mps2", "mps", dict(dims=(2, 3), bonds=(2,), cyclic=False)),
        ("mps4", "mps", dict(dims=(2, 2, 2, 2), bonds=(2, 3, 2), cyclic=False)),
        ("mps5mixed", "mps", dict(dims=(2, 3, 2, 1, 3), bonds=(2, 3, 1, 2), cyclic=False)),
        ("mps6d3", "mps", dict(dims=(3, 3, 3, 3, 3, 3), bonds=(2, 2, 3, 2, 2), cyclic=False)),
        ("mps4cyc", "mps", dict(dims=(2, 3, 2, 2), bonds=(2, 2, 3, 2), cyclic=True)),
        ("mps3cyc", "mps", dict(dims=(2, 2, 3), bonds=(2, 1, 2), cyclic=True)),
        ("peps23", "peps", dict(Lx=2, Ly=3, bond=2, phys=2)),
        ("peps22d3", "peps", dict(Lx=2, Ly=2, bond=2, phys=3)),
        ("tree5", "graph", dict(graph="tree5", dims=(2, 3, 2, 2, 3), bond=(2, 3))),
        ("ring4", "graph", dict(graph="ring4", dims=(2, 2, 3, 2), bond=(2, 3, 2))),
        ("k4", "graph", dict(graph="k4", dims=(2, 2, 2, 3), bond=(2,))),
        ("dbl3", "graph", dict(graph="dbl3", dims=(2, 3, 2), bond=(2, 2, 3))),
        ("two", "graph", dict(graph="two", dims=(3, 2), bond=(3,))),
        ("lone", "graph", dict(graph="lone", dims=(3,), bond=(1,))),
        ("grid23mixed", "graph", dict(graph="grid23", dims=(2, 3, 2, 2, 1, 3), bond=(2,), ind_id="q{}", tag_id="S{}")),
        ("disc4", "graph", dict(graph="disc4", dims=(2, 3, 2, 2), bond=(2, 3))),
        ("mpo3", "mpo", dict(dims=(2, 3, 2), bonds=(2, 3), cyclic=False)),
        ("mpo4", "mpo", dict(dims=(2, 2, 2, 2), bonds=(2, 2, 2), cyclic=False)),
        ("mpo3cyc", "mpo", dict(dims=(2, 2, 3), bonds=(2, 2, 2), cyclic=True)),
        ("mpo1", "mpo", dict(dims=(3,), bonds=(1,), cyclic=False)),
        ("gop-tree", "gop", dict(graph="path3", dims=(2, 3, 2), bond=(2, 3))),
        ("gop-ring", "gop", dict(graph="ring4", dims=(2, 2, 2, 2), bond=(2,))),
    ]
    return g


def make(qtn, rng, kind, spec, cplx):
    """-> (tn, sites, dims)"""
    if kind == "mps":
        tn = build_mps(qtn, rng, spec["dims"], spec["bonds"], spec["cyclic"], cplx)
        return tn, tuple(range(len(spec["dims"]))), tuple(spec["dims"])
    if kind == "mpo":
        tn = build_mpo(qtn, rng, spec["dims"], spec["bonds"], spec["cyclic"], cplx)
        return tn, tuple(range(len(spec["dims"]))), tuple(spec["dims"])
    if kind == "peps":
        tn = qtn.PEPS.rand(spec["Lx"], spec["Ly"], bond_dim=spec["bond"], phys_dim=spec["phys"],
                           dtype="complex128" if cplx else "float64", seed=int(rng.integers(1 << 30)))
        sites = tuple(tn.sites)
        return tn, sites, (spec["phys"],) * len(sites)
    nodes, edges = GRAPHS[spec["graph"]]
    tn = build_graph(qtn, rng, nodes, edges, spec["dims"], spec["bond"], cplx, operator=(kind == "gop"),
                     ind_id=spec.get("ind_id", "k{}"), tag_id=spec.get("tag_id", "I{}"))
    return tn, tuple(nodes), tuple(spec["dims"])


def neighbours(tn, sites, a, b):
    """the two sites sit on different tensors joined by exactly one bond"""
    (ta,) = tn.select_tensors(tn.site_tag(a), "all") if len(tn.select_tensors(tn.site_tag(a), "all")) == 1 else (None,)
    (tb,) = tn.select_tensors(tn.site_tag(b), "all") if len(tn.select_tensors(tn.site_tag(b), "all")) == 1 else (None,)
    if ta is None or tb is None or ta is tb:
        return False
    return len(set(ta.inds) & set(tb.inds)) == 1


def site_dense(tn, kind, sites):
    if kind in ("mpo", "gop"):
        out = [tn.upper_ind(s) for s in sites] + [tn.lower_ind(s) for s in sites]
    else:
        out = [tn.site_ind(s) for s in sites]
    return dense_of(tn, out)


def rand_gate(rng, gdims, cplx, form):
    """non-unitary gate as matrix or tensor; 'product' (A (x) B, rank 1 across the two sites) and 'swapprod'
    (SWAP . (A (x) B), rank 1 across the swapped partition) exercise the branches of 'auto-split-gate'"""
    D = int(np.prod(gdims, dtype=int))
    if form in ("product", "swapprod") and len(gdims) == 2:
        d1, d2 = gdims
        if form == "swapprod" and d1 == d2:
            A, B = _rand(rng, (d1, d2), cplx), _rand(rng, (d2, d1), cplx)
            Gt = np.einsum("ad,bc->abcd", A, B)  # G[o1,o2,i1,i2] = A[o1,i2] B[o2,i1]
        else:
            A, B = _rand(rng, (d1, d1), cplx), _rand(rng, (d2, d2), cplx)
            Gt = np.einsum("ac,bd->abcd", A, B)
        Gt = np.ascontiguousarray(Gt)
        return (Gt.reshape(D, D) if form == "product" else Gt.copy()), Gt
    G = _rand(rng, (D, D), cplx) + 0.5 * np.eye(D)
    Gt = G.reshape(tuple(gdims) + tuple(gdims))
    return (G if form == "matrix" else Gt.copy()), Gt


# ----------------------------------------------------------------------------------------------
# common post-conditions
# ----------------------------------------------------------------------------------------------


def structure_problems(before, after, kind, sites, keep_structure):
    """outer labels, site labels / tags and the class of the network are preserved"""
    pr = []
    if set(after.outer_inds()) != set(before.outer_inds()):
        pr.append(f"outer labels {sorted(after.outer_inds())} != {sorted(before.outer_inds())}")
    if type(after) is not type(before):
        pr.append(f"class {type(after).__name__} != {type(before).__name__}")
    for attr in ("site_tag_id", "site_ind_id", "upper_ind_id", "lower_ind_id"):
        if hasattr(before, attr) and getattr(after, attr, None) != getattr(before, attr):
            pr.append(f"{attr} {getattr(after, attr, None)!r} != {getattr(before, attr)!r}")
    if tuple(after.sites) != tuple(before.sites):
        pr.append(f"sites {after.sites} != {before.sites}")
    for s in sites:
        tag = before.site_tag(s)
        if tag not in after.tag_map:
            pr.append(f"site tag {tag} lost")
            continue
        phys = [before.upper_ind(s), before.lower_ind(s)] if kind in ("mpo", "gop") else [before.site_ind(s)]
        ts = after.select_tensors(tag, "all")
        if keep_structure:
            if len(ts) != 1:
                pr.append(f"{len(ts)} tensors carry the site tag {tag} after a structure-preserving mode")
            elif not all(ix in ts[0].inds for ix in phys):
                pr.append(f"the tensor tagged {tag} does not carry the physical label(s) {phys}")
    if keep_structure and after.num_tensors != before.num_tensors:
        pr.append(f"{after.num_tensors} tensors after, {before.num_tensors} before (structure-preserving mode)")
    return pr


def unchanged(tn, snapshot):
    data, inds, tags, ex = snapshot
    ts = tn.tensors
    if len(ts) != len(data):
        return False
    for t, d, i, g in zip(ts, data, inds, tags):
        if t.inds != i or set(t.tags) != g or not np.array_equal(np.asarray(t.data), d):
            return False
    return getattr(tn, "exponent", 0.0) == ex


def snapshot(tn):
    return ([np.array(t.data) for t in tn.tensors], [t.inds for t in tn.tensors], [set(t.tags) for t in tn.tensors],
            getattr(tn, "exponent", 0.0))


TOL = 1e-9

GEN_MODES = (False, True, "split", "reduce-split", "split-gate", "swap-split-gate", "auto-split-gate")
MPS_MODES = ("swap+split", "nonlocal", "auto-mps")
LAZY = (False, "split-gate", "swap-split-gate", "auto-split-gate")


def _selector(cx, salt):
    return np.random.default_rng([cx.seed, salt])


def where_choices(tn, sites, rng_sel, quick):
    """target tuples: single sites, adjacent and distant pairs in both orders, triples in random order"""
    n = len(sites)
    out = [(sites[0],)]
    if n > 1:
        out.append((sites[-1],))
    pairs = list(itertools.permutations(range(n), 2))
    nb = [p for p in pairs if neighbours(tn, sites, sites[p[0]], sites[p[1]])]
    far = [p for p in pairs if p not in nb]
    for pool in (nb, far):
        if pool:
            a, b = pool[int(rng_sel.integers(len(pool)))]
            out.append((sites[a], sites[b]))
            out.append((sites[b], sites[a]))
    if n >= 3:
        for _ in range(1 if quick else 2):
            tri = list(rng_sel.permutation(n)[:3])
            out.append(tuple(sites[i] for i in tri))
    return out


def must_accept(kind, cyclic, mode, where, tn, sites, how, entry):
    ng = len(where)
    if mode in MPS_MODES:
        if kind != "mps" or entry != "gate":
            return False
        if ng == 1:
            return how == "plain"
        if cyclic:
            return False
        if mode == "swap+split":
            return ng == 2 and how == "plain"
        if mode == "nonlocal":
            return how in ("plain", "transpose")
        return how == "plain" and (ng == 2 or ng >= 3)  # auto-mps
    if ng == 1:
        return True
    if ng == 2:
        if mode in ("split", "reduce-split"):
            return neighbours(tn, sites, where[0], where[1])
        return True
    return mode in (False, True)


def expected_gate_tags(before, where, user, prop, inds):
    targets = []
    for ix in inds:
        (t,) = [t for t in before.tensors if ix in t.inds]
        targets.append(t)
    all_old = set().union(*(set(t.tags) for t in targets))
    site_old = {g for g in all_old if g in set(before.site_tags)}
    user = set(user)
    if prop is False:
        return user
    if prop is True:
        return user | all_old
    if prop == "sites":
        return user | site_old
    return user | {before.site_tag(s) for s in where}


@driver("C06", "vector-gate-modes", chunks=6, timeout=400,
        bound="state-like networks: MPS open (1,2,4,5,6 sites; dims 2, 3, mixed incl. 1) and periodic (3,4 sites), PEPS 2x3 and "
              "2x2 (d=3), graphs (tree, ring, K4, double bond, 2 nodes, 1 node, 2x3 grid with mixed dims and custom label / tag "
              "patterns, disconnected) up to 6 sites; non-unitary real / complex gates on 1, 2 (adjacent / distant, both orders) "
              "and 3 sites given as matrix or tensor; every contract mode (False, True, split, reduce-split, split-gate, "
              "swap-split-gate, auto-split-gate; for MPS also swap+split, nonlocal, auto-mps) through .gate and .gate_inds; "
              "plain / transpose / dagger; propagate_tags in {default, False, True, 'sites', 'register'}; inplace and copy; "
              "cutoff=0; real / complex double precision, complex64 on five of the geometries; tolerance 1e-9 relative (1e-7 "
              "for the MPO-based 'nonlocal' route, 5e-4 in single precision)")
def vector_modes(cx):
    warnings.simplefilter("ignore")
    import quimb.tensor as qtn

    rng = cx.rng
    sel = _selector(cx, 601)
    nvar = 5 if cx.quick else 40
    for name, kind, spec in geometries(cx.quick):
        if kind not in ("mps", "peps", "graph"):
            continue
        # "mixed": a REAL network hit by a COMPLEX operator (the result is complex: no mode may drop the imaginary part)
        for cplx in (False, True, "single", "mixed"):
            if cplx in ("single", "mixed") and name not in ("mps4", "mps5mixed", "peps23", "ring4", "mps3cyc"):
                continue
            # the network and the targets are the same in every chunk: use the selector for them
            gsel = np.random.default_rng([cx.seed, 77, {False: 0, True: 1, "single": 2, "mixed": 3}[cplx], sum(map(ord, name))])
            tn, sites, dims = make(qtn, gsel, kind, spec, cplx is True or cplx == "single")
            single = cplx == "single"
            if single:
                tn.astype_("complex64")
            cyclic = bool(spec.get("cyclic", False))
            base = site_dense(tn, kind, sites)
            snap = snapshot(tn)
            modes = GEN_MODES + (MPS_MODES if kind == "mps" else ())
            for where in where_choices(tn, sites, gsel, cx.quick):
                ng = len(where)
                axes = [sites.index(s) for s in where]
                gdims = [dims[a] for a in axes]
                for mode in modes:
                    for v in range(nvar):
                        d = [int(x) for x in sel.integers(0, 1 << 30, size=8)]
                        if not cx.mine():
                            continue
                        if cx.out_of_time():
                            cx.inconclusive.append("vector-gate-modes: time budget exhausted")
                            return
                        form = ("matrix", "tensor", "product", "swapprod")[d[0] % 4] if ng == 2 else ("matrix", "tensor")[d[0] % 2]
                        how = ("plain", "plain", "dagger", "transpose")[d[1] % 4]
                        prop = ("default", False, True, "sites", "register")[d[2] % 5]
                        inplace = bool(d[3] % 2)
                        user_tags = (None, "GATE", ("GATE", "H"))[d[4] % 3]
                        entry = ("gate", "gate", "gate_inds")[d[5] % 3]
                        if mode in MPS_MODES:
                            entry = "gate"
                        G, Gt = rand_gate(rng, gdims, bool(cplx), form)
                        if single:
                            G, Gt = G.astype("complex64"), Gt.astype("complex64")
                        params = dict(geom=name, cplx=cplx, where=[str(s) for s in where], mode=mode, form=form, how=how,
                                      propagate_tags=prop, inplace=inplace, tags=user_tags is not None, entry=entry, v=v)
                        must = must_accept(kind, cyclic, mode, where, tn, sites, how, entry)
                        inds = [tn.site_ind(s) for s in where]

                        def thunk(tn=tn, G=G, Gt=Gt, where=where, mode=mode, how=how, prop=prop, inplace=inplace,
                                  user_tags=user_tags, entry=entry, axes=axes, ng=ng, inds=inds, kind=kind, sites=sites,
                                  base=base, snap=snap, single=single):
                            target = tn.copy() if inplace else tn
                            kw = dict(contract=mode)
                            if how == "dagger":
                                kw["dagger"] = True
                            elif how == "transpose":
                                kw["transpose"] = True
                            if user_tags is not None:
                                kw["tags"] = user_tags
                            if mode not in (False, True):
                                kw["cutoff"] = 0.0
                            if entry == "gate":
                                if prop != "default":
                                    kw["propagate_tags"] = prop
                                w = where[0] if (ng == 1 and len(str(where[0])) % 2) else where
                                after = target.gate_(G, w, **kw) if inplace else target.gate(G, w, **kw)
                            else:
                                after = target.gate_inds_(G, inds, **kw) if inplace else target.gate_inds(G, inds, **kw)
                            if inplace and after is not target:
                                return "the in-place spelling returned a different object"
                            if not inplace and (after is tn or not unchanged(tn, snap)):
                                return "the input network was modified by the non-in-place spelling"
                            ref = apply_op(op_variant(Gt, ng, how), axes, base)
                            got = site_dense(after, kind, sites)
                            e = rel_err(got, ref)
                            tol = 1e-7 if mode in ("nonlocal", "auto-mps") else TOL
                            if single:
                                tol = 5e-4
                            if isinstance(e, str) or e > tol:
                                return f"dense(after) != (embedded operator) @ dense(before): {e if isinstance(e, str) else f'relative error {e:.3e}'}"
                            keep = (ng == 1 and mode is not False and mode not in LAZY) or \
                                   (ng >= 2 and mode in ("split", "reduce-split", "swap+split", "nonlocal", "auto-mps"))
                            pr = structure_problems(tn, after, kind, sites, keep)
                            # tag propagation of lazily attached gate tensors
                            if entry == "gate" and user_tags is not None and mode in LAZY and not (ng == 1 and mode is not False):
                                p_eff = prop
                                if prop == "default":
                                    p_eff = "sites" if kind in ("mps", "peps") else False
                                gts = after.select_tensors("GATE", "all")
                                user = {user_tags} if isinstance(user_tags, str) else set(user_tags)
                                if len(gts) == 1 or p_eff != "register":
                                    exp = expected_gate_tags(tn, where, user, p_eff, inds)
                                    for gt in gts:
                                        if set(gt.tags) != exp:
                                            pr.append(f"gate tensor tags {sorted(gt.tags)}, expected {sorted(exp)} (propagate_tags={p_eff!r})")
                                            break
                                else:
                                    for gt in gts:
                                        mine = [s for s, ix in zip(where, inds) if ix in gt.inds]
                                        exp = user | {tn.site_tag(s) for s in mine}
                                        if set(gt.tags) != exp:
                                            pr.append(f"split gate tensor over {mine}: tags {sorted(gt.tags)}, expected {sorted(exp)} (register)")
                                            break
                                if not gts:
                                    pr.append("no tensor carries the requested gate tag")
                            return "; ".join(pr) or None

                        cx.check("gate / gate_inds on a state-like network: dense(after) == embedded operator @ dense(before); outer "
                                 "labels, site tags and naming preserved; tags propagated as documented", params, thunk,
                                 allow_reject=not must, crash_is_violation=must)


# ----------------------------------------------------------------------------------------------
# driver 2: MPS specific entry points
# ----------------------------------------------------------------------------------------------


def _perm_ref(base, perm):
    """dense tensor whose axis k is the old axis perm[k]"""
    return np.transpose(base, perm)


@driver("C06", "mps-entry-points", chunks=4, timeout=400,
        bound="open MPS with 2, 4, 5 (mixed dims incl. 1) and 6 (d=3) sites: gate_split (adjacent pairs, both orders, absorb "
              "options), gate_with_auto_swap (any pair, swap_back True / False), gate_nonlocal (2 and 3 sites, transpose, "
              "methods direct / dm / zipup / lazy), gate_with_submpo and gate_with_op_lazy (sub-MPO built with "
              "MatrixProductOperator.from_dense, its dense form recomputed independently), gate_with_mpo (full random MPO), "
              "swap_sites_with_compress, swap_site_to; real / complex; in-place and copy; cutoff=0; tolerance 1e-7")
def mps_entry(cx):
    warnings.simplefilter("ignore")
    import quimb.tensor as qtn

    rng = cx.rng
    nrep = 2 if cx.quick else 16
    for name, kind, spec in geometries(cx.quick):
        if kind != "mps" or spec["cyclic"] or len(spec["dims"]) < 2:
            continue
        for cplx in (False, True):
            gsel = np.random.default_rng([cx.seed, 78, int(cplx), sum(map(ord, name))])
            tn, sites, dims = make(qtn, gsel, kind, spec, cplx)
            L = len(sites)
            base = site_dense(tn, kind, sites)
            snap = snapshot(tn)
            pairs = list(itertools.permutations(range(L), 2))
            triples = [tuple(gsel.permutation(L)[:3]) for _ in range(2)] if L >= 3 else []
            cases = []
            for (i, j) in pairs:
                if abs(i - j) == 1:
                    for absorb in (None, "left", "right", "both"):
                        cases.append(("gate_split", (i, j), dict(absorb=absorb)))
                for swap_back in (True, False):
                    cases.append(("gate_with_auto_swap", (i, j), dict(swap_back=swap_back)))
                for method, transpose in (("direct", False), ("direct", True), ("dm", False), ("zipup", False), ("lazy", True), ("lazy", False)):
                    cases.append(("gate_nonlocal", (i, j), dict(method=method, transpose=transpose)))
                cases.append(("gate_with_submpo", (i, j), dict(method="direct", transpose=bool((i + j) % 2))))
                cases.append(("gate_with_op_lazy", (i, j), dict(transpose=bool((i + j) % 2))))
                cases.append(("swap_sites_with_compress", (i, j), {}))
                cases.append(("swap_site_to", (i, j), {}))
            for tri in triples:
                tri = tuple(int(t) for t in tri)
                for method, transpose in (("direct", False), ("direct", True), ("lazy", False)):
                    cases.append(("gate_nonlocal", tri, dict(method=method, transpose=transpose)))
                cases.append(("gate_with_submpo", tri, dict(method="direct", transpose=False)))
            cases.append(("gate_with_mpo", tuple(range(L)), dict(method="direct", transpose=False)))
            cases.append(("gate_with_mpo", tuple(range(L)), dict(method="zipup", transpose=True)))
            for entry, where, opts in cases:
                for rep in range(nrep):
                    if not cx.mine():
                        continue
                    if cx.out_of_time():
                        cx.inconclusive.append("mps-entry-points: time budget exhausted")
                        return
                    inplace = bool((rep + len(entry) + sum(where)) % 2)
                    form = ("matrix", "tensor")[(rep + where[0]) % 2]
                    gdims = [dims[a] for a in where]
                    G, Gt = rand_gate(rng, gdims, cplx, form)
                    mpo_seed = int(rng.integers(1 << 30))
                    params = dict(geom=name, cplx=cplx, entry=entry, where=list(where), inplace=inplace, form=form, rep=rep,
                                  **{k: v for k, v in opts.items()})

                    def thunk(tn=tn, entry=entry, where=where, opts=opts, inplace=inplace, G=G, Gt=Gt, gdims=gdims, base=base,
                              snap=snap, sites=sites, dims=dims, L=L, cplx=cplx, mpo_seed=mpo_seed):
                        target = tn.copy() if inplace else tn
                        ng = len(where)
                        suffix = "_" if inplace else ""
                        perm = None
                        if entry == "gate_split":
                            kw = dict(cutoff=0.0)
                            if opts["absorb"] is not None:
                                kw["absorb"] = opts["absorb"]
                            after = getattr(target, "gate_split" + suffix)(G, where, **kw)
                            ref = apply_op(Gt, list(where), base)
                        elif entry == "gate_with_auto_swap":
                            after = getattr(target, "gate_with_auto_swap" + suffix)(G, where, swap_back=opts["swap_back"], cutoff=0.0)
                            ref = apply_op(Gt, list(where), base)
                            i, j = sorted(where)
                            if not opts["swap_back"] and j != i + 1:
                                # documented: site j stays at i + 1, the sites in between shift one place up
                                perm = list(range(i + 1)) + [j] + list(range(i + 1, j)) + list(range(j + 1, L))
                        elif entry == "gate_nonlocal":
                            after = getattr(target, "gate_nonlocal" + suffix)(G, where, method=opts["method"],
                                                                              transpose=opts["transpose"], cutoff=0.0)
                            ref = apply_op(op_variant(Gt, ng, "transpose" if opts["transpose"] else "plain"), list(where), base)
                        elif entry in ("gate_with_submpo", "gate_with_op_lazy"):
                            sub = qtn.MatrixProductOperator.from_dense(G, dims=gdims, sites=where, L=L)
                            present = sorted(where)
                            A = dense_of(sub, [sub.upper_ind(s) for s in present] + [sub.lower_ind(s) for s in present])
                            if entry == "gate_with_submpo":
                                after = getattr(target, "gate_with_submpo" + suffix)(sub, method=opts["method"],
                                                                                     transpose=opts["transpose"], cutoff=0.0)
                            else:
                                after = getattr(target, "gate_with_op_lazy" + suffix)(sub, transpose=opts["transpose"])
                            ref = apply_op(op_variant(A, ng, "transpose" if opts["transpose"] else "plain"), present, base)
                        elif entry == "gate_with_mpo":
                            mrng = np.random.default_rng(mpo_seed)
                            mpo = build_mpo(qtn, mrng, dims, (2,) * max(L - 1, 1), False, cplx)
                            A = dense_of(mpo, [mpo.upper_ind(s) for s in range(L)] + [mpo.lower_ind(s) for s in range(L)])
                            after = getattr(target, "gate_with_mpo" + suffix)(mpo, method=opts["method"], transpose=opts["transpose"],
                                                                              cutoff=0.0)
                            ref = apply_op(op_variant(A, L, "transpose" if opts["transpose"] else "plain"), list(range(L)), base)
                        elif entry == "swap_sites_with_compress":
                            i, j = where
                            after = getattr(target, "swap_sites_with_compress" + suffix)(i, j, cutoff=0.0)
                            perm = list(range(L))
                            perm[i], perm[j] = perm[j], perm[i]
                            ref = base
                        else:  # swap_site_to
                            i, f = where
                            after = getattr(target, "swap_site_to" + suffix)(i, f, cutoff=0.0)
                            order = [k for k in range(L) if k != i]
                            order.insert(f, i)
                            perm = order
                            ref = base
                        if perm is not None:
                            ref = _perm_ref(ref, perm)
                        if inplace and after is not target:
                            return "the in-place spelling returned a different object"
                        if not inplace and (after is tn or not unchanged(tn, snap)):
                            return "the input network was modified by the non-in-place spelling"
                        got = site_dense(after, "mps", sites)
                        e = rel_err(got, ref)
                        # method 'dm' compresses through density matrices with the default cutoff 1e-10 on SQUARED weights: it is
                        # only promised to ~sqrt(1e-10) = 1e-5 (7.8e-6 observed on a d=3 chain); every other route here is exact
                        etol = 3e-5 if opts.get("method") == "dm" else 1e-7
                        if isinstance(e, str) or e > etol:
                            return f"dense(after) != reference: {e if isinstance(e, str) else f'relative error {e:.3e}'}"
                        lazy = opts.get("method") == "lazy" or entry == "gate_with_op_lazy"
                        pr = structure_problems(tn, after, "mps", sites, keep_structure=not lazy)
                        return "; ".join(pr) or None

                    cx.check(f"MatrixProductState.{entry}: dense(after) == embedded operator (given site order) @ dense(before) "
                             "[swaps: the stated permutation]; outer labels and site tags preserved", params, thunk)


# ----------------------------------------------------------------------------------------------
# driver 3: operator-like networks (sandwich / upper / lower)
# ----------------------------------------------------------------------------------------------


@driver("C06", "operator-gates", chunks=4, timeout=400,
        bound="operator-like networks: MPO open (1,3,4 sites, mixed dims) and periodic (3 sites), general operator networks on "
              "a path and a ring: gate (default sandwich), which in {sandwich, both, upper, lower}, gate_upper / gate_lower / "
              "gate_sandwich, gate_sandwich_inds / gate_inds on the raw labels, every generic contract mode, plain / "
              "transpose / dagger, 1- and 2-site (adjacent, distant, both orders) and 3-site gates; "
              "MatrixProductOperator.gate_sandwich_with_auto_swap (any pair, dagger, swap_back, strip_exponent, split / "
              "reduce-split); cutoff=0; tolerance 1e-9")
def operator_gates(cx):
    warnings.simplefilter("ignore")
    import quimb.tensor as qtn

    rng = cx.rng
    sel = _selector(cx, 603)
    nvar = 4 if cx.quick else 30
    for name, kind, spec in geometries(cx.quick):
        if kind not in ("mpo", "gop"):
            continue
        for cplx in (False, True):
            gsel = np.random.default_rng([cx.seed, 79, int(cplx), sum(map(ord, name))])
            tn, sites, dims = make(qtn, gsel, kind, spec, cplx)
            n = len(sites)
            cyclic = bool(spec.get("cyclic", False))
            base = site_dense(tn, kind, sites)
            snap = snapshot(tn)
            for where in where_choices_op(tn, sites, gsel, cx.quick):
                ng = len(where)
                axes = [sites.index(s) for s in where]
                gdims = [dims[a] for a in axes]
                for mode in GEN_MODES:
                    for v in range(nvar):
                        d = [int(x) for x in sel.integers(0, 1 << 30, size=8)]
                        if not cx.mine():
                            continue
                        if cx.out_of_time():
                            cx.inconclusive.append("operator-gates: time budget exhausted")
                            return
                        form = ("matrix", "tensor")[d[0] % 2]
                        how = ("plain", "plain", "dagger", "transpose")[d[1] % 4]
                        which = ("default", "sandwich", "both", "upper", "lower")[d[2] % 5]
                        entry = ("gate", "gate", "method", "inds")[d[3] % 4]
                        inplace = bool(d[4] % 2)
                        G, Gt = rand_gate(rng, gdims, cplx, form)
                        params = dict(geom=name, cplx=cplx, where=[str(s) for s in where], mode=mode, form=form, how=how,
                                      which=which, entry=entry, inplace=inplace, v=v)
                        nb = ng == 2 and neighbours_op(tn, where[0], where[1])
                        must = ng == 1 or (ng == 2 and (mode not in ("split", "reduce-split") or nb)) or (ng >= 3 and mode in (False, True))

                        def thunk(tn=tn, G=G, Gt=Gt, where=where, mode=mode, how=how, which=which, entry=entry, inplace=inplace,
                                  axes=axes, ng=ng, n=n, kind=kind, sites=sites, base=base, snap=snap):
                            target = tn.copy() if inplace else tn
                            kw = dict(contract=mode)
                            if how == "dagger":
                                kw["dagger"] = True
                            elif how == "transpose":
                                kw["transpose"] = True
                            if mode not in (False, True):
                                kw["cutoff"] = 0.0
                            side = "sandwich" if which in ("default", "sandwich", "both") else which
                            sfx = "_" if inplace else ""
                            if entry == "gate":
                                if which != "default":
                                    kw["which"] = which
                                after = getattr(target, "gate" + sfx)(G, where, **kw) if inplace else target.gate(G, where, **kw)
                            elif entry == "method":
                                after = getattr(target, f"gate_{side}{sfx}")(G, where, **kw)
                            else:
                                up = [tn.upper_ind(s) for s in where]
                                lo = [tn.lower_ind(s) for s in where]
                                if side == "sandwich":
                                    after = getattr(target, "gate_sandwich_inds" + sfx)(G, up, lo, **kw)
                                else:
                                    after = getattr(target, "gate_inds" + sfx)(G, up if side == "upper" else lo, **kw)
                            if inplace and after is not target:
                                return "the in-place spelling returned a different object"
                            if not inplace and (after is tn or not unchanged(tn, snap)):
                                return "the input network was modified by the non-in-place spelling"
                            A = op_variant(Gt, ng, how)
                            ref = base
                            if side in ("sandwich", "upper"):
                                ref = apply_op(A, axes, ref)
                            if side == "sandwich":
                                ref = apply_op(A.conj(), [n + a for a in axes], ref)  # X -> A X A^dagger
                            if side == "lower":
                                ref = apply_op(A, [n + a for a in axes], ref)  # X -> X A^T
                            got = site_dense(after, kind, sites)
                            e = rel_err(got, ref)
                            if isinstance(e, str) or e > TOL:
                                return f"dense(after) != reference: {e if isinstance(e, str) else f'relative error {e:.3e}'}"
                            keep = (ng == 1 and mode is not False and mode not in LAZY) or (ng == 2 and mode in ("split", "reduce-split"))
                            pr = structure_problems(tn, after, kind, sites, keep)
                            return "; ".join(pr) or None

                        cx.check("gate on an operator-like network: dense(after) == G X G^dagger (sandwich) / G X (upper) / X G^T "
                                 "(lower) with G embedded in the given site order; outer labels, site tags and naming preserved",
                                 params, thunk, allow_reject=not must, crash_is_violation=must)
            # MPO: gate_sandwich_with_auto_swap
            if kind == "mpo" and not cyclic and n >= 2:
                for (i, j) in itertools.permutations(range(n), 2):
                    for v in range(nvar):
                        d = [int(x) for x in sel.integers(0, 1 << 30, size=6)]
                        if not cx.mine():
                            continue
                        dagger, swap_back, strip = bool(d[0] % 2), bool(d[1] % 3), bool(d[2] % 2)
                        contract = ("split", "reduce-split")[d[3] % 2]
                        inplace = bool(d[4] % 2)
                        gdims = [dims[i], dims[j]]
                        G, Gt = rand_gate(rng, gdims, cplx, ("matrix", "tensor")[d[5] % 2])
                        params = dict(geom=name, cplx=cplx, entry="gate_sandwich_with_auto_swap", where=[i, j], dagger=dagger,
                                      swap_back=swap_back, strip_exponent=strip, mode=contract, inplace=inplace, v=v)

                        def thunk(tn=tn, G=G, Gt=Gt, i=i, j=j, dagger=dagger, swap_back=swap_back, strip=strip, contract=contract,
                                  inplace=inplace, n=n, base=base, snap=snap, sites=sites):
                            target = tn.copy() if inplace else tn
                            fn = target.gate_sandwich_with_auto_swap_ if inplace else target.gate_sandwich_with_auto_swap
                            after = fn(G, (i, j), dagger=dagger, swap_back=swap_back, strip_exponent=strip, contract=contract, cutoff=0.0)
                            if inplace and after is not target:
                                return "the in-place spelling returned a different object"
                            if not inplace and (after is tn or not unchanged(tn, snap)):
                                return "the input network was modified by the non-in-place spelling"
                            A = op_variant(Gt, 2, "dagger" if dagger else "plain")
                            ref = apply_op(A, [i, j], base)
                            ref = apply_op(A.conj(), [n + i, n + j], ref)
                            lo_, hi_ = sorted((i, j))
                            if not swap_back and hi_ != lo_ + 1:
                                perm = list(range(lo_ + 1)) + [hi_] + list(range(lo_ + 1, hi_)) + list(range(hi_ + 1, n))
                                ref = np.transpose(ref, perm + [n + p for p in perm])
                            got = site_dense(after, "mpo", sites)
                            e = rel_err(got, ref)
                            if isinstance(e, str) or e > 1e-8:
                                return f"dense(after) != reference: {e if isinstance(e, str) else f'relative error {e:.3e}'}"
                            pr = structure_problems(tn, after, "mpo", sites, True)
                            return "; ".join(pr) or None

                        cx.check("MatrixProductOperator.gate_sandwich_with_auto_swap: dense(after) == G X G^dagger (G^dagger X G "
                                 "with dagger), sites permuted as documented when not swapped back, stored exponent included",
                                 params, thunk)


@driver("C06", "operator-with-op-lazy", chunks=2, timeout=300,
        bound="gate_upper_with_op_lazy / gate_lower_with_op_lazy / gate_sandwich_with_op_lazy on MPO (3, 4 sites, open; 3 sites "
              "periodic) and general operator networks with an operator network of the same geometry (full support) and, for "
              "open MPOs, with a sub-MPO supported on 2 of the sites; transpose / dagger; in-place and copy; tolerance 1e-9")
def op_lazy(cx):
    warnings.simplefilter("ignore")
    import quimb.tensor as qtn

    rng = cx.rng
    nvar = 2 if cx.quick else 12
    for name, kind, spec in geometries(cx.quick):
        if kind not in ("mpo", "gop") or len(spec["dims"]) < 2:
            continue
        for cplx in (False, True):
            gsel = np.random.default_rng([cx.seed, 82, int(cplx), sum(map(ord, name))])
            X, sites, dims = make(qtn, gsel, kind, spec, cplx)
            n = len(sites)
            D = int(np.prod(dims, dtype=int))
            Xd = site_dense(X, kind, sites).reshape(D, D)
            snap = snapshot(X)
            supports = ["full"] + (["sub"] if (kind == "mpo" and not spec["cyclic"] and n >= 3) else [])
            for support, entry, flag, v in itertools.product(supports, ("upper", "lower", "sandwich"), (False, True), range(nvar)):
                if not cx.mine():
                    continue
                inplace = bool(v % 2)
                seed = int(rng.integers(1 << 30))
                params = dict(geom=name, cplx=cplx, entry=f"gate_{entry}_with_op_lazy", support=support, flag=flag, inplace=inplace, v=v)

                def thunk(X=X, kind=kind, spec=spec, cplx=cplx, sites=sites, dims=dims, n=n, D=D, Xd=Xd, snap=snap, support=support,
                          entry=entry, flag=flag, inplace=inplace, seed=seed):
                    r = np.random.default_rng(seed)
                    if support == "full":
                        A, _, _ = make(qtn, r, kind, spec, cplx)
                        Ad = site_dense(A, kind, sites).reshape(D, D)
                    else:
                        w = sorted(int(t) for t in r.permutation(n)[:2])
                        gd = [dims[a] for a in w]
                        G, Gt = rand_gate(r, gd, cplx, "matrix")
                        A = qtn.MatrixProductOperator.from_dense(G, dims=gd, sites=w, L=n)
                        Asub = dense_of(A, [A.upper_ind(s) for s in w] + [A.lower_ind(s) for s in w])
                        eye = np.eye(D).reshape(tuple(dims) + tuple(dims))
                        Ad = apply_op(Asub, w, eye).reshape(D, D)
                    target = X.copy() if inplace else X
                    fn = getattr(target, f"gate_{entry}_with_op_lazy" + ("_" if inplace else ""))
                    if entry == "sandwich":
                        after = fn(A, dagger=flag)
                        M = Ad.conj().T if flag else Ad
                        ref = M @ Xd @ M.conj().T
                    elif entry == "upper":
                        after = fn(A, transpose=flag)
                        ref = (Ad.T if flag else Ad) @ Xd
                    else:
                        after = fn(A, transpose=flag)
                        ref = Xd @ (Ad.T if flag else Ad)
                    if inplace and after is not target:
                        return "the in-place spelling returned a different object"
                    if not inplace and (after is X or not unchanged(X, snap)):
                        return "the input network was modified by the non-in-place spelling"
                    if set(after.outer_inds()) != set(X.outer_inds()):
                        return f"outer labels {sorted(after.outer_inds())} != {sorted(X.outer_inds())}"
                    e = rel_err(site_dense(after, kind, sites).reshape(D, D), ref)
                    if isinstance(e, str) or e > TOL:
                        return f"dense(after) != reference: {e if isinstance(e, str) else f'relative error {e:.3e}'}"
                    pr = structure_problems(X, after, kind, sites, False)
                    return "; ".join(pr) or None

                cx.check("gate_{upper,lower,sandwich}_with_op_lazy: dense(after) == A X / X A / A X A^dagger (transposed / adjoint "
                         "variants), outer labels preserved", params, thunk)


def neighbours_op(tn, a, b):
    ta = tn.select_tensors(tn.site_tag(a), "all")
    tb = tn.select_tensors(tn.site_tag(b), "all")
    if len(ta) != 1 or len(tb) != 1 or ta[0] is tb[0]:
        return False
    return len(set(ta[0].inds) & set(tb[0].inds)) == 1


def where_choices_op(tn, sites, rng_sel, quick):
    n = len(sites)
    out = [(sites[0],)]
    if n > 1:
        out.append((sites[-1],))
    pairs = list(itertools.permutations(range(n), 2))
    nb = [p for p in pairs if neighbours_op(tn, sites[p[0]], sites[p[1]])]
    far = [p for p in pairs if p not in nb]
    for pool in (nb, far):
        if pool:
            a, b = pool[int(rng_sel.integers(len(pool)))]
            out.append((sites[a], sites[b]))
            out.append((sites[b], sites[a]))
    if n >= 3:
        tri = list(rng_sel.permutation(n)[:3])
        out.append(tuple(sites[i] for i in tri))
    return out


# ----------------------------------------------------------------------------------------------
# driver 4: raw labels -- TensorNetwork.gate_inds on plain networks, gate_inds_with_tn, Tensor.gate
# ----------------------------------------------------------------------------------------------

RAW_NETS = {
    # name: list of (labels, dims) per tensor; outer labels appear once
    "plain": [(("p", "x", "q"), (2, 3, 2)), (("x", "r", "s"), (3, 3, 2))],
    # labels that coincide with the names used internally by the lazily split gate ('b', 'l0', 'r0', ...)
    "clash-b": [(("b", "x", "l0"), (2, 3, 2)), (("x", "r0", "r1"), (3, 2, 2))],
    "clash-lr": [(("l0", "x", "l1"), (2, 3, 3)), (("x", "r0", "r1"), (3, 2, 2))],
    "one-tensor": [(("u", "v", "w"), (2, 3, 2))],
    "three": [(("a", "x"), (2, 2)), (("x", "y", "c"), (2, 3, 3)), (("y", "d", "e"), (3, 2, 1))],
}


@driver("C06", "raw-labels", chunks=3, timeout=300,
        bound="TensorNetwork.gate_inds on plain TensorNetwork objects (two / three tensors, a single tensor, labels "
              "that coincide with the internal names 'b', 'l0', 'r0', 'l1', 'r1' of the lazily split gate) with every contract "
              "mode, 1..3 target labels in any order (a single label also as a bare string), full-rank / product / swapped-product "
              "gates, transpose / dagger, stored exponent; gate_inds_with_tn with a two-tensor "
              "gate network (targets present and absent); Tensor.gate (preserve_inds, transpose, rectangular matrices); "
              "tolerance 1e-9")
def raw_labels(cx):
    warnings.simplefilter("ignore")
    import quimb.tensor as qtn

    rng = cx.rng
    sel = _selector(cx, 604)
    nvar = 4 if cx.quick else 30
    for name, spec in RAW_NETS.items():
        for cplx in (False, True):
            gsel = np.random.default_rng([cx.seed, 80, int(cplx), sum(map(ord, name))])
            ts = [qtn.Tensor(_rand(gsel, dims, cplx), inds=labels, tags=f"T{k}") for k, (labels, dims) in enumerate(spec)]
            count = {}
            size = {}
            for labels, dims in spec:
                for x, dd in zip(labels, dims):
                    count[x] = count.get(x, 0) + 1
                    size[x] = dd
            outer = [x for x in count if count[x] == 1]
            for exponent in (0.0, 1.5):
                tn = qtn.TensorNetwork(ts)
                tn.exponent = exponent
                base = dense_of(tn, outer)
                snap = snapshot(tn)
                targets = [(outer[0],), (outer[-1],), (outer[0], outer[-1]), (outer[-1], outer[0]), (outer[1], outer[0])]
                if len(outer) >= 3:
                    targets += [(outer[2], outer[0], outer[1]), (outer[1], outer[2])]
                for inds in targets:
                    ng = len(inds)
                    axes = [outer.index(x) for x in inds]
                    gdims = [size[x] for x in inds]
                    for mode in GEN_MODES:
                        for v in range(nvar):
                            d = [int(x) for x in sel.integers(0, 1 << 30, size=4)]
                            if not cx.mine():
                                continue
                            form = ("matrix", "tensor", "product", "swapprod")[d[0] % 4] if ng == 2 else ("matrix", "tensor")[d[0] % 2]
                            how = ("plain", "plain", "dagger", "transpose")[d[1] % 4]
                            inplace = bool(d[2] % 2)
                            bare = ng == 1 and d[3] % 3 == 0  # a single label given as a plain string (documented)
                            G, Gt = rand_gate(rng, gdims, cplx, form)
                            params = dict(net=name, cplx=cplx, exponent=exponent, inds=list(inds), mode=mode, form=form, how=how,
                                          inplace=inplace, v=v, bare_str=bare)
                            holders = [k for k, (labels, _) in enumerate(spec) if set(labels) & set(inds)]
                            two_nb = False
                            if ng == 2 and len(holders) == 2:
                                sh = set(spec[holders[0]][0]) & set(spec[holders[1]][0])
                                two_nb = len(sh) == 1 and count[next(iter(sh))] == 2
                            must = ng == 1 or (ng == 2 and (mode not in ("split", "reduce-split") or two_nb or len(holders) == 1)) \
                                or (ng >= 3 and mode in (False, True))

                            def thunk(tn=tn, G=G, Gt=Gt, inds=inds, mode=mode, how=how, inplace=inplace, axes=axes, ng=ng,
                                      outer=outer, base=base, snap=snap, bare=bare):
                                target = tn.copy() if inplace else tn
                                kw = dict(contract=mode)
                                if how == "dagger":
                                    kw["dagger"] = True
                                elif how == "transpose":
                                    kw["transpose"] = True
                                if mode not in (False, True):
                                    kw["cutoff"] = 0.0
                                arg = inds[0] if bare else list(inds)
                                after = target.gate_inds_(G, arg, **kw) if inplace else target.gate_inds(G, arg, **kw)
                                if inplace and after is not target:
                                    return "the in-place spelling returned a different object"
                                if not inplace and (after is tn or not unchanged(tn, snap)):
                                    return "the input network was modified by the non-in-place spelling"
                                if set(after.outer_inds()) != set(outer):
                                    return f"outer labels {sorted(after.outer_inds())} != {sorted(outer)}"
                                ref = apply_op(op_variant(Gt, ng, how), axes, base)
                                e = rel_err(dense_of(after, outer), ref)
                                if isinstance(e, str) or e > TOL:
                                    return f"dense(after) != reference: {e if isinstance(e, str) else f'relative error {e:.3e}'}"
                                return None

                            cx.check("TensorNetwork.gate_inds: dense(after) == operator on the given labels (in order) @ dense(before), "
                                     "same outer labels, stored exponent kept", params, thunk, allow_reject=not must,
                                     crash_is_violation=must)
    # gate_inds_with_tn: the gate is itself a network
    for i in range(40 if cx.quick else 400):
        d = [int(x) for x in sel.integers(0, 1 << 30, size=6)]
        if not cx.mine():
            continue
        cplx = bool(d[0] % 2)
        da, db, dc = 2 + d[1] % 2, 2 + d[2] % 2, 1 + d[3] % 3
        A = qtn.Tensor(_rand(rng, (da, 3, dc), cplx), inds=("a", "x", "c"), tags="A")
        B = qtn.Tensor(_rand(rng, (3, db), cplx), inds=("x", "b"), tags="B")
        tn = qtn.TensorNetwork([A, B])
        # gate network: two tensors joined by a bond, outer labels o0,o1 (new outer), inner i0,i1 (joined to the targets)
        case = d[4] % 3
        g1 = qtn.Tensor(_rand(rng, (da, da, 2), cplx), inds=("o0", "i0", "g"), tags="G1")
        if case == 2:
            # second target label absent from the network: both its inner and outer label stay outer
            g2 = qtn.Tensor(_rand(rng, (2, 3, 2), cplx), inds=("g", "o1", "i1"), tags="G2")
            targets = ("a", "zz")
        else:
            g2 = qtn.Tensor(_rand(rng, (2, db, db), cplx), inds=("g", "o1", "i1"), tags="G2")
            targets = ("a", "b")
        gate = qtn.TensorNetwork([g1, g2])
        inplace = bool(d[5] % 2)
        params = dict(entry="gate_inds_with_tn", cplx=cplx, dims=[da, db, dc], case=case, inplace=inplace, i=i)

        def thunk(tn=tn, gate=gate, targets=targets, case=case, inplace=inplace):
            base = dense_of(tn, ("a", "b", "c"))
            target = tn.copy() if inplace else tn
            snap = snapshot(tn)
            fn = target.gate_inds_with_tn_ if inplace else target.gate_inds_with_tn
            after = fn(list(targets), gate, ["i0", "i1"], ["o0", "o1"])
            if not inplace and not unchanged(tn, snap):
                return "the input network was modified"
            if case == 2:
                Gd = dense_of(gate, ("o0", "o1", "i0", "i1"))
                want = ("a", "b", "c", "o1", "i1")
                if set(after.outer_inds()) != set(want):
                    return f"outer labels {sorted(after.outer_inds())} != {sorted(want)}"
                ref = np.einsum("poiq,ibc->pbcoq", Gd, base)
                e = rel_err(dense_of(after, want), ref)
            else:
                Gd = dense_of(gate, ("o0", "o1", "i0", "i1"))
                if set(after.outer_inds()) != {"a", "b", "c"}:
                    return f"outer labels {sorted(after.outer_inds())}"
                ref = apply_op(Gd, [0, 1], base)
                e = rel_err(dense_of(after, ("a", "b", "c")), ref)
            if isinstance(e, str) or e > TOL:
                return f"dense(after) != reference: {e if isinstance(e, str) else f'relative error {e:.3e}'}"
            return None

        cx.check("TensorNetwork.gate_inds_with_tn: the gate network is wired between the target labels and the outside", params, thunk)
    # Tensor.gate
    for i in range(60 if cx.quick else 600):
        d = [int(x) for x in sel.integers(0, 1 << 30, size=8)]
        if not cx.mine():
            continue
        cplx = bool(d[0] % 2)
        shape = [(3,), (2, 3), (2, 3, 2), (1, 4, 2), (2, 2, 2, 3)][d[1] % 5]
        inds = tuple("abcd"[:len(shape)])
        ax = d[2] % len(shape)
        transpose = bool(d[3] % 2)
        preserve = bool(d[4] % 2)
        inplace = bool(d[5] % 2)
        dnew = shape[ax] if d[6] % 3 else 1 + d[6] % 4  # rectangular matrices change the dimension
        data = _rand(rng, shape, cplx)
        G = _rand(rng, (shape[ax], dnew) if transpose else (dnew, shape[ax]), cplx)
        params = dict(entry="Tensor.gate", cplx=cplx, shape=list(shape), ax=ax, transpose=transpose, preserve_inds=preserve,
                      inplace=inplace, dnew=dnew, i=i)

        def thunk(data=data, G=G, inds=inds, ax=ax, transpose=transpose, preserve=preserve, inplace=inplace):
            t = qtn.Tensor(data.copy(), inds=inds, tags="T")
            r = (t.gate_ if inplace else t.gate)(G, inds[ax], preserve_inds=preserve, transpose=transpose)
            if inplace and r is not t:
                return "in-place spelling returned another object"
            if not inplace and (not np.array_equal(t.data, data) or t.inds != inds):
                return "input tensor modified"
            M = G.T if transpose else G
            ref = np.moveaxis(np.tensordot(M, data, axes=(1, ax)), 0, ax)
            if set(r.inds) != set(inds):
                return f"labels {r.inds} != {inds}"
            if preserve and r.inds != inds:
                return f"preserve_inds: label order {r.inds} != {inds}"
            got = np.transpose(np.asarray(r.data), [r.inds.index(x) for x in inds])
            e = rel_err(got, ref)
            if isinstance(e, str) or e > TOL:
                return f"gated tensor != G x: {e if isinstance(e, str) else f'relative error {e:.3e}'}"
            if "T" not in r.tags:
                return "tags lost"
            return None

        cx.check("Tensor.gate: x <- G x (x <- G^T x with transpose) on one label, labels kept", params, thunk)


# ----------------------------------------------------------------------------------------------
# driver 5: simple-update gate with bond gauges, nearest neighbour and long range
# ----------------------------------------------------------------------------------------------


def _gauged_dense(tn, gauges, out):
    """dense form of a network whose bonds carry the given gauge vectors (numpy only)"""
    ops = [(np.asarray(t.data), list(t.inds)) for t in tn.tensors]
    for ix, s in gauges.items():
        holders = [k for k, (_, la) in enumerate(ops) if ix in la]
        if not holders:
            continue
        k = holders[0]
        a, la = ops[k]
        shp = [1] * a.ndim
        shp[la.index(ix)] = -1
        ops[k] = (a * np.asarray(s).reshape(shp), la)

    class _T:
        def __init__(self, a, la):
            self.data, self.inds = a, tuple(la)

    class _N:
        tensors = [_T(a, la) for a, la in ops]
        exponent = getattr(tn, "exponent", 0.0)

    return dense_of(_N, out)


@driver("C06", "gate-simple", chunks=2, timeout=300,
        bound="gate_simple_ (simple-update gate with bond gauges, renorm=False, cutoff=0, smudge 1e-12) on PEPS 2x3, a tree, a "
              "ring and an open MPS: 1-site, nearest-neighbour and long-range (disconnected target tensors) 2-site gates in "
              "both orders, plain / transpose / dagger, with empty and with random positive gauges on every bond; the denoted "
              "state is the network with the gauges multiplied into their bonds; tolerance 1e-7")
def gate_simple(cx):
    warnings.simplefilter("ignore")
    import quimb.tensor as qtn

    rng = cx.rng
    sel = _selector(cx, 605)
    nvar = 3 if cx.quick else 20
    for name, kind, spec in geometries(cx.quick):
        if name not in ("peps23", "tree5", "ring4", "mps5mixed", "mps4", "two"):
            continue
        for cplx in (False, True):
            gsel = np.random.default_rng([cx.seed, 81, int(cplx), sum(map(ord, name))])
            tn, sites, dims = make(qtn, gsel, kind, spec, cplx)
            bonds = list(tn.inner_inds())
            for where in where_choices(tn, sites, gsel, True):
                if len(where) > 2:
                    continue
                for gauged in (False, True):
                    for v in range(nvar):
                        d = [int(x) for x in sel.integers(0, 1 << 30, size=4)]
                        if not cx.mine():
                            continue
                        how = ("plain", "dagger", "transpose")[d[0] % 3]
                        form = ("matrix", "tensor")[d[1] % 2]
                        ng = len(where)
                        axes = [sites.index(s) for s in where]
                        gdims = [dims[a] for a in axes]
                        G, Gt = rand_gate(rng, gdims, cplx, form)
                        g0 = {ix: rng.uniform(0.5, 1.5, size=tn.ind_size(ix)) for ix in bonds} if gauged else {}
                        params = dict(geom=name, cplx=cplx, where=[str(s) for s in where], gauged=gauged, how=how, form=form, v=v)

                        def thunk(tn=tn, G=G, Gt=Gt, where=where, how=how, g0=g0, axes=axes, ng=ng, sites=sites, kind=kind):
                            out = [tn.site_ind(s) for s in sites]
                            base = _gauged_dense(tn, g0, out)
                            gauges = {k: np.array(s) for k, s in g0.items()}
                            target = tn.copy()
                            kw = {}
                            if how == "dagger":
                                kw["dagger"] = True
                            elif how == "transpose":
                                kw["transpose"] = True
                            after = target.gate_simple_(G, where, gauges, renorm=False, cutoff=0.0, **kw)
                            if after is not target:
                                return "gate_simple_ returned a different object"
                            if set(after.outer_inds()) != set(out):
                                return f"outer labels {sorted(after.outer_inds())} != {sorted(out)}"
                            ref = apply_op(op_variant(Gt, ng, how), axes, base)
                            e = rel_err(_gauged_dense(after, gauges, out), ref)
                            if isinstance(e, str) or e > 1e-7:
                                return f"gauged dense(after) != reference: {e if isinstance(e, str) else f'relative error {e:.3e}'}"
                            pr = structure_problems(tn, after, kind, sites, True)
                            return "; ".join(pr) or None

                        cx.check("gate_simple_: (network with its bond gauges) after == embedded operator @ (network with its bond "
                                 "gauges) before, structure preserved", params, thunk)
