"""C09 bounded stand-in: MPS / MPO construction, arithmetic and 1D compression against dense numpy linear algebra.

Reference semantics (shares no code with quimb): a chain of site arrays in (left, right, up, down) layout is
densified with plain einsum (`_chain_dense`); every operation is then compared on dense vectors / matrices
(site 0 most significant, operator rows = upper labels).  Canonical forms are validated by an independent
isometry-defect computation on the raw `.data` / `.inds` of the returned tensors.
"""

import itertools

import numpy as np

from vf.rtc import driver

DTYPES = ("float64", "complex128", "float32", "complex64")


def _serial_cotengra():
    """the rtc workers are daemonic processes: cotengra's parallel='auto' path search must not try to start a process pool
    (it resolves to serial execution inside anything marked as a worker); quimb itself is untouched"""
    try:
        import cotengra.parallel as par

        par._IS_WORKER = True
    except Exception:  # noqa
        pass


# ----------------------------------------------------------------------------------------------
# independent reference helpers (numpy only)
# ----------------------------------------------------------------------------------------------

def _is_single(dt):
    dt = np.dtype(dt)
    return dt == np.float32 or dt == np.complex64


def _tol(dt, loose=1.0):
    """relative tolerance of a direct computation: single precision 3e-4, double 1e-9 (times `loose`)"""
    return (3e-4 if _is_single(dt) else 1e-9) * loose


def _rnd(rng, shape, dt):
    x = rng.normal(size=shape)
    if np.dtype(dt).kind == "c":
        x = x + 1j * rng.normal(size=shape)
    return x.astype(dt)


def _close(got, ref, tol, what=""):
    """scale-aware comparison; shapes first"""
    got, ref = np.asarray(got), np.asarray(ref)
    if got.shape != ref.shape:
        return f"{what}: shape {got.shape} != reference {ref.shape}"
    if got.size == 0:
        return None
    if not np.all(np.isfinite(got)):
        return f"{what}: non-finite entries"
    scale = max(float(np.max(np.abs(ref))), float(np.max(np.abs(got))), 1e-300)
    err = float(np.max(np.abs(got - ref)))
    if err > tol * scale + 1e-300:
        return f"{what}: max abs diff {err:.3e} at scale {scale:.3e} (tol {tol:.1e})"
    return None


def _chain(rng, L, phys, bonds, dt, cyclic, op):
    """random site arrays in full (l, r, u, d) layout (d = 1 for a state); bonds[i] joins site i and i+1,
    bonds[L-1] is the periodic bond (forced to 1 when open)"""
    arrs = []
    for i in range(L):
        l = bonds[i - 1] if (i > 0 or cyclic) else 1
        r = bonds[i] if (i < L - 1 or cyclic) else 1
        arrs.append((_rnd(rng, (l, r, phys[i], phys[i] if op else 1), dt) / max(l * r, 1) ** 0.25).astype(dt))
    return arrs


def _chain_dense(arrs):
    """dense matrix (prod u, prod d) of a chain of (l, r, u, d) arrays, closed by a trace over the end bonds"""
    cur = arrs[0].transpose(0, 2, 3, 1)  # l0 U D r
    for a in arrs[1:]:
        cur = np.einsum("aUDr,rsud->aUuDds", cur, a)
        s = cur.shape
        cur = cur.reshape(s[0], s[1] * s[2], s[3] * s[4], s[5])
    return np.einsum("aUDa->UD", cur)


def _to_layout(arrs, shape, cyclic, op):
    """site arrays as handed to the quimb constructors: letters of `shape` ('lrp' / 'lrud'), the missing end bonds
    of an open chain dropped"""
    L = len(arrs)
    out = []
    for i, a in enumerate(arrs):
        if not op:
            a = a[:, :, :, 0]
        letters = "lrud" if op else "lrp"
        have = [c for c in letters]
        x = a
        if not cyclic and i == L - 1:  # drop r first (axis 1) so axis 0 stays valid
            x = np.squeeze(x, axis=1)
            have.remove("r")
        if not cyclic and i == 0:
            x = np.squeeze(x, axis=0)
            have.remove("l")
        want = [c for c in shape if c in have]
        out.append(np.transpose(x, [have.index(c) for c in want]))
    return out


def _kron_all(ops):
    out = np.ones((1, 1), dtype=np.result_type(*ops))
    for o in ops:
        out = np.kron(out, o)
    return out


def _site_data(tn, i, phys_first=None):
    """raw data of the single tensor tagged as site i, as (left bond, phys..., right bond) with missing bonds given
    size 1; bonds are found from the raw label tuples of the neighbouring site tensors"""
    L = tn.L
    t = tn[i]
    if not hasattr(t, "inds"):
        raise ValueError(f"site {i} holds more than one tensor")
    inds = list(t.inds)
    data = np.asarray(t.data)

    def shared(j):
        if not (0 <= j < L) or j == i:
            return []
        tj = tn[j]
        return [ix for ix in inds if ix in tj.inds]

    cyc = bool(getattr(tn, "cyclic", False))
    lb = shared(i - 1) if i > 0 else (shared(L - 1) if cyc and L > 2 else [])
    rb = shared(i + 1) if i < L - 1 else (shared(0) if cyc and L > 2 else [])
    if cyc and L == 2:
        both = shared(1 - i)
        if len(both) == 2:
            lb, rb = ([both[0]], [both[1]]) if i == 0 else ([both[1]], [both[0]])
        else:
            lb, rb = ([], both) if i == 0 else (both, [])
    ph = [ix for ix in inds if ix not in lb and ix not in rb]
    ph.sort()
    perm = [inds.index(ix) for ix in lb + ph + rb]
    x = np.transpose(data, perm)
    ld = int(np.prod([t.ind_size(ix) for ix in lb])) if lb else 1
    rd = int(np.prod([t.ind_size(ix) for ix in rb])) if rb else 1
    return x.reshape(ld, -1, rd)


def _iso_defects(tn):
    """(left defects, right defects) per site: || A^dag A - 1 || with the left (resp. right) bond as the column
    space -- computed from raw data only"""
    ld, rd = [], []
    for i in range(tn.L):
        x = _site_data(tn, i)
        a = x.reshape(-1, x.shape[2])
        ld.append(float(np.max(np.abs(a.conj().T @ a - np.eye(a.shape[1])))))
        b = x.reshape(x.shape[0], -1)
        rd.append(float(np.max(np.abs(b @ b.conj().T - np.eye(b.shape[0])))))
    return ld, rd


def _canon_msg(tn, centre, tol):
    """None when sites < centre are left isometries and sites > centre right isometries"""
    ld, rd = _iso_defects(tn)
    bad = [("L", i, ld[i]) for i in range(centre) if ld[i] > tol] + \
          [("R", i, rd[i]) for i in range(centre + 1, tn.L) if rd[i] > tol]
    if bad:
        return f"not canonical around site {centre}: (side, site, defect) = {bad[:4]}"
    return None


def _dims_choices(rng, L, dmax=3, allow_one=True):
    lo = 1 if allow_one else 2
    return [int(x) for x in rng.integers(lo, dmax + 1, size=L)]


# ----------------------------------------------------------------------------------------------
# driver 1: constructors, from_dense, from_fill_fn, named generators
# ----------------------------------------------------------------------------------------------

_MPS_SHAPES = ("lrp", "prl", "rlp", "lpr", "plr", "rpl")
_MPO_SHAPES = ("lrud", "udlr", "rlud", "ludr", "dulr", "uldr", "lrdu")


@driver("C09", "construct-and-densify", chunks=4, timeout=200,
        bound="L 1..6 (thorough 1..7), site-dependent physical dims 1..3 and bond dims 1..4, 4 dtypes, open and periodic, "
              "every permutation class of the `shape` layout string, `sites` subsets with L larger than the number of "
              "arrays, from_dense with sorted / unsorted / gapped site tuples, from_fill_fn, fill_empty_sites; "
              "reference: einsum chain contraction and explicit Kronecker products")
def construct(cx):
    import quimb.tensor as qtn

    _serial_cotengra()

    rng = cx.rng
    Ls = range(1, 7) if cx.quick else range(1, 8)
    reps = 8 if cx.quick else 60
    for L, cyclic, rep in itertools.product(Ls, (False, True), range(reps)):
        if not cx.mine():
            continue
        if cx.out_of_time():
            cx.inconclusive.append("construct-and-densify: time budget exhausted")
            return
        dt = DTYPES[(rep + L) % 4]
        tol = _tol(dt)
        while True:
            phys = _dims_choices(rng, L)
            if rep % 2 == 0:
                phys = [phys[0]] * L   # uniform physical dimension (needed by fill_empty_sites, from_dense(dims=int))
            if int(np.prod(phys)) <= 300:
                break
        bonds = _dims_choices(rng, L, 4)
        p = dict(L=L, cyclic=cyclic, dtype=dt, phys=phys, bonds=bonds, rep=rep)

        # ---- MatrixProductState(arrays, shape=...) ----
        arrs = _chain(rng, L, phys, bonds, dt, cyclic, op=False)
        ref = _chain_dense(arrs)  # (D, 1)
        shp = _MPS_SHAPES[int(rng.integers(len(_MPS_SHAPES)))]

        def t_mps(arrs=arrs, ref=ref, shp=shp, L=L, cyclic=cyclic, phys=phys, bonds=bonds, tol=tol, dt=dt):
            psi = qtn.MatrixProductState(_to_layout(arrs, shp, cyclic, False), shape=shp)
            if psi.L != L or psi.nsites != L:
                return f"L={psi.L} nsites={psi.nsites}"
            if bool(psi.cyclic) != (cyclic):
                return f"cyclic flag {psi.cyclic}"
            if [psi.phys_dim(i) for i in range(L)] != phys:
                return f"phys dims {[psi.phys_dim(i) for i in range(L)]}"
            if L > 1 and not (cyclic and L == 2):
                want = bonds[:L - 1] + ([bonds[L - 1]] if cyclic else [])
                if list(psi.bond_sizes()) != want:
                    return f"bond_sizes {psi.bond_sizes()} != {want}"
                if psi.max_bond() != max(want):
                    return f"max_bond {psi.max_bond()}"
            if np.dtype(psi.dtype) != np.dtype(dt):
                return f"dtype {psi.dtype}"
            return _close(psi.to_dense(), ref, tol, "MPS.to_dense")

        cx.check("MatrixProductState(arrays, shape).to_dense() == einsum chain", dict(p, shape=shp), t_mps,
                 nontrivial=L > 1)

        # ---- MatrixProductOperator(arrays, shape=...) ----
        oarrs = _chain(rng, L, phys, bonds, dt, cyclic, op=True)
        oref = _chain_dense(oarrs)
        oshp = _MPO_SHAPES[int(rng.integers(len(_MPO_SHAPES)))]

        def t_mpo(oarrs=oarrs, oref=oref, oshp=oshp, L=L, cyclic=cyclic, phys=phys, tol=tol):
            A = qtn.MatrixProductOperator(_to_layout(oarrs, oshp, cyclic, True), shape=oshp)
            if A.L != L or A.nsites != L:
                return f"L={A.L} nsites={A.nsites}"
            if [A.phys_dim(i) for i in range(L)] != phys or [A.phys_dim(i, "lower") for i in range(L)] != phys:
                return "phys dims"
            return _close(A.to_dense(), oref, tol, "MPO.to_dense")

        cx.check("MatrixProductOperator(arrays, shape).to_dense() == einsum chain (rows = upper)", dict(p, shape=oshp),
                 t_mpo, nontrivial=L > 1)

        # ---- constructors on a subset of sites (open only) ----
        if not cyclic:
            Lbig = L + int(rng.integers(0, 3))
            sites = sorted(int(s) for s in rng.choice(Lbig, size=L, replace=False))
            # a single array on a sub-chain: both end rules apply ('l' and 'r' dropped), keyed separately
            ps = dict(p, sites=sites, Lbig=Lbig, single_site_of_longer_chain=(L == 1 and Lbig > 1),
                      L_larger_than_narrays=Lbig > L)

            def t_mps_sites(arrs=arrs, ref=ref, sites=sites, Lbig=Lbig, tol=tol):
                psi = qtn.MatrixProductState(_to_layout(arrs, "lrp", False, False), sites=sites, L=Lbig)
                if psi.L != Lbig:
                    return f"L given as {Lbig} but psi.L = {psi.L}"
                if list(psi.gen_sites_present()) != sites:
                    return f"sites present {list(psi.gen_sites_present())} != {sites}"
                if sorted(psi.outer_inds()) != sorted(f"k{s}" for s in sites):
                    return f"outer inds {psi.outer_inds()}"
                return _close(psi.to_dense(), ref, tol, "MPS(sites).to_dense")

            cx.check("MatrixProductState(arrays, sites, L): L, sites present, to_dense over present sites", ps, t_mps_sites,
                     nontrivial=L > 1)

            def t_mpo_sites(oarrs=oarrs, oref=oref, sites=sites, Lbig=Lbig, tol=tol, phys=phys, dt=dt):
                A = qtn.MatrixProductOperator(_to_layout(oarrs, "lrud", False, True), sites=sites, L=Lbig)
                if A.L != Lbig:
                    return f"L given as {Lbig} but A.L = {A.L}"
                if list(A.gen_sites_present()) != sites:
                    return f"sites present {list(A.gen_sites_present())} != {sites}"
                e = _close(A.to_dense(), oref, tol, "MPO(sites).to_dense")
                if e:
                    return e
                # fill_empty_sites: identities elsewhere (needs a uniform physical dimension)
                if len(set(phys)) == 1:
                    d = phys[0]
                    for mode in ("full", "minimal"):
                        B = A.fill_empty_sites(mode)
                        if mode == "full":
                            tgt = list(range(Lbig))
                        else:
                            tgt = list(range(sites[0], sites[-1] + 1))
                        if list(B.gen_sites_present()) != tgt:
                            return f"fill_empty_sites({mode}): sites {list(B.gen_sites_present())} != {tgt}"
                        # reference: chain with identity arrays threaded through the bond
                        full = []
                        k = 0
                        rb = 1
                        for s in tgt:
                            if s in sites:
                                full.append(oarrs[k])
                                rb = oarrs[k].shape[1]
                                k += 1
                            else:
                                w = rb if (k > 0 and k < len(sites)) else 1
                                full.append(np.einsum("lr,ud->lrud", np.eye(w), np.eye(d)).astype(dt))
                        e = _close(B.to_dense(), _chain_dense(full), tol, f"fill_empty_sites({mode})")
                        if e:
                            return e
                        if list(A.gen_sites_present()) != sites:
                            return "fill_empty_sites modified its receiver"
                return None

            cx.check("MatrixProductOperator(arrays, sites, L) and fill_empty_sites == identities elsewhere", ps, t_mpo_sites,
                     nontrivial=L > 1)

            if len(set(phys)) == 1 and L >= 2 and Lbig > L:
                def t_fill_pd(oarrs=oarrs, sites=sites, Lbig=Lbig, tol=tol, phys=phys, dt=dt):
                    A = qtn.MatrixProductOperator(_to_layout(oarrs, "lrud", False, True), sites=sites, L=Lbig)
                    B = A.fill_empty_sites("full", phys_dim=phys[0])
                    if list(B.gen_sites_present()) != list(range(Lbig)):
                        return f"sites {list(B.gen_sites_present())}"
                    ref_sub = _chain_dense(oarrs)
                    # value check through the action on the kept sites: trace out the filled sites
                    d = phys[0]
                    n_fill = Lbig - len(sites)
                    full = B.to_dense()
                    T = full.reshape([d] * Lbig * 2)
                    other = [s for s in range(Lbig) if s not in sites]
                    for k, s in enumerate(sorted(other, reverse=True)):
                        T = np.trace(T, axis1=s, axis2=s + T.ndim // 2)
                    Dk = d ** len(sites)
                    return _close(T.reshape(Dk, Dk), ref_sub * d ** n_fill, tol, "fill_empty_sites(phys_dim=d)")

                cx.check("MatrixProductOperator.fill_empty_sites(phys_dim=d) fills with d x d identities",
                         dict(ps, explicit_phys_dim=True), t_fill_pd)

        # ---- from_dense ----
        if not cyclic:
            D = int(np.prod(phys))
            kind = ("random", "product", "rank2")[rep % 3]
            if kind == "random":
                vec = _rnd(rng, (D,), dt)
            elif kind == "product":
                vec = _kron_all([_rnd(rng, (d, 1), dt) for d in phys]).reshape(-1)
            else:
                vec = (_kron_all([_rnd(rng, (d, 1), dt) for d in phys]) + _kron_all([_rnd(rng, (d, 1), dt) for d in phys])
                       ).reshape(-1)
            vshape = ("flat", "column", "tensor")[int(rng.integers(3))]
            vin = vec if vshape == "flat" else (vec.reshape(-1, 1) if vshape == "column" else vec.reshape(phys))

            def t_fd(vec=vec, vin=vin, phys=phys, L=L, tol=tol, kind=kind, dt=dt):
                psi = qtn.MatrixProductState.from_dense(vin, dims=phys)
                if psi.L != L:
                    return f"L {psi.L}"
                e = _close(psi.to_dense().reshape(-1), vec, tol * 10, "from_dense round trip")
                if e:
                    return e
                if L > 1:
                    # bond dimensions = numerical ranks across the cuts (default relative cutoff 1e-10)
                    bs = list(psi.bond_sizes())
                    for c in range(1, L):
                        m = vec.reshape(int(np.prod(phys[:c])), -1).astype(np.complex128)
                        s = np.linalg.svd(m, compute_uv=False)
                        thr = 1e-3 if _is_single(dt) else 1e-7
                        rk_hi = int(np.sum(s > 1e-13 * s[0])) if s[0] > 0 else 1
                        rk_lo = int(np.sum(s > thr * s[0])) if s[0] > 0 else 1
                        if not (max(rk_lo, 1) <= bs[c - 1] <= max(min(m.shape), 1)):
                            return f"bond {c - 1}: size {bs[c - 1]} outside [{rk_lo}, {min(m.shape)}]"
                        if not _is_single(dt) and bs[c - 1] > max(rk_hi, 1):
                            return f"bond {c - 1}: size {bs[c - 1]} > numerical rank {rk_hi}"
                return None

            cx.check("MatrixProductState.from_dense(psi, dims).to_dense() == psi, bonds = ranks across cuts",
                     dict(p, kind=kind, vshape=vshape), t_fd, nontrivial=L > 1)

            if all(d == phys[0] for d in phys) and phys[0] > 1:
                def t_fd_int(vec=vec, phys=phys, L=L, tol=tol):
                    psi = qtn.MatrixProductState.from_dense(vec, dims=phys[0])
                    if psi.L != L:
                        return f"L {psi.L} != {L}"
                    return _close(psi.to_dense().reshape(-1), vec, tol * 10, "from_dense(int dims)")

                cx.check("MatrixProductState.from_dense(psi, dims=int) infers L", p, t_fd_int)

            # MPO.from_dense with sites sorted / unsorted / gapped
            Lbig = L + int(rng.integers(0, 3))
            sites = [int(s) for s in rng.choice(Lbig, size=L, replace=False)]
            mode = ("default", "sorted", "unsorted")[int(rng.integers(3))]
            if mode == "sorted":
                sites = sorted(sites)
            if D <= 64:
                M = _rnd(rng, (D, D), dt)

                def t_mpo_fd(M=M, phys=phys, sites=sites, Lbig=Lbig, mode=mode, tol=tol, L=L):
                    if mode == "default":
                        A = qtn.MatrixProductOperator.from_dense(M, dims=phys)
                        if A.L != L:
                            return f"L {A.L}"
                        return _close(A.to_dense(), M, tol * 10, "MPO.from_dense round trip")
                    A = qtn.MatrixProductOperator.from_dense(M, dims=phys, sites=sites, L=Lbig)
                    if A.L != Lbig:
                        return f"L {A.L} != {Lbig}"
                    if list(A.gen_sites_present()) != sorted(sites):
                        return f"sites present {list(A.gen_sites_present())}"
                    # subsystem k of M acts on sites[k]; to_dense orders present sites increasingly
                    order = list(np.argsort(sites))
                    T = M.reshape(*phys, *phys).transpose(order + [L + o for o in order])
                    Dn = int(np.prod(phys))
                    e = _close(A.to_dense(), T.reshape(Dn, Dn), tol * 10, "MPO.from_dense(sites)")
                    if e:
                        return e
                    for s, d in zip(sites, phys):
                        if A.phys_dim(s) != d:
                            return f"site {s}: phys dim {A.phys_dim(s)} != {d}"
                    # chain structure: bonds only between consecutive present sites (increasing order)
                    ss = sorted(sites)
                    for i, si in enumerate(ss):
                        for j, sj in enumerate(ss):
                            if j > i:
                                nb = len(set(A[si].inds) & set(A[sj].inds))
                                if nb != (1 if j == i + 1 else 0):
                                    return f"{nb} bonds between present sites {si} and {sj}: not a chain in site order"
                    return None

                cx.check("MatrixProductOperator.from_dense(A, dims, sites, L): subsystem k acts on sites[k]",
                         dict(p, sites=sites, Lbig=Lbig, mode=mode), t_mpo_fd, nontrivial=L > 1)

        # ---- from_fill_fn (shapes requested and resulting chain) ----
        bd = int(rng.integers(1, 4))
        Lbig = L + (int(rng.integers(0, 3)) if not cyclic else 0)
        sub = sorted(int(s) for s in rng.choice(Lbig, size=L, replace=False)) if Lbig > L else None
        physc = phys[: int(rng.integers(1, L + 1))]  # cycled over the sites
        shp = _MPS_SHAPES[int(rng.integers(len(_MPS_SHAPES)))]
        oshp = _MPO_SHAPES[int(rng.integers(len(_MPO_SHAPES)))]
        seed = int(rng.integers(1 << 30))
        for op in (False, True):
            def t_ff(op=op, bd=bd, Lbig=Lbig, sub=sub, physc=physc, shp=shp, oshp=oshp, seed=seed, cyclic=cyclic, dt=dt,
                     tol=tol, L=L):
                r2 = np.random.default_rng(seed)
                made = []

                def fill(shape):
                    x = _rnd(r2, tuple(shape), dt)
                    made.append(x)
                    return x

                cls = qtn.MatrixProductOperator if op else qtn.MatrixProductState
                s = oshp if op else shp
                tn = cls.from_fill_fn(fill, L=Lbig, bond_dim=bd, phys_dim=physc if len(physc) > 1 else physc[0],
                                      sites=sub, cyclic=cyclic, shape=s)
                sites = sub if sub is not None else list(range(Lbig))
                n = len(sites)
                if len(made) != n:
                    return f"fill_fn called {len(made)} times for {n} sites"
                if tn.L != Lbig:
                    return f"L {tn.L} != {Lbig}"
                if list(tn.gen_sites_present()) != sites:
                    return f"sites present {list(tn.gen_sites_present())} != {sites}"
                letters = "lrud" if op else "lrp"
                full = []
                for i, x in enumerate(made):
                    d = physc[i % len(physc)]
                    have = [c for c in s if not ((c == "l" and i == 0 and not cyclic) or (c == "r" and i == n - 1 and not cyclic))]
                    wantshape = tuple(bd if c in "lr" else d for c in have)
                    if x.shape != wantshape:
                        return f"site {i}: fill_fn asked for shape {x.shape}, expected {wantshape} (layout {''.join(have)})"
                    y = x
                    for c in letters:
                        if c not in have:
                            y = np.expand_dims(y, -1)
                            have = have + [c]
                    y = np.transpose(y, [have.index(c) for c in letters])
                    if not op:
                        y = y[..., None]
                    full.append(y)
                oi = sorted(tn.outer_inds())
                want_oi = sorted([f"k{q}" for q in sites] + ([f"b{q}" for q in sites] if op else []))
                if oi != want_oi:
                    return f"outer labels {oi} != {want_oi}"
                return _close(tn.to_dense(), _chain_dense(full), tol, "from_fill_fn dense")

            cx.check(("MatrixProductOperator" if op else "MatrixProductState") +
                     ".from_fill_fn: requested shapes, labels and dense value",
                     dict(p, bond_dim=bd, Lbig=Lbig, sites=sub, nphys=len(physc), shape=oshp if op else shp, seed=seed), t_ff,
                     nontrivial=L > 1)



# ----------------------------------------------------------------------------------------------
# driver 2: named generators of tensor_builder vs dense constructions
# ----------------------------------------------------------------------------------------------

def _basis(bits, dt):
    v = np.ones((1,), dtype=dt)
    for b in bits:
        e = np.zeros(2, dtype=dt)
        e[int(b)] = 1
        v = np.kron(v, e)
    return v


@driver("C09", "named-generators", chunks=4, timeout=200,
        bound="every named MPS / MPO generator of tensor_builder (rand_state, product_state, computational_state, "
              "neel, COPY, ghz, w, zero, rand_computational, sampler, identity(+_like, sites), zeros(+_like), "
              "product_operator, rand, rand_herm, MPO.rand_state / identity) for L 1..6 (thorough 1..8), 4 dtypes, open and "
              "periodic where accepted, site-dependent physical dims, dense operator dimension <= 1100; reference: explicit dense vectors / Kronecker products")
def generators(cx):
    import quimb.tensor as qtn

    _serial_cotengra()

    rng = cx.rng
    Ls = range(1, 7) if cx.quick else range(1, 9)
    for L, dt in itertools.product(Ls, DTYPES):
        if not cx.mine():
            continue
        if cx.out_of_time():
            cx.inconclusive.append("named-generators: time budget exhausted")
            return
        tol = _tol(dt)
        p = dict(L=L, dtype=dt)
        D = 2 ** L

        # --- deterministic named states ---
        for down_first in (False, True):
            def t_neel(down_first=down_first):
                psi = qtn.MPS_neel_state(L, down_first=down_first, dtype=dt)
                bits = [(i + (1 if down_first else 0)) % 2 for i in range(L)]
                if psi.L != L or np.dtype(psi.dtype) != np.dtype(dt):
                    return f"L {psi.L} dtype {psi.dtype}"
                return _close(psi.to_dense().reshape(-1), _basis(bits, dt), tol, "neel")

            cx.check("MPS_neel_state == alternating basis state", dict(p, down_first=down_first), t_neel)

        def t_ghz():
            psi = qtn.MPS_ghz_state(L, dtype=dt)
            ref = (_basis([0] * L, dt) + _basis([1] * L, dt)) / np.sqrt(2)
            if psi.L != L:
                return f"L {psi.L}"
            return _close(psi.to_dense().reshape(-1), ref, tol, "ghz")

        cx.check("MPS_ghz_state == (|0..0> + |1..1>)/sqrt2", p, t_ghz)

        def t_w():
            psi = qtn.MPS_w_state(L, dtype=dt)
            ref = sum(_basis([1 if j == i else 0 for j in range(L)], dt) for i in range(L)) / np.sqrt(L)
            if psi.L != L:
                return f"L {psi.L} != {L}"
            if L > 1 and psi.max_bond() != 2:
                return f"max bond {psi.max_bond()}"
            return _close(psi.to_dense().reshape(-1), ref, tol, "w")

        cx.check("MPS_w_state == sum_i |0..1_i..0>/sqrt L", dict(p, single_site=(L == 1)), t_w)

        for d in (1, 2, 3):
            if d ** L > 7000:
                continue

            def t_copy(d=d):
                psi = qtn.MPS_COPY(L, phys_dim=d, dtype=dt)
                ref = np.zeros([d] * L, dtype=dt)
                for k in range(d):
                    ref[(k,) * L] = 1
                if psi.L != L:
                    return f"L {psi.L}"
                return _close(psi.to_dense().reshape(-1), ref.reshape(-1), tol, "COPY")

            cx.check("MPS_COPY == generalised delta tensor", dict(p, d=d), t_copy, nontrivial=d > 1)

        for cyclic in (False, True):
            bits = "".join(rng.choice(list("01+-"), size=L))
            as_ints = bool(rng.integers(2)) and set(bits) <= set("01")

            def t_comp(bits=bits, cyclic=cyclic, as_ints=as_ints):
                arg = [int(b) for b in bits] if as_ints else bits
                psi = qtn.MPS_computational_state(arg, dtype=dt, cyclic=cyclic)
                m = {"0": [1, 0], "1": [0, 1], "+": [2 ** -0.5, 2 ** -0.5], "-": [2 ** -0.5, -2 ** -0.5]}
                ref = _kron_all([np.array(m[b], dtype=dt).reshape(2, 1) for b in bits]).reshape(-1)
                if psi.L != L or bool(psi.cyclic) != cyclic:
                    return f"L {psi.L} cyclic {psi.cyclic}"
                if L > 1 and psi.max_bond() != 1:
                    return "bond"
                return _close(psi.to_dense().reshape(-1), ref, tol, "computational")

            cx.check("MPS_computational_state == Kronecker product of the named single-site vectors",
                     dict(p, bits=bits, cyclic=cyclic, ints=as_ints), t_comp)

            while True:
                phys = _dims_choices(rng, L)
                if int(np.prod(phys)) <= 1100:
                    break
            vecs = [_rnd(rng, (d,), dt) for d in phys]

            def t_prod(vecs=vecs, cyclic=cyclic, phys=phys):
                psi = qtn.MPS_product_state(vecs, cyclic=cyclic)
                ref = _kron_all([v.reshape(-1, 1) for v in vecs]).reshape(-1)
                if psi.L != L or [psi.phys_dim(i) for i in range(L)] != phys:
                    return "L / phys dims"
                e = _close(psi.to_dense().reshape(-1), ref, tol, "product_state")
                if e:
                    return e
                psi2 = qtn.MatrixProductState.from_product(vecs, cyclic=cyclic)
                return _close(psi2.to_dense().reshape(-1), ref, tol, "from_product")

            cx.check("MPS_product_state / from_product == Kronecker product", dict(p, cyclic=cyclic, phys=phys), t_prod)

            mats = [_rnd(rng, (d, d), dt) for d in phys]

            def t_prodop(mats=mats, cyclic=cyclic, phys=phys):
                A = qtn.MPO_product_operator(mats, cyclic=cyclic)
                if A.L != L or [A.phys_dim(i) for i in range(L)] != phys:
                    return "L / phys dims"
                return _close(A.to_dense(), _kron_all(mats), tol, "product_operator")

            cx.check("MPO_product_operator == Kronecker product (rows = upper)", dict(p, cyclic=cyclic, phys=phys), t_prodop)

            for d, bd in ((2, 1), (3, 2), (1, 3)):
                if d ** L > 1100:
                    continue

                def t_zero(cyclic=cyclic, d=d, bd=bd):
                    psi = qtn.MPS_zero_state(L, bond_dim=bd, phys_dim=d, cyclic=cyclic, dtype=dt)
                    if psi.L != L or np.dtype(psi.dtype) != np.dtype(dt):
                        return "L / dtype"
                    if L > 2 and psi.max_bond() != bd:
                        return f"bond {psi.max_bond()}"
                    x = psi.to_dense()
                    if x.shape != (d ** L, 1) or np.any(x != 0):
                        return f"shape {x.shape} / non-zero"
                    A = qtn.MPO_zeros(L, phys_dim=d, dtype=dt, cyclic=cyclic)
                    y = A.to_dense()
                    if y.shape != (d ** L, d ** L) or np.any(y != 0) or A.L != L:
                        return f"MPO_zeros shape {y.shape}"
                    B = qtn.MPO_zeros_like(A)
                    z = B.to_dense()
                    if z.shape != y.shape or np.any(z != 0) or bool(B.cyclic) != cyclic or np.dtype(B.dtype) != np.dtype(dt):
                        return "MPO_zeros_like"
                    return None

                cx.check("MPS_zero_state / MPO_zeros / MPO_zeros_like are zero with the requested sizes",
                         dict(p, cyclic=cyclic, d=d, bond_dim=bd), t_zero, nontrivial=False)

            for d in (1, 2, 3):
                if d ** L > 1100:
                    continue

                def t_id(cyclic=cyclic, d=d):
                    A = qtn.MPO_identity(L, phys_dim=d, dtype=dt, cyclic=cyclic)
                    if A.L != L or bool(A.cyclic) != cyclic or np.dtype(A.dtype) != np.dtype(dt):
                        return "L / cyclic / dtype"
                    e = _close(A.to_dense(), np.eye(d ** L), tol, "identity")
                    if e:
                        return e
                    B = qtn.MPO_identity_like(A)
                    e = _close(B.to_dense(), np.eye(d ** L), tol, "identity_like")
                    if e:
                        return e
                    if B.L != L or bool(B.cyclic) != cyclic:
                        return "identity_like L / cyclic"
                    C = A.identity()
                    return _close(C.to_dense(), np.eye(d ** L), tol, "MPO.identity()")

                cx.check("MPO_identity / MPO_identity_like / MPO.identity == dense identity",
                         dict(p, cyclic=cyclic, d=d, single_site=(L == 1)), t_id)

            # random generators: structural properties
            bd = int(rng.integers(1, 4))
            physl = _dims_choices(rng, L, allow_one=False)
            seed = int(rng.integers(1 << 30))
            for norm in (True, False, "left", "right"):
                if cyclic and (norm in ("left", "right") or L < 3):
                    continue  # periodic chains of length 1, 2 have a self loop / double bond: not a supported MPS

                def t_rand(cyclic=cyclic, bd=bd, norm=norm, seed=seed, physl=physl):
                    uniform = bool(seed % 2)
                    pd = physl[0] if uniform else physl
                    psi = qtn.MPS_rand_state(L, bd, phys_dim=pd, normalize=norm, cyclic=cyclic, dtype=dt, seed=seed)
                    if psi.L != L or bool(psi.cyclic) != cyclic or np.dtype(psi.dtype) != np.dtype(dt):
                        return f"L {psi.L} cyclic {psi.cyclic} dtype {psi.dtype}"
                    want = [physl[0]] * L if uniform else physl
                    if [psi.phys_dim(i) for i in range(L)] != want:
                        return f"phys dims {[psi.phys_dim(i) for i in range(L)]} != {want}"
                    if L > 2 and psi.max_bond() != bd:
                        return f"bond {psi.max_bond()} != {bd}"
                    x = psi.to_dense().reshape(-1)
                    nrm = float(np.linalg.norm(x.astype(np.complex128)))
                    if norm and abs(nrm - 1) > 10 * tol:
                        return f"normalize={norm}: dense norm {nrm}"
                    if nrm == 0:
                        return "zero state"
                    if norm == "left":
                        e = _canon_msg(psi, L - 1, 30 * tol)
                        if e:
                            return e
                    if norm == "right":
                        e = _canon_msg(psi, 0, 30 * tol)
                        if e:
                            return e
                    psi2 = qtn.MPS_rand_state(L, bd, phys_dim=pd, normalize=norm, cyclic=cyclic, dtype=dt, seed=seed)
                    if not np.array_equal(psi2.to_dense(), psi.to_dense()):
                        return "same seed, different state"
                    return None

                cx.check("MPS_rand_state: sizes, dtype, unit norm / canonical form when requested, seed determinism",
                         dict(p, cyclic=cyclic, bond_dim=bd, normalize=str(norm), seed=seed), t_rand)

            if cyclic and L >= 2:
                def t_ti(bd=bd, seed=seed):
                    psi = qtn.MPS_rand_state(L, bd, phys_dim=2, cyclic=True, trans_invar=True, dtype=dt, seed=seed,
                                             normalize=False)
                    x = psi.to_dense().reshape([2] * L)
                    y = np.moveaxis(x, 0, -1)  # translate by one site
                    return _close(y, x, 30 * tol, "translation by one site")

                cx.check("MPS_rand_state(trans_invar=True) is invariant under a one-site translation",
                         dict(p, bond_dim=bd, seed=seed), t_ti)

            for herm in (False, True):
                for normalize in (True, False):
                    def t_mporand(cyclic=cyclic, bd=bd, herm=herm, normalize=normalize, seed=seed):
                        d = 2 + (seed % 2 if L <= 5 else 0)
                        if herm and bool(seed % 3 == 0) and not cyclic:
                            A = qtn.MPO_rand_herm(L, bd, phys_dim=d, normalize=normalize, dtype=dt, seed=seed)
                        else:
                            A = qtn.MPO_rand(L, bd, phys_dim=d, normalize=normalize, cyclic=cyclic, herm=herm, dtype=dt, seed=seed)
                        if A.L != L or bool(A.cyclic) != cyclic or np.dtype(A.dtype) != np.dtype(dt):
                            return f"L {A.L} cyclic {A.cyclic} dtype {A.dtype}"
                        if L > 2 and A.max_bond() != bd:
                            return f"bond {A.max_bond()}"
                        M = A.to_dense().astype(np.complex128)
                        if M.shape != (d ** L, d ** L):
                            return f"shape {M.shape}"
                        fro = float(np.linalg.norm(M))
                        if fro == 0:
                            return "zero operator"
                        if normalize and abs(fro - 1) > 30 * tol:
                            return f"normalize: Frobenius norm {fro}"
                        if herm and np.max(np.abs(M - M.conj().T)) > 30 * tol * max(np.max(np.abs(M)), 1e-300):
                            return f"herm=True: |A - A^dag| = {np.max(np.abs(M - M.conj().T)):.2e}"
                        return None

                    cx.check("MPO_rand / MPO_rand_herm: sizes, dtype, Frobenius norm 1 when normalised, Hermitian when asked",
                             dict(p, cyclic=cyclic, bond_dim=bd, herm=herm, normalize=normalize, seed=seed), t_mporand)

        # MPO_identity on a subset of sites
        Lbig = L + int(rng.integers(0, 3))
        sites = sorted(int(s) for s in rng.choice(Lbig, size=L, replace=False))

        def t_id_sites(sites=sites, Lbig=Lbig):
            A = qtn.MPO_identity(Lbig, sites=sites, phys_dim=2, dtype=dt)
            if list(A.gen_sites_present()) != sites:
                return f"sites {list(A.gen_sites_present())}"
            e = _close(A.to_dense(), np.eye(2 ** len(sites)), tol, "identity on sites")
            if e:
                return e
            if A.L != Lbig:
                return f"L given as {Lbig} but A.L = {A.L}"
            return None

        cx.check("MPO_identity(L, sites) == identity on the listed sites, of length L",
                 dict(p, sites=sites, Lbig=Lbig, single_site=(L == 1), L_beyond_last_site=(Lbig > sites[-1] + 1)), t_id_sites)

        seed = int(rng.integers(1 << 30))

        def t_rcs(seed=seed):
            psi = qtn.MPS_rand_computational_state(L, dtype=dt, seed=seed)
            x = psi.to_dense().reshape(-1)
            if x.shape != (D,) or psi.L != L:
                return f"shape {x.shape}"
            if np.sum(x != 0) != 1 or abs(x[np.argmax(np.abs(x))] - 1) > tol:
                return "not a computational basis state"
            return None

        cx.check("MPS_rand_computational_state is one computational basis vector", dict(p, seed=seed), t_rcs)

        if np.dtype(dt).kind == "c":
            for squeeze in (True, False):
                def t_samp(squeeze=squeeze):
                    psi = qtn.MPS_sampler(L, dtype=dt, squeeze=squeeze)
                    x = psi.to_dense().reshape(-1).astype(np.complex128)
                    if x.shape != (D,):
                        return f"shape {x.shape}"
                    if abs(np.vdot(x, x) - D) > 30 * tol * D:
                        return f"<psi|psi> = {np.vdot(x, x)} != {D}"
                    if np.max(np.abs(np.abs(x) - 1)) > 30 * tol:
                        return "entries are not pure phases"
                    return None

                cx.check("MPS_sampler: product of phases, <psi|psi> = 2^L", dict(p, squeeze=squeeze), t_samp)

        # MPO.rand_state matches the operator
        physl = _dims_choices(rng, L, allow_one=False)
        bonds = _dims_choices(rng, L, 3)
        for cyclic in (False, True):
            if cyclic and L < 3:
                continue
            oarrs = _chain(rng, L, physl, bonds, dt, cyclic, op=True)

            def t_rs(oarrs=oarrs, cyclic=cyclic, physl=physl):
                A = qtn.MatrixProductOperator(_to_layout(oarrs, "lrud", cyclic, True))
                psi = A.rand_state(2)
                if psi.L != L or [psi.phys_dim(i) for i in range(L)] != physl or bool(psi.cyclic) != cyclic:
                    return f"L {psi.L}, phys {[psi.phys_dim(i) for i in range(L)]} vs {physl}, cyclic {psi.cyclic}"
                if np.dtype(psi.dtype) != np.dtype(dt):
                    return f"dtype {psi.dtype}"
                return None

            cx.check("MPO.rand_state(bond_dim) matches the operator's sites, dims, boundary and dtype",
                     dict(p, cyclic=cyclic, phys=physl), t_rs)


# ----------------------------------------------------------------------------------------------
# driver 3: arithmetic, application, overlaps, expectations, traces, partial traces, transposes
# ----------------------------------------------------------------------------------------------

def _embed(M, dims, sites):
    """operator M acting on `sites` (in that order) of a system with site dimensions `dims`, as a full matrix"""
    n = len(dims)
    rest = [i for i in range(n) if i not in sites]
    dr = int(np.prod([dims[i] for i in rest])) if rest else 1
    full = np.kron(M, np.eye(dr))
    order = list(sites) + rest
    T = full.reshape([dims[i] for i in order] * 2)
    inv = [int(k) for k in np.argsort(order)]
    T = T.transpose(inv + [n + j for j in inv])
    D = int(np.prod(dims))
    return T.reshape(D, D)


def _ptrace(rho, dims, keep):
    """partial trace of a dense operator keeping `keep` (result ordered by increasing site)"""
    n = len(dims)
    T = rho.reshape(list(dims) * 2)
    for s in sorted((i for i in range(n) if i not in keep), reverse=True):
        T = np.trace(T, axis1=s, axis2=s + T.ndim // 2)
    dk = int(np.prod([dims[i] for i in sorted(keep)])) if keep else 1
    return T.reshape(dk, dk)


def _ptranspose(M, dims, sysa):
    n = len(dims)
    T = M.reshape(list(dims) * 2)
    perm = list(range(2 * n))
    for s in sysa:
        perm[s], perm[n + s] = perm[n + s], perm[s]
    D = int(np.prod(dims))
    return T.transpose(perm).reshape(D, D)


def _with_exp(tn, e):
    if e:
        tn.exponent = e
    return tn


@driver("C09", "arithmetic-vs-dense", chunks=6, timeout=300,
        bound="L 1..6 (periodic: 3..6), site-dependent physical dims 1..3 (total dimension <= 1500) and bond dims 1..4, "
              "4 dtypes, stored exponents {0, 0.7, -1.3} on either operand, in-place and copying spellings; "
              "sums / differences / scalar multiples (real, negative, complex, zero) / negation, overlaps, norms, distance, "
              "normalize, expec_TN_1D with 0-2 operators, MPO.apply to MPS and MPO (contract on/off, in place), the four "
              "which_A x which_B pairings, lazy upper / lower / sandwich gating, traces, conjugation and (partial) "
              "transposes, sub-MPOs on arbitrary site subsets applied to MPS and MPO, partial_trace_to_mpo, "
              "partial_trace_to_dense_canonical, bipartite_schmidt_state, permute_arrays; reference: numpy on dense arrays")
def arithmetic(cx):
    import quimb.tensor as qtn

    _serial_cotengra()
    from quimb.tensor.tn1d.core import expec_TN_1D
    from quimb.tensor.tnag.core import tensor_network_apply_op_op, tensor_network_apply_op_vec

    rng = cx.rng
    reps = 6 if cx.quick else 30
    for L, cyclic, rep in itertools.product(range(1, 7), (False, True), range(reps)):
        if cyclic and L < 3:
            continue
        if not cx.mine():
            continue
        if cx.out_of_time():
            cx.inconclusive.append("arithmetic-vs-dense: time budget exhausted")
            return
        dt = DTYPES[(rep + L) % 4]
        tol = _tol(dt, 10)
        while True:
            phys = _dims_choices(rng, L)
            if int(np.prod(phys)) <= (200 if cx.quick else 1500):
                break
        D = int(np.prod(phys))
        ea, eb = ([(0, 0)] * 9 + [(0.7, 0), (0, -1.3), (0.7, -1.3)])[int(rng.integers(12))]
        p = dict(L=L, cyclic=cyclic, dtype=dt, phys=phys, rep=rep, exponent_a=ea, exponent_b=eb,
                 stored_exponent=bool(ea or eb))
        ba, bb, bA, bB = (_dims_choices(rng, L, 4) for _ in range(4))
        aa = _chain(rng, L, phys, ba, dt, cyclic, False)
        ab = _chain(rng, L, phys, bb, dt, cyclic, False)
        aA = _chain(rng, L, phys, bA, dt, cyclic, True)
        aB = _chain(rng, L, phys, bB, dt, cyclic, True)
        da = _chain_dense(aa).astype(np.complex128).reshape(-1) * 10.0 ** ea
        db = _chain_dense(ab).astype(np.complex128).reshape(-1) * 10.0 ** eb
        dA = _chain_dense(aA).astype(np.complex128) * 10.0 ** ea
        dB = _chain_dense(aB).astype(np.complex128) * 10.0 ** eb

        def mk(which, aa=aa, ab=ab, aA=aA, aB=aB, cyclic=cyclic, ea=ea, eb=eb):
            if which == "a":
                return _with_exp(qtn.MatrixProductState(_to_layout(aa, "lrp", cyclic, False)), ea)
            if which == "b":
                return _with_exp(qtn.MatrixProductState(_to_layout(ab, "lrp", cyclic, False)), eb)
            if which == "A":
                return _with_exp(qtn.MatrixProductOperator(_to_layout(aA, "lrud", cyclic, True)), ea)
            return _with_exp(qtn.MatrixProductOperator(_to_layout(aB, "lrud", cyclic, True)), eb)

        def vec(tn):
            x = tn.to_dense()
            if x.shape != (D, 1):
                raise AssertionError(f"to_dense shape {x.shape} != ({D}, 1)")
            return np.asarray(x).reshape(-1)

        def sclose(got, ref, what, scale_refs=(), t=tol):
            """scalar comparison on the natural scale of the operands"""
            got = complex(got)
            sc = max([abs(ref)] + [float(s) for s in scale_refs] + [1e-300])
            if not np.isfinite(got) or abs(got - ref) > t * sc:
                return f"{what}: got {got}, reference {ref} (scale {sc:.3e})"
            return None

        # --- stored exponent enters to_dense (precondition of everything below) ---
        def t_dense():
            return (_close(vec(mk("a")), da, tol, "a.to_dense") or _close(mk("A").to_dense(), dA, tol, "A.to_dense")
                    or _close(vec(mk("b")), db, tol, "b.to_dense") or _close(mk("B").to_dense(), dB, tol, "B.to_dense"))

        cx.check("to_dense() includes the stored exponent", p, t_dense)

        # --- sums and differences ---
        for kind, opn in (("mps", "+"), ("mps", "-"), ("mps", "+="), ("mps", "-="), ("mps", "add_MPS"), ("mps", "add_MPS_"),
                          ("mpo", "+"), ("mpo", "-"), ("mpo", "+="), ("mpo", "-="), ("mpo", "add_MPO"), ("mpo", "add_MPO_")):
            def t_sum(kind=kind, opn=opn):
                x, y = (mk("a"), mk("b")) if kind == "mps" else (mk("A"), mk("B"))
                dx, dy = (da, db) if kind == "mps" else (dA, dB)
                dense = vec if kind == "mps" else (lambda t: np.asarray(t.to_dense()))
                if opn == "+":
                    r, ref = x + y, dx + dy
                elif opn == "-":
                    r, ref = x - y, dx - dy
                elif opn == "+=":
                    r = x
                    r += y
                    ref = dx + dy
                elif opn == "-=":
                    r = x
                    r -= y
                    ref = dx - dy
                elif opn in ("add_MPS", "add_MPO"):
                    r, ref = getattr(x, opn)(y), dx + dy
                else:
                    r = getattr(x, opn)(y)
                    ref = dx + dy
                    if r is not x:
                        return "in-place spelling returned a new object"
                if type(r) is not type(x):
                    return f"result type {type(r).__name__}"
                e = _close(dense(r), ref, tol, f"x {opn} y")
                if e:
                    return e
                if opn in ("+", "-", "add_MPS", "add_MPO"):
                    e = _close(dense(x), dx, tol, "left operand changed") or _close(dense(y), dy, tol, "right operand changed")
                    if e:
                        return e
                else:
                    e = _close(dense(y), dy, tol, "right operand changed")
                    if e:
                        return e
                if L > 2:
                    bx, by = x.bond_sizes() if opn in ("+", "-", "add_MPS", "add_MPO") else None, y.bond_sizes()
                    if bx is not None and list(r.bond_sizes()) != [i + j for i, j in zip(bx, by)]:
                        return f"bond sizes {r.bond_sizes()} != {bx} + {by}"
                return None

            cx.check(f"{kind.upper()} x {opn} y == dense sum / difference (operands preserved)", dict(p, op=opn), t_sum)

        # --- scalar multiples ---
        scalars = [("real", 2.5), ("negative", -0.75), ("complex", 0.6 - 1.1j), ("zero", 0.0), ("int", 3), ("npfloat", np.float64(-1.5))]
        for (sname, x), kind in itertools.product(scalars, ("mps", "mpo")):
            if sname == "complex" and np.dtype(dt).kind != "c":
                continue

            def t_mul(x=x, kind=kind, sname=sname):
                base = (lambda: mk("a")) if kind == "mps" else (lambda: mk("A"))
                d0 = da if kind == "mps" else dA
                dense = vec if kind == "mps" else (lambda t: np.asarray(t.to_dense()))
                t0 = base()
                for what, r, ref in (("x*s", t0 * x, d0 * x), ("s*x", x * t0, d0 * x),
                                     ("multiply(spread_over=1)", t0.multiply(x, spread_over=1), d0 * x),
                                     ("multiply(spread_over='all')", t0.multiply(x, spread_over="all"), d0 * x)):
                    e = _close(dense(r), ref, tol, what)
                    if e:
                        return e
                e = _close(dense(t0), d0, tol, "receiver changed by a copying spelling")
                if e:
                    return e
                e = _close(dense(-t0), -d0, tol, "negation")
                if e:
                    return e
                t1 = base()
                t1 *= x
                e = _close(dense(t1), d0 * x, tol, "x *= s")
                if e:
                    return e
                if x != 0:
                    e = _close(dense(t0 / x), d0 / x, tol, "x / s")
                    if e:
                        return e
                    t2 = base()
                    t2 /= x
                    e = _close(dense(t2), d0 / x, tol, "x /= s")
                    if e:
                        return e
                t3 = base()
                t3.negate_()
                return _close(dense(t3), -d0, tol, "negate_")

            cx.check(f"{kind.upper()} scalar multiple / quotient / negation == dense", dict(p, scalar=sname), t_mul)

        # --- overlaps, norms, distance, normalize ---
        na, nb = float(np.linalg.norm(da)), float(np.linalg.norm(db))

        def t_ovl():
            a, b = mk("a"), mk("b")
            e = sclose(a.H @ b, np.vdot(da, db), "a.H @ b", (na * nb,))
            e = e or sclose(b.H @ a, np.vdot(db, da), "b.H @ a", (na * nb,))
            e = e or sclose(a.overlap(b), np.vdot(db, da), "a.overlap(b) = <b|a>", (na * nb,))
            e = e or sclose(expec_TN_1D(a.H, b), np.vdot(da, db), "expec_TN_1D(a.H, b)", (na * nb,))
            e = e or sclose(a.norm(), na, "a.norm()")
            e = e or sclose(a.norm(squared=True), na ** 2, "a.norm(squared)")
            e = e or sclose(a.H @ a, na ** 2, "a.H @ a")
            dist = float(np.linalg.norm(da - db))
            e = e or sclose(a.distance(b), dist, "a.distance(b)", (na, nb), t=max(tol, 1e-6))
            return e

        cx.check("MPS overlap / norm / distance == vdot / 2-norm of the dense vectors", p, t_ovl)

        def t_ovl_mpo():
            A, B = mk("A"), mk("B")
            fA, fB = float(np.linalg.norm(dA)), float(np.linalg.norm(dB))
            e = sclose(A.H @ B, np.vdot(dA, dB), "A.H @ B = tr(A^dag B)", (fA * fB,))
            e = e or sclose(A.norm(), fA, "A.norm()")
            e = e or sclose(A.overlap(B), np.vdot(dB, dA), "A.overlap(B)", (fA * fB,))
            e = e or sclose(A.distance(B), float(np.linalg.norm(dA - dB)), "A.distance(B)", (fA, fB), t=max(tol, 1e-6))
            return e

        cx.check("MPO Frobenius overlap / norm / distance == dense", p, t_ovl_mpo)

        ins = [None, 0, L - 1, int(rng.integers(L))][int(rng.integers(4))]

        def t_normalize(ins=ins):
            a = mk("a")
            bra = a.H
            old = a.normalize(bra=bra, insert=ins)
            e = sclose(old, na ** 2, "returned old norm^2")
            e = e or _close(vec(a), da / na, tol, "normalised state")
            e = e or _close(vec(bra), np.conj(da) / na, tol, "bra normalised with the same factor")
            return e

        cx.check("MPS.normalize(): returns <a|a>, leaves a/|a| (bra mirrored)", dict(p, insert=ins), t_normalize)

        # --- expectation values ---
        def t_expec():
            a, b, A, B = mk("a"), mk("b"), mk("A"), mk("B")
            sA, sB = float(np.linalg.norm(dA, 2)), float(np.linalg.norm(dB, 2))
            e = sclose(expec_TN_1D(a.H, A, b), np.vdot(da, dA @ db), "expec_TN_1D(a.H, A, b) = <a|A|b>", (na * nb * sA,))
            e = e or sclose(expec_TN_1D(b.H, A, a), np.vdot(db, dA @ da), "expec_TN_1D(b.H, A, a)", (na * nb * sA,))
            e = e or sclose(expec_TN_1D(a.H, A, B, b), np.vdot(da, dA @ dB @ db), "expec_TN_1D(a.H, A, B, b) = <a|AB|b>",
                            (na * nb * sA * sB,))
            e = e or sclose(a.H @ A.apply(b), np.vdot(da, dA @ db), "a.H @ A.apply(b)", (na * nb * sA,))
            return e

        cx.check("expec_TN_1D(bra, ops..., ket) == <bra| product of dense operators |ket>", p, t_expec)

        # --- application ---
        for contract, inplace in ((True, False), (False, False), (True, True), (False, True)):
            def t_apply(contract=contract, inplace=inplace):
                a, A, B = mk("a"), mk("A"), mk("B")
                r = A.apply(a, contract=contract, inplace=inplace)
                if not isinstance(r, qtn.MatrixProductState) and contract:
                    return f"result type {type(r).__name__}"
                if sorted(r.outer_inds()) != sorted(a.outer_inds()):
                    return f"outer labels {r.outer_inds()} != those of the target"
                e = _close(vec(r), dA @ da, tol, "A.apply(a)")
                e = e or _close(vec(a), da, tol, "target changed")
                if e:
                    return e
                if not inplace:
                    e = _close(A.to_dense(), dA, tol, "operator changed by the copying spelling")
                    if e:
                        return e
                if contract and L > 2:
                    want = [i * j for i, j in zip(a.bond_sizes(), mk("A").bond_sizes())]
                    if list(r.bond_sizes()) != want:
                        return f"bond sizes {r.bond_sizes()} != products {want}"
                A = mk("A")
                r2 = A.apply(B, contract=contract, inplace=inplace)
                if sorted(r2.outer_inds()) != sorted(B.outer_inds()):
                    return f"op-op outer labels {r2.outer_inds()}"
                e = _close(r2.to_dense(), dA @ dB, tol, "A.apply(B)") or _close(B.to_dense(), dB, tol, "target op changed")
                if e:
                    return e
                r3 = mk("B").dot(mk("A"))
                return _close(r3.to_dense(), dB @ dA, tol, "B.dot(A)")

            cx.check("MPO.apply(MPS) == A @ a and MPO.apply(MPO) == A @ B (labels of the target kept)",
                     dict(p, contract=contract, inplace=inplace), t_apply)

        for wa, wb in itertools.product(("lower", "upper"), repeat=2):
            def t_which(wa=wa, wb=wb):
                A, B = mk("A"), mk("B")
                r = tensor_network_apply_op_op(A, B, which_A=wa, which_B=wb, contract=bool(rep % 2))
                MA = dA if wa == "lower" else dA.T
                # result carries B's labels: contracting B's upper puts A on the left, B's lower puts A on the right
                ref = MA @ dB if wb == "upper" else dB @ MA.T
                if sorted(r.outer_inds()) != sorted(B.outer_inds()):
                    return f"outer labels {r.outer_inds()}"
                e = _close(r.to_dense(), ref, tol, f"apply_op_op({wa},{wb})")
                if e:
                    return e
                if wb == "upper":
                    a = mk("a")
                    rv = tensor_network_apply_op_vec(A, a, which_A=wa, contract=bool(rep % 2))
                    return _close(vec(rv), MA @ da, tol, f"apply_op_vec(which_A={wa})")
                return None

            cx.check("tensor_network_apply_op_op / op_vec: the documented pair of label families is contracted",
                     dict(p, which_A=wa, which_B=wb), t_which)

        def t_lazy():
            A, B = mk("A"), mk("B")
            e = _close(B.gate_upper_with_op_lazy(A).to_dense(), dA @ dB, tol, "gate_upper_with_op_lazy: A B")
            e = e or _close(B.gate_upper_with_op_lazy(A, transpose=True).to_dense(), dA.T @ dB, tol, "gate_upper(transpose): A^T B")
            e = e or _close(B.gate_lower_with_op_lazy(A).to_dense(), dB @ dA, tol, "gate_lower_with_op_lazy: B A")
            e = e or _close(B.gate_lower_with_op_lazy(A, transpose=True).to_dense(), dB @ dA.T, tol, "gate_lower(transpose): B A^T")
            e = e or _close(B.gate_sandwich_with_op_lazy(A).to_dense(), dA @ dB @ dA.conj().T, tol, "sandwich: A B A^dag")
            e = e or _close(B.gate_sandwich_with_op_lazy(A, dagger=True).to_dense(), dA.conj().T @ dB @ dA, tol,
                            "sandwich(dagger): A^dag B A")
            a = mk("a")
            e = e or _close(vec(a.gate_with_op_lazy(A)), dA @ da, tol, "MPS.gate_with_op_lazy: A a")
            e = e or _close(vec(a.gate_with_op_lazy(A, transpose=True)), dA.T @ da, tol, "MPS.gate_with_op_lazy(transpose)")
            return e or _close(B.to_dense(), dB, tol, "receiver changed")

        cx.check("lazy gating of an operator / state with an operator == the documented dense products", p, t_lazy)

        # --- traces, conjugation, transposes ---
        def t_trace():
            A = mk("A")
            sc = float(np.sum(np.abs(np.diag(dA)))) + 1e-300
            return sclose(A.trace(), np.trace(dA), "A.trace()", (sc,))

        cx.check("MPO.trace() == trace of the dense matrix", p, t_trace)

        sysa = sorted(int(s) for s in rng.choice(L, size=int(rng.integers(1, L + 1)), replace=False))

        def t_transp(sysa=sysa):
            A = mk("A")
            e = _close(A.H.to_dense(), dA.conj(), tol, "A.H is element-wise conjugation")
            e = e or _close(A.conj().to_dense(), dA.conj(), tol, "A.conj()")
            e = e or _close(A.partial_transpose(sysa).to_dense(), _ptranspose(dA, phys, sysa), tol, f"partial_transpose({sysa})")
            e = e or _close(A.partial_transpose(range(L)).to_dense(), dA.T, tol, "partial_transpose(all) = transpose")
            if len(sysa) == 1:
                e = e or _close(A.partial_transpose(sysa[0]).to_dense(), _ptranspose(dA, phys, sysa), tol, "partial_transpose(int)")
            B = mk("A")
            r = B.partial_transpose_(sysa)
            e = e or (None if r is B else "partial_transpose_ returned a new object")
            e = e or _close(B.to_dense(), _ptranspose(dA, phys, sysa), tol, "partial_transpose_")
            e = e or _close(A.to_dense(), dA, tol, "receiver changed")
            a = mk("a")
            e = e or _close(vec(a.H), da.conj(), tol, "a.H")
            # swapping the two label families is the transpose
            C = mk("A")
            C.reindex_({**{f"k{i}": f"b{i}" for i in range(L)}, **{f"b{i}": f"k{i}" for i in range(L)}})
            e = e or _close(C.to_dense(), dA.T, tol, "relabel k<->b = transpose")
            return e

        cx.check("MPO conjugation / partial_transpose / label swap == dense conj / (partial) transpose", dict(p, sysa=sysa), t_transp)

        for shp in (_MPS_SHAPES[int(rng.integers(6))],):
            oshp = _MPO_SHAPES[int(rng.integers(len(_MPO_SHAPES)))]

            def t_perm(shp=shp, oshp=oshp):
                a, A = mk("a"), mk("A")
                a.permute_arrays(shp)
                A.permute_arrays(oshp)
                e = _close(vec(a), da, tol, "permute_arrays changed the state") or _close(A.to_dense(), dA, tol, "permute_arrays changed the operator")
                if e:
                    return e
                want = _to_layout(aa, shp, cyclic, False)
                for i in range(L):
                    if a[i].data.shape != want[i].shape:
                        return f"MPS site {i}: array shape {a[i].data.shape} != layout {shp} {want[i].shape}"
                    if ea == 0 and np.max(np.abs(a[i].data - want[i])) > 0:
                        return f"MPS site {i}: data not in layout {shp}"
                wantA = _to_layout(aA, oshp, cyclic, True)
                for i in range(L):
                    if A[i].data.shape != wantA[i].shape:
                        return f"MPO site {i}: array shape {A[i].data.shape} != layout {oshp} {wantA[i].shape}"
                    if ea == 0 and np.max(np.abs(A[i].data - wantA[i])) > 0:
                        return f"MPO site {i}: data not in layout {oshp}"
                return None

            cx.check("permute_arrays(shape) stores the arrays in the requested layout and keeps the value",
                     dict(p, shape=shp, oshape=oshp), t_perm)

        # --- sub-operators on a subset of sites (open chains) ---
        if not cyclic and L >= 2:
            m = int(rng.integers(1, L + 1))
            sites = sorted(int(s) for s in rng.choice(L, size=m, replace=False))
            sphys = [phys[s] for s in sites]
            how = ("arrays", "from_dense", "from_dense_unsorted")[int(rng.integers(3))]
            if how == "arrays" and m == 1:
                how = "from_dense"
            order = list(sites)
            if how == "from_dense_unsorted":
                order = [int(s) for s in rng.permutation(sites)]
            sarr = _chain(rng, m, sphys, _dims_choices(rng, m, 3), dt, False, True)
            Msub = _rnd(rng, (int(np.prod(sphys)),) * 2, dt)

            def mk_sub():
                if how == "arrays":
                    S = qtn.MatrixProductOperator(_to_layout(sarr, "lrud", False, True), sites=sites, L=L)
                    return S, _chain_dense(sarr).astype(np.complex128), sites
                S = qtn.MatrixProductOperator.from_dense(Msub, dims=[phys[s] for s in order], sites=order, L=L)
                return S, Msub.astype(np.complex128), order

            ps = dict(p, sub_sites=order, how=how, sub_covers_all=(m == L))

            def t_sub_vec():
                S, dS, so = mk_sub()
                E = _embed(dS, phys, so)
                a = mk("a")
                for contract in (True, False):
                    r = S.apply(a, contract=contract)
                    if sorted(r.outer_inds()) != sorted(a.outer_inds()):
                        return f"outer labels {sorted(r.outer_inds())} != {sorted(a.outer_inds())}"
                    e = _close(vec(r), E @ da, tol, f"S.apply(a, contract={contract})")
                    if e:
                        return e
                rv = tensor_network_apply_op_vec(S, a, which_A="upper")
                e = _close(vec(rv), E.T @ da, tol, "apply_op_vec(which_A=upper)")
                if e:
                    return e
                r = a.gate_with_op_lazy(S)
                return _close(vec(r), E @ da, tol, "a.gate_with_op_lazy(S)")

            cx.check("sub-MPO on a subset of sites applied to an MPS == embedded operator @ a", ps, t_sub_vec)

            def t_sub_op():
                S, dS, so = mk_sub()
                E = _embed(dS, phys, so)
                B = mk("B")
                for contract in (True, False):
                    r = S.apply(B, contract=contract)
                    if sorted(r.outer_inds()) != sorted(B.outer_inds()):
                        return (f"outer labels of the result differ from the target's: "
                                f"{sorted(set(r.outer_inds()) ^ set(B.outer_inds()))[:6]}")
                    e = _close(r.to_dense(), E @ dB, tol, f"S.apply(B, contract={contract})")
                    if e:
                        return e
                r = B.gate_lower_with_op_lazy(S)
                if sorted(r.outer_inds()) != sorted(B.outer_inds()):
                    return "gate_lower_with_op_lazy: outer labels differ from the target's"
                return _close(r.to_dense(), dB @ E, tol, "B.gate_lower_with_op_lazy(S)")

            cx.check("sub-MPO on a subset of sites applied to an MPO == embedded operator @ B (labels of the target kept)",
                     ps, t_sub_op)

        # --- partial traces ---
        if not cyclic or L >= 3:
            kk = int(rng.integers(1, L + 1))
            keep = [int(s) for s in rng.permutation(L)[:kk]]
            rescale = bool(rng.integers(2))
            use_slice = bool(rng.integers(4) == 0) and L >= 2
            if use_slice:
                lo = int(rng.integers(0, L - 1))
                hi = int(rng.integers(lo + 1, L + 1))
                keep_arg, keep = slice(lo, hi), list(range(lo, hi))
            else:
                keep_arg = keep
            pk = dict(p, keep=keep, rescale_sites=rescale, slice=use_slice, real_state=(np.dtype(dt).kind != "c"))

            def t_ptr(keep=keep, keep_arg=keep_arg, rescale=rescale, orient=False):
                a = mk("a")
                rho = a.partial_trace_to_mpo(keep_arg, rescale_sites=rescale)
                ref = _ptrace(np.outer(da, da.conj()), phys, keep)
                if not isinstance(rho, qtn.MatrixProductOperator):
                    return f"type {type(rho).__name__}"
                want_sites = list(range(len(keep))) if rescale else sorted(keep)
                if list(rho.gen_sites_present()) != want_sites:
                    return f"sites {list(rho.gen_sites_present())} != {want_sites}"
                if rho.L != (len(keep) if rescale else L):
                    return f"L {rho.L}"
                got = np.asarray(rho.to_dense())
                e = _close(got, ref, tol, "partial_trace_to_mpo")
                if orient:
                    return e
                if e and got.shape == ref.shape and _close(got, ref.T, tol) is None:
                    e = None  # orientation is the business of the next contract
                return e or _close(vec(a), da, tol, "receiver changed")

            cx.check("MPS.partial_trace_to_mpo(keep).to_dense() == partial trace of |a><a| up to transposition", pk, t_ptr)
            if np.dtype(dt).kind == "c":
                cx.check("MPS.partial_trace_to_mpo(keep).to_dense() has rows = upper = ket side (not the transpose)", pk,
                         lambda t_ptr=t_ptr: t_ptr(orient=True))

        if not cyclic:
            w = int(rng.integers(1, min(L, 3) + 1))
            where = [int(s) for s in rng.permutation(L)[:w]]
            normalized = bool(rng.integers(2))

            def t_ptdc(where=where, normalized=normalized):
                a = mk("a")
                arg = where[0] if (len(where) == 1 and rep % 2) else tuple(where)
                got = a.partial_trace_to_dense_canonical(arg, normalized=normalized)
                full = np.outer(da, da.conj())
                # reference in the order of `where`: permute the sorted-keep result
                ks = sorted(where)
                R = _ptrace(full, phys, ks).reshape([phys[s] for s in ks] * 2)
                perm = [ks.index(s) for s in where]
                R = R.transpose(perm + [len(ks) + q for q in perm])
                dk = int(np.prod([phys[s] for s in where]))
                R = R.reshape(dk, dk)
                if normalized:
                    R = R / np.trace(R)
                e = _close(got, R, tol, "partial_trace_to_dense_canonical")
                return e or _close(vec(a), da, tol, "state changed (only the gauge may move)")

            cx.check("MPS.partial_trace_to_dense_canonical(where) == dense reduced state in the order of `where`",
                     dict(p, where=where, normalized=normalized), t_ptdc)

            if L >= 2:
                sz = int(rng.integers(1, L))

                def t_bss(sz=sz):
                    a = mk("a")
                    a.normalize()
                    s_ref = np.linalg.svd((da / na).reshape(int(np.prod(phys[:sz])), -1), compute_uv=False)
                    kd = np.asarray(a.bipartite_schmidt_state(sz, get="ket-dense"))
                    n = int(round(np.sqrt(kd.size)))
                    if kd.shape != (n * n, 1):
                        return f"ket-dense shape {kd.shape}"
                    sv = np.sort(np.abs(np.diag(kd.reshape(n, n))))[::-1]
                    if np.max(np.abs(kd.reshape(n, n) - np.diag(np.diag(kd.reshape(n, n))))) > tol:
                        return "Schmidt ket is not diagonal"
                    k = min(len(sv), len(s_ref))
                    if np.max(np.abs(sv[:k] - s_ref[:k])) > 10 * tol or np.any(s_ref[k:] > 10 * tol) or np.any(sv[k:] > 10 * tol):
                        return f"Schmidt values {sv[:4]} != dense SVD {s_ref[:4]}"
                    rd = np.asarray(a.bipartite_schmidt_state(sz, get="rho-dense"))
                    return _close(rd, kd @ kd.conj().T, tol, "rho-dense = ket ket^dag")

                cx.check("MPS.bipartite_schmidt_state(sz_a): diagonal ket of the dense Schmidt values", dict(p, sz_a=sz), t_bss)


# ----------------------------------------------------------------------------------------------
# driver 4: every registered 1D compression method
# ----------------------------------------------------------------------------------------------

EXPECTED_METHODS = ("direct", "dm", "zipup", "zipup-first", "zipup-oversample", "sdc", "sdc-oversample", "src", "src-first",
                    "src-oversample", "srcmps", "srcmps-first", "srcmps-oversample", "fit", "fit-zipup", "fit-projector",
                    "fit-oversample")


def _site_groups(tn, site_tags):
    """outer labels of the network grouped by site tag (sorted inside a site)"""
    outer = set(tn.outer_inds())
    groups = []
    for tag in site_tags:
        ix = set()
        for t in tn.select_tensors(tag):
            ix |= set(t.inds) & outer
        groups.append(sorted(ix))
    return groups


def _cut_tails(dense_sites, chis):
    """for an array with one axis per site: list over cuts k of the discarded weight sum_{j>=chi_k} sigma_j^2 of the
    matricisation (sites <= k | sites > k), and the numerical ranks"""
    shp = dense_sites.shape
    tails, ranks = [], []
    for k in range(len(shp) - 1):
        m = dense_sites.reshape(int(np.prod(shp[:k + 1])), -1)
        s = np.linalg.svd(m, compute_uv=False)
        ranks.append(int(np.sum(s > 1e-10 * max(s[0], 1e-300))))
        if chis is not None:
            tails.append(float(np.sum(s[chis[k]:] ** 2)))
    return tails, ranks


def _chi_in(tn, site_tags):
    """bond dimension of the *representation* across each cut: product of the sizes of all inner labels joining a site
    <= k with a site > k (long-range bonds cross every cut they span)"""
    pos = {tag: i for i, tag in enumerate(site_tags)}
    chi = [1] * (len(site_tags) - 1)
    for ix, tids in tn.ind_map.items():
        if len(tids) != 2:
            continue
        ss = []
        for tid in tids:
            t = tn.tensor_map[tid]
            ss.append([pos[g] for g in t.tags if g in pos][0])
        lo, hi = min(ss), max(ss)
        for k in range(lo, hi):
            chi[k] *= tn.ind_size(ix)
    return chi


def _bond_sizes_1d(tn, site_tags):
    out = []
    for a, b in zip(site_tags[:-1], site_tags[1:]):
        ta, tb = tn[a], tn[b]
        shared = [ix for ix in ta.inds if ix in tb.inds]
        out.append(int(np.prod([ta.ind_size(ix) for ix in shared])) if shared else 1)
    return out


def _method_tol(method, dt):
    single = _is_single(dt)
    if method.startswith("fit"):
        return 5e-3 if single else 1e-5
    if method.startswith("src"):
        return 1e-2 if single else 1e-5
    if method == "dm":
        return 5e-3 if single else 1e-6
    return 3e-3 if single else 1e-7


def _compress_inputs(qtn, rng, kind, L, dt):
    """build one input network of the given kind; returns (tn, description dict)"""
    phys = _dims_choices(rng, L, 3, allow_one=bool(rng.integers(3) == 0))
    if kind == "mps":
        arrs = _chain(rng, L, phys, _dims_choices(rng, L, 5), dt, False, False)
        tn = qtn.MatrixProductState(_to_layout(arrs, "lrp", False, False))
    elif kind == "mpo":
        phys = [min(d, 2) for d in phys]
        arrs = _chain(rng, L, phys, _dims_choices(rng, L, 5), dt, False, True)
        tn = qtn.MatrixProductOperator(_to_layout(arrs, "lrud", False, True))
    elif kind == "mps+same":
        arrs = _chain(rng, L, phys, _dims_choices(rng, L, 3), dt, False, False)
        a = qtn.MatrixProductState(_to_layout(arrs, "lrp", False, False))
        tn = a + a * 0.5
    elif kind == "mpo*mps":
        a = qtn.MatrixProductState(_to_layout(_chain(rng, L, phys, _dims_choices(rng, L, 3), dt, False, False), "lrp", False, False))
        A = qtn.MatrixProductOperator(_to_layout(_chain(rng, L, phys, _dims_choices(rng, L, 3), dt, False, True), "lrud", False, True))
        tn = A.apply(a, contract=False)
    elif kind == "mpo*mpo":
        phys = [min(d, 2) for d in phys]
        A = qtn.MatrixProductOperator(_to_layout(_chain(rng, L, phys, _dims_choices(rng, L, 2), dt, False, True), "lrud", False, True))
        B = qtn.MatrixProductOperator(_to_layout(_chain(rng, L, phys, _dims_choices(rng, L, 2), dt, False, True), "lrud", False, True))
        tn = B.gate_upper_with_op_lazy(A)
    elif kind == "submpo*mps":
        a = qtn.MatrixProductState(_to_layout(_chain(rng, L, phys, _dims_choices(rng, L, 3), dt, False, False), "lrp", False, False))
        m = int(rng.integers(1, L + 1))
        sites = [int(s) for s in rng.permutation(L)[:m]]
        sp = [phys[s] for s in sites]
        M = _rnd(rng, (int(np.prod(sp)),) * 2, dt)
        S = qtn.MatrixProductOperator.from_dense(M, dims=sp, sites=sites, L=L)
        tn = a.gate_with_op_lazy(S)
    else:
        raise ValueError(kind)
    return tn, phys


_COMPRESS_KINDS = ("mps", "mpo", "mps+same", "mpo*mps", "mpo*mpo", "submpo*mps")


@driver("C09", "compress-every-method", chunks=12, timeout=400,
        bound="every key of the dispatcher table of tensor_network_1d_compress (17 methods) x sweep_reverse x inputs "
              "{MPS, MPO, a + a/2 (rank-deficient sum), lazy MPO.MPS, lazy MPO.MPO, lazy sub-MPO.MPS with long-range "
              "bonds}, open chains L 1..5 (thorough 1..7), site-dependent physical dims 1..3 and bond dims 1..5, "
              "4 dtypes, caps {None where accepted, Schmidt rank, input bond dimension chi, chi+3, rank/2, 1}, cutoff {default, 0}, normalize, "
              "equalize_norms {False, True, 1.0}, stored input exponent, in place / copy: (i) equality with the input "
              "(method-dependent tolerance: direct/zipup/sdc 1e-7, dm 1e-6, src/fit 1e-5; single precision 3e-3..1e-2) when the "
              "cap admits the bond dimension of the input representation (direct / dm: the Schmidt ranks), (ii) every bond <= cap, (iii) canonical centre at the first site (last if "
              "sweep_reverse; for fit per the last sweep direction) by independent isometry defects, (iv) Eckart-Young lower "
              "bound for all methods and for 'direct' the upper bound sqrt(sum of discarded squared singular values of the "
              "dense input across each cut)")
def compress_methods(cx):
    import quimb.tensor as qtn

    _serial_cotengra()
    from quimb.tensor.tn1d import compress as cmod

    rng = cx.rng
    table = dict(cmod._TN1D_COMPRESS_METHODS)
    if cx.chunk == 0:
        cx.check("dispatcher table of tensor_network_1d_compress lists the documented methods", dict(methods=sorted(table)),
                 lambda: None if set(EXPECTED_METHODS) <= set(table) else f"missing {sorted(set(EXPECTED_METHODS) - set(table))}",
                 nontrivial=False)
    methods = sorted(table)
    Ls = (1, 2, 2, 3, 3, 4, 4, 5, 5) if cx.quick else (1, 2, 2, 3, 3, 4, 4, 5, 5, 6, 6, 7)
    reps = 10 if cx.quick else 120
    for method, kind, reverse, rep in itertools.product(methods, _COMPRESS_KINDS, (False, True), range(reps)):
        if not cx.mine():
            continue
        if cx.out_of_time():
            cx.inconclusive.append("compress-every-method: time budget exhausted")
            return
        L = int(Ls[int(rng.integers(len(Ls)))])
        dt = DTYPES[int(rng.integers(4))]
        seed = int(rng.integers(1 << 30))
        capmode = ("rank", "chi", "none", "big", "half", "one")[int(rng.integers(6))]
        cutoff = (None, 0.0)[int(rng.integers(2))]
        normalize = bool(rng.integers(4) == 0)
        eqn = (False, False, True, 1.0)[int(rng.integers(4))]
        inplace = bool(rng.integers(2))
        exponent = (0.0, 0.0, 0.0, 0.9)[int(rng.integers(4))]
        p = dict(method=method, kind=kind, sweep_reverse=reverse, L=L, dtype=dt, seed=seed, cap=capmode,
                 cutoff="default" if cutoff is None else cutoff, normalize=normalize, equalize_norms=str(eqn), inplace=inplace,
                 exponent=exponent, rep=rep)

        def thunk(method=method, kind=kind, reverse=reverse, L=L, dt=dt, seed=seed, capmode=capmode, cutoff=cutoff,
                  normalize=normalize, eqn=eqn, inplace=inplace, exponent=exponent):
            r2 = np.random.default_rng(seed)
            tn, phys = _compress_inputs(qtn, r2, kind, L, dt)
            if exponent:
                tn.exponent = exponent
            site_tags = [f"I{i}" for i in range(L)]
            groups = _site_groups(tn, site_tags)
            x_in = np.asarray(tn.to_dense(*groups)).astype(np.complex128)
            nin = float(np.linalg.norm(x_in))
            _, ranks = _cut_tails(x_in, None)
            rank = max(ranks)
            chi_in = max(_chi_in(tn, site_tags))
            needs_cap = method.split("-")[0] in ("sdc", "src", "srcmps") or method.startswith("fit")
            if capmode == "none" and needs_cap:
                capmode = "chi"
            cap = {"rank": rank, "chi": chi_in, "none": None, "big": chi_in + 3, "half": max(1, rank // 2), "one": 1}[capmode]
            opts = dict(method=method, max_bond=cap, sweep_reverse=reverse, normalize=normalize, equalize_norms=eqn,
                        inplace=inplace)
            if cutoff is not None:
                opts["cutoff"] = cutoff
            if "src" in method or method in ("fit", "fit-oversample"):
                opts["seed"] = seed % 1000
            tn0 = tn.copy()
            out = qtn.tensor_network_1d_compress(tn, **opts)
            if inplace and out is not tn:
                return "inplace=True returned a different object"
            if not inplace:
                x_again = np.asarray(tn.to_dense(*groups)).astype(np.complex128)
                if _close(x_again, x_in, _tol(dt)) is not None or tn.num_tensors != tn0.num_tensors:
                    return "inplace=False modified the input network"
            # one tensor per site, same outer labels
            if out.num_tensors != L:
                return f"{out.num_tensors} tensors for {L} sites"
            if sorted(out.outer_inds()) != sorted(sum(groups, [])):
                return f"outer labels changed: {sorted(set(out.outer_inds()) ^ set(sum(groups, [])))[:6]}"
            chis = _bond_sizes_1d(out, site_tags)
            # (ii) cap
            if cap is not None and max(chis) > cap:
                return f"bond sizes {chis} exceed max_bond={cap}"
            x_out = np.asarray(out.to_dense(*groups)).astype(np.complex128)
            if not np.all(np.isfinite(x_out)):
                return "non-finite output"
            mtol = _method_tol(method, dt)
            if cutoff is None:
                # the dispatcher's default cutoff (1e-10, relative squared weight) may discard up to ~1e-5 of the norm
                # per bond even when the cap admits everything: "identity" then only holds to that accuracy
                mtol = max(mtol, 1e-4)
            ref = x_in / nin if normalize else x_in
            if normalize:
                nout = float(np.linalg.norm(x_out))
                if abs(nout - 1) > 10 * mtol:
                    return f"normalize=True: output norm {nout}"
                if abs(float(getattr(out, "exponent", 0.0))) > 0:
                    return f"normalize=True: exponent {out.exponent} left on the output"
            if eqn is True and abs(float(out.exponent)) > 1e-12:
                return f"equalize_norms=True: exponent {out.exponent} not redistributed"
            err = float(np.linalg.norm(x_out - ref)) / float(np.linalg.norm(ref))
            # "nothing needs truncating": the cap admits the bond dimension of the input representation (every method), or
            # the Schmidt ranks of the dense input for the two methods that truncate optimally in a canonical gauge
            exact_expected = cap is None or cap >= chi_in or (method in ("direct", "dm") and cap >= rank)
            # (i) identity when nothing needs truncating
            if exact_expected and not normalize and err > mtol:
                return (f"nothing needs truncating (Schmidt ranks {ranks}, input bond dimension {chi_in}, cap {cap}) but "
                        f"relative error {err:.3e} > {mtol:.1e}")
            if exact_expected and normalize and err > 10 * mtol:
                return f"normalised output differs from input/|input| by {err:.3e}"
            # (iv) Eckart-Young: no output with these bond sizes can be closer than the best rank-chi approximation of a cut
            tails, _ = _cut_tails(x_in, chis)
            if not normalize:
                lower = np.sqrt(max(tails)) / nin if tails else 0.0
                if err < lower * (1 - 1e-6) - 10 * mtol:
                    return f"relative error {err:.3e} below the Eckart-Young bound {lower:.3e} for bond sizes {chis}: the dense reference or the bond sizes are inconsistent"
                if method == "direct":
                    upper = np.sqrt(sum(tails)) / nin
                    if err > upper * (1 + 1e-6) + mtol:
                        return (f"direct: relative error {err:.3e} > sqrt(sum of discarded squared singular values)/|x| = "
                                f"{upper:.3e} (bond sizes {chis})")
            # (iii) canonical form
            if eqn is False:
                centre = L - 1 if reverse else 0
                ctol = 2e-3 if _is_single(dt) else 1e-7
                e = _canon_msg(_View(out, site_tags), centre, ctol)
                if e:
                    return e
            return None

        cx.check("tensor_network_1d_compress(method): identity when untruncated, bond <= cap, canonical centre, error bounds",
                 p, thunk)


class _View:
    """minimal adaptor so that _site_data / _iso_defects work on any 1D-like network with one tensor per site"""

    def __init__(self, tn, site_tags):
        self.tn, self.site_tags, self.L, self.cyclic = tn, site_tags, len(site_tags), False

    def __getitem__(self, i):
        return self.tn[self.site_tags[i]]


# ----------------------------------------------------------------------------------------------
# driver 5: compression sweeps of flat MPS / MPO, MPO-MPS gating with compression, bond expansion
# ----------------------------------------------------------------------------------------------

def _flat_dense_sites(tn, L, op):
    """dense array with one axis per site (operator: upper and lower label of a site fused, upper major)"""
    if op:
        groups = [[f"k{i}", f"b{i}"] for i in range(L)]
    else:
        groups = [[f"k{i}"] for i in range(L)]
    return np.asarray(tn.to_dense(*groups)).astype(np.complex128)


@driver("C09", "flat-compress-and-gate", chunks=8, timeout=300,
        bound="MPS and MPO, L 1..6, site-dependent physical dims 1..3 (MPO 1..2) and bond dims 1..5, 4 dtypes; "
              "compress(form in {None, left, right, flat, every int}) open and (value / cap only) periodic L>=3, "
              "left_compress / right_compress on sub-ranges, compress_site, caps {None, rank, rank+2, rank/2, 1}, cutoff "
              "{0, 1e-12, default}; gate_with_mpo / gate_with_submpo / mps_gate_with_mpo_* with 9 methods, transpose, "
              "in place; apply(compress=True), add(compress=True), expand_bond_dimension; reference: dense arrays, "
              "dense SVD tails across each cut, independent isometry defects")
def flat(cx):
    import quimb.tensor as qtn

    _serial_cotengra()
    from quimb.tensor.tn1d import compress as cmod

    rng = cx.rng
    reps = 6 if cx.quick else 60
    for L, op, cyclic, rep in itertools.product(range(1, 7), (False, True), (False, True), range(reps)):
        if cyclic and L < 3:
            continue
        if not cx.mine():
            continue
        if cx.out_of_time():
            cx.inconclusive.append("flat-compress-and-gate: time budget exhausted")
            return
        dt = DTYPES[int(rng.integers(4))]
        tol = _tol(dt, 30)
        phys = _dims_choices(rng, L, 2 if op else 3, allow_one=bool(rng.integers(3) == 0))
        bonds = _dims_choices(rng, L, 5)
        arrs = _chain(rng, L, phys, bonds, dt, cyclic, op)
        form = [None, "left", "right", "flat", int(rng.integers(L)), int(rng.integers(L))][int(rng.integers(6))]
        capmode = ("none", "rank", "big", "half", "one")[int(rng.integers(5))]
        cutoff = (0.0, 1e-12, None)[int(rng.integers(3))]
        p = dict(L=L, op=op, cyclic=cyclic, dtype=dt, phys=phys, bonds=bonds, rep=rep, form=str(form), cap=capmode,
                 cutoff="default" if cutoff is None else cutoff)

        def mk(arrs=arrs, cyclic=cyclic, op=op):
            if op:
                return qtn.MatrixProductOperator(_to_layout(arrs, "lrud", cyclic, True))
            return qtn.MatrixProductState(_to_layout(arrs, "lrp", cyclic, False))

        def prep(mk=mk, L=L, op=op, capmode=capmode, cutoff=cutoff):
            x = mk()
            d_in = _flat_dense_sites(x, L, op)
            _, ranks = _cut_tails(d_in, None)
            rank = max(ranks) if ranks else 1
            cap = {"none": None, "rank": rank, "big": rank + 2, "half": max(1, rank // 2), "one": 1}[capmode]
            opts = {}
            if cap is not None:
                opts["max_bond"] = cap
            if cutoff is not None:
                opts["cutoff"] = cutoff
            return x, d_in, ranks, rank, cap, opts

        def judge(x, d_in, ranks, rank, cap, centre, bound, L=L, dt=dt, tol=tol, cyclic=cyclic, bonds_checked=None, op=op,
                  exact_from=None):
            """common post-conditions; centre None = no canonical promise; bound: apply the sqrt(sum tails) bound"""
            d_out = _flat_dense_sites(x, L, op)
            if d_out.shape != d_in.shape:
                return f"shape {d_out.shape} != {d_in.shape}"
            if L == 1:
                return _close(d_out, d_in, tol, "single site")
            if cyclic and L == 2:
                return None
            chis = list(x.bond_sizes())
            sel = range(len(chis)) if bonds_checked is None else bonds_checked
            if cap is not None and any(chis[k] > cap for k in sel):
                return f"bond sizes {chis} exceed max_bond={cap} on bonds {list(sel)}"
            nin = float(np.linalg.norm(d_in))
            err = float(np.linalg.norm(d_out - d_in)) / nin
            if cyclic:
                # open-chain Schmidt ranks do not apply; only: untruncated => unchanged
                if cap is None and err > 1e-2 * (1 if _is_single(dt) else 1e-4):
                    return f"periodic, no cap: relative error {err:.3e}"
                return None
            # exactness is promised from the Schmidt rank on when the truncation happens in a canonical gauge, else only
            # from the bond dimension of the representation on (exact_from)
            exact = cap is None or cap >= (rank if exact_from is None else exact_from)
            lim = 3e-3 if _is_single(dt) else 3e-6   # cutoff <= 1e-10 relative discarded weight
            if exact and err > lim:
                return f"nothing needs truncating (ranks {ranks}, cap {cap}) but relative error {err:.3e}"
            tails, _ = _cut_tails(d_in, chis[:L - 1])
            lower = np.sqrt(max(tails)) / nin
            if err < lower * (1 - 1e-6) - lim:
                return f"relative error {err:.3e} below the Eckart-Young bound {lower:.3e} for bonds {chis}"
            if bound:
                upper = np.sqrt(sum(tails)) / nin
                if err > upper * (1 + 1e-6) + lim:
                    return f"relative error {err:.3e} > sqrt(sum discarded sigma^2)/|x| = {upper:.3e} (bonds {chis})"
            if centre is not None:
                return _canon_msg(x, centre, 2e-3 if _is_single(dt) else 1e-7)
            return None

        # ---- compress(form) ----
        def t_compress(form=form):
            x, d_in, ranks, rank, cap, opts = prep()
            chi0 = max(x.bond_sizes()) if L > 1 and not (cyclic and L == 2) else 1
            r = x.compress(form, **opts)
            if r is not None and r is not x:
                return "compress() returned a different object"
            centre = None if (form == "flat" or cyclic) else (0 if form in (None, "right") else (L - 1 if form == "left" else form))
            return judge(x, d_in, ranks, rank, cap, centre, bound=(form != "flat" and not cyclic),
                         exact_from=chi0 if form == "flat" else None)

        cx.check("compress(form): unchanged when untruncated, bonds <= cap, promised canonical centre, error <= sqrt(sum tails)",
                 p, t_compress, nontrivial=L > 1)

        if not op and not cyclic and L >= 2:
            def t_compress_bra(form=form):
                x, d_in, ranks, rank, cap, opts = prep()
                bra = x.H
                if form == "flat" or isinstance(form, int):
                    return None
                x.compress(form, bra=bra, **opts)
                return _close(_flat_dense_sites(bra, L, False), _flat_dense_sites(x, L, False).conj(), tol, "bra mirrors the ket")

            cx.check("MPS.compress(form, bra=bra) keeps bra == conj(ket)", p, t_compress_bra,
                     nontrivial=form in (None, "left", "right"))

        # ---- partial sweeps ----
        if not cyclic and L >= 2:
            lo = int(rng.integers(0, L - 1))
            hi = int(rng.integers(lo + 1, L))
            for side in ("left", "right"):
                def t_partial(side=side, lo=lo, hi=hi):
                    x, d_in, ranks, rank, cap, opts = prep()
                    before = list(x.bond_sizes())
                    if side == "left":
                        x.right_canonize()      # centre at 0: left_compress then truncates in a canonical gauge
                        x.left_compress(start=lo, stop=hi, **opts)
                    else:
                        x.left_canonize()
                        x.right_compress(start=hi, stop=lo, **opts)
                    after = list(x.bond_sizes())
                    # bonds lo..hi-1 were swept; the truncation happens in a canonical gauge only when the sweep starts at the
                    # centre (site 0 / L-1): otherwise exactness is promised from the bond dimension on only
                    swept = list(range(lo, hi))
                    at_centre = (lo == 0) if side == "left" else (hi == L - 1)
                    e = judge(x, d_in, ranks, rank, cap, None, bound=at_centre, bonds_checked=swept,
                              exact_from=None if at_centre else max(before))
                    if e:
                        return e
                    for k in range(L - 1):
                        if k not in swept and after[k] > min(before[k], max(after)) and after[k] != before[k]:
                            return f"bond {k} outside the swept range changed: {before[k]} -> {after[k]}"
                    return None

                cx.check(f"{side}_compress(start, stop): unchanged when untruncated, swept bonds <= cap", dict(p, lo=lo, hi=hi),
                         t_partial)

            site = int(rng.integers(L))

            def t_csite(site=site, optimal=False):
                x, d_in, ranks, rank, cap, opts = prep()
                chi0 = max(x.bond_sizes())
                info = {}
                x.compress_site(site, info=info, **opts)
                adj = [k for k in (site - 1, site) if 0 <= k < L - 1]
                e = judge(x, d_in, ranks, rank, cap, site, bound=optimal, bonds_checked=adj, exact_from=None if optimal else chi0)
                if e:
                    return e
                co = info.get("cur_orthog")
                if co is not None and tuple(co) != (site, site):
                    return f"info['cur_orthog'] = {co} after compress_site({site})"
                return None

            cx.check("compress_site(i): unchanged when cap >= bond dimension, adjacent bonds <= cap, canonical around i",
                     dict(p, site=site), t_csite)
            cx.check("compress_site(i) truncates in the canonical gauge: exact from the Schmidt rank on, error <= sqrt(sum tails)",
                     dict(p, site=site), lambda t_csite=t_csite: t_csite(optimal=True))

        # ---- bond expansion ----
        if L >= 2 and not (cyclic and L == 2):
            newb = int(rng.integers(1, 8))

            def t_expand(newb=newb):
                x = mk()
                d_in = _flat_dense_sites(x, L, op)
                before = list(x.bond_sizes())
                ip = bool(rep % 2)
                if op:
                    r = x.expand_bond_dimension(newb, inplace=ip)
                else:
                    bra = x.H
                    r = x.expand_bond_dimension(newb, bra=bra, inplace=ip)
                if ip and r is not x:
                    return "inplace=True returned a new object"
                if not ip and list(x.bond_sizes()) != before:
                    return "inplace=False changed the receiver"
                after = list(r.bond_sizes())
                if after != [max(b, newb) for b in before]:
                    return f"bond sizes {before} -> {after}, expected at least {newb}"
                e = _close(_flat_dense_sites(r, L, op), d_in, tol, "expand_bond_dimension changed the value")
                if e:
                    return e
                if not op and ip:
                    return _close(_flat_dense_sites(bra, L, False), d_in.conj(), tol, "bra not mirrored")
                return None

            cx.check("expand_bond_dimension(n, rand_strength=0): value unchanged, every bond = max(old, n)",
                     dict(p, new_bond=newb, inplace=bool(rep % 2)), t_expand)

        # ---- gating an MPS with an MPO and compressing ----
        if not op and not cyclic and L >= 2:
            bA = _dims_choices(rng, L, 3)
            aA = _chain(rng, L, phys, bA, dt, False, True)
            dA = _chain_dense(aA).astype(np.complex128)
            da = _chain_dense(arrs).astype(np.complex128).reshape(-1)
            gm = ("direct", "dm", "zipup", "zipup-first", "fit", "src", "sdc", "srcmps", "fit-zipup")[int(rng.integers(9))]
            transpose = bool(rng.integers(2))
            inplace = bool(rng.integers(2))
            gcap = ("none", "chi", "big", "half")[int(rng.integers(4))]
            seed = int(rng.integers(1000))
            pg = dict(p, method=gm, transpose=transpose, inplace=inplace, gcap=gcap, bondsA=bA)

            def t_gate(gm=gm, transpose=transpose, inplace=inplace, gcap=gcap, aA=aA, dA=dA, da=da, seed=seed, bA=bA):
                a = mk()
                A = qtn.MatrixProductOperator(_to_layout(aA, "lrud", False, True))
                chi = max(i * j for i, j in zip(a.bond_sizes(), A.bond_sizes()))
                needs_cap = gm in ("src", "sdc", "srcmps") or gm.startswith("fit")
                cap = {"none": chi if needs_cap else None, "chi": chi, "big": chi + 3, "half": max(1, chi // 2)}[gcap]
                ref = (dA.T if transpose else dA) @ da
                opts = dict(max_bond=cap, cutoff=0.0 if gm not in ("src", "srcmps") else 0.0)
                if gm in ("src", "srcmps", "fit"):
                    opts["seed"] = seed
                if inplace:
                    r = a.gate_with_mpo_(A, method=gm, transpose=transpose, **opts)
                    if r is not a:
                        return "gate_with_mpo_ returned a new object"
                else:
                    r = a.gate_with_mpo(A, method=gm, transpose=transpose, **opts)
                    e = _close(a.to_dense().reshape(-1), da, tol, "receiver changed")
                    if e:
                        return e
                e = _close(A.to_dense(), dA, tol, "operator changed (inplace_mpo=False)")
                if e:
                    return e
                if not isinstance(r, qtn.MatrixProductState):
                    return f"type {type(r).__name__}"
                if sorted(r.outer_inds()) != [f"k{i}" for i in range(L)]:
                    return f"outer labels {r.outer_inds()}"
                chis = list(r.bond_sizes())
                if cap is not None and max(chis) > cap:
                    return f"bonds {chis} exceed cap {cap}"
                got = np.asarray(r.to_dense()).reshape(-1).astype(np.complex128)
                err = float(np.linalg.norm(got - ref)) / max(float(np.linalg.norm(ref)), 1e-300)
                mt = _method_tol(gm, dt)
                if (cap is None or cap >= chi) and err > mt:
                    return f"cap {cap} admits the product bond dimension {chi} but relative error {err:.3e} > {mt:.1e}"
                tails, _ = _cut_tails(ref.reshape(phys), chis)
                lower = np.sqrt(max(tails)) / max(float(np.linalg.norm(ref)), 1e-300)
                if err < lower * (1 - 1e-6) - 10 * mt:
                    return f"error {err:.3e} below Eckart-Young {lower:.3e}"
                if gm == "direct":
                    upper = np.sqrt(sum(tails)) / max(float(np.linalg.norm(ref)), 1e-300)
                    if err > upper * (1 + 1e-6) + mt:
                        return f"direct: error {err:.3e} > sqrt(sum tails) {upper:.3e}"
                return _canon_msg(r, 0, 2e-3 if _is_single(dt) else 1e-7)

            cx.check("MPS.gate_with_mpo(A, method): == A a (A^T a if transpose) when the cap admits it, bonds <= cap, right canonical",
                     pg, t_gate)

            fn = ("lazy", "direct", "dm", "zipup", "zipup_first", "fit", "autofit", "projector")[int(rng.integers(8))]

            def t_fn(fn=fn, aA=aA, dA=dA, da=da):
                a = mk()
                A = qtn.MatrixProductOperator(_to_layout(aA, "lrud", False, True))
                chi = max(i * j for i, j in zip(a.bond_sizes(), A.bond_sizes()))
                f = getattr(cmod, "mps_gate_with_mpo_" + fn)
                if fn == "lazy":
                    r = f(a, A)
                elif fn == "autofit":
                    r = f(a, A, max_bond=chi)
                elif fn == "fit":
                    r = f(a, A, max_bond=chi)
                else:
                    r = f(a, A, max_bond=chi, cutoff=0.0)
                got = np.asarray(r.to_dense([f"k{i}" for i in range(L)])).reshape(-1).astype(np.complex128)
                ref = dA @ da
                err = float(np.linalg.norm(got - ref)) / max(float(np.linalg.norm(ref)), 1e-300)
                mt = {"lazy": _tol(dt, 10), "autofit": 1e-2 if _is_single(dt) else 1e-4,
                      "projector": 1e-2 if _is_single(dt) else 1e-5}.get(fn, _method_tol(fn.replace("_", "-"), dt))
                if err > mt:
                    return f"mps_gate_with_mpo_{fn} with max_bond = product bond dimension {chi}: relative error {err:.3e} > {mt:.1e}"
                if fn != "lazy" and max(r.bond_sizes()) > chi:
                    return f"bonds {r.bond_sizes()} exceed {chi}"
                e = _close(a.to_dense().reshape(-1), da, tol, "state changed") or _close(A.to_dense(), dA, tol, "operator changed")
                return e

            cx.check("mps_gate_with_mpo_<method>(mps, mpo, max_bond=chi) == A a", dict(p, fn=fn, bondsA=bA), t_fn)

            # apply(compress=True) / add(compress=True)
            acap = ("none", "chi", "half")[int(rng.integers(3))]

            def t_apply_c(aA=aA, dA=dA, da=da, acap=acap):
                a = mk()
                A = qtn.MatrixProductOperator(_to_layout(aA, "lrud", False, True))
                chi = max(i * j for i, j in zip(a.bond_sizes(), A.bond_sizes()))
                cap = {"none": None, "chi": chi, "half": max(1, chi // 2)}[acap]
                r = A.apply(a, compress=True, max_bond=cap, cutoff=0.0)
                if cap is not None and max(r.bond_sizes()) > cap:
                    return f"bonds {r.bond_sizes()} exceed cap {cap}"
                ref = dA @ da
                got = np.asarray(r.to_dense()).reshape(-1)
                err = float(np.linalg.norm(got - ref)) / max(float(np.linalg.norm(ref)), 1e-300)
                lim = 3e-3 if _is_single(dt) else 1e-7
                if (cap is None or cap >= chi) and err > lim:
                    return f"apply(compress=True) untruncated: relative error {err:.3e}"
                tails, _ = _cut_tails(ref.reshape(phys), list(r.bond_sizes()))
                upper = np.sqrt(sum(tails)) / max(float(np.linalg.norm(ref)), 1e-300)
                if err > upper * (1 + 1e-6) + lim:
                    return f"apply(compress=True): error {err:.3e} > sqrt(sum tails) {upper:.3e}"
                B = qtn.MatrixProductOperator(_to_layout(aA, "lrud", False, True))
                r2 = A.apply(B, compress=True, max_bond=cap, cutoff=0.0)
                if cap is not None and max(r2.bond_sizes()) > cap:
                    return f"op-op bonds {r2.bond_sizes()} exceed cap {cap}"
                if cap is None:
                    return _close(r2.to_dense(), dA @ dA, 30 * tol, "A.apply(A, compress=True)")
                return None

            cx.check("MPO.apply(x, compress=True, max_bond): bonds <= cap, == dense product when untruncated, error bound",
                     dict(p, acap=acap, bondsA=bA), t_apply_c)

            bb = _dims_choices(rng, L, 3)
            ab = _chain(rng, L, phys, bb, dt, False, False)
            db = _chain_dense(ab).astype(np.complex128).reshape(-1)

            def t_add_c(ab=ab, db=db, da=da):
                a = mk()
                b = qtn.MatrixProductState(_to_layout(ab, "lrp", False, False))
                r = a.add_MPS(b, compress=True, cutoff=1e-12)
                e = _close(np.asarray(r.to_dense()).reshape(-1), da + db, 30 * tol, "add_MPS(compress=True)")
                if e:
                    return e
                r2 = a.add_MPS(a, compress=True, cutoff=1e-12 if not _is_single(dt) else 1e-6)
                e = _close(np.asarray(r2.to_dense()).reshape(-1), 2 * da, 30 * tol, "a + a compressed")
                if e:
                    return e
                _, ranks = _cut_tails(da.reshape(phys), None)
                if not _is_single(dt) and list(r2.bond_sizes()) != ranks:
                    return f"a + a compressed to bonds {r2.bond_sizes()}, Schmidt ranks of a are {ranks}"
                r3 = a.add_MPS(b, compress=True, max_bond=1, cutoff=0.0)
                if max(r3.bond_sizes()) > 1:
                    return f"max_bond=1 gives {r3.bond_sizes()}"
                return None

            cx.check("add_MPS(compress=True): == dense sum when only zeros are cut, a + a returns to the ranks of a, cap respected",
                     dict(p, bondsB=bb), t_add_c)

            # sub-MPO gating with compression
            m = int(rng.integers(1, L + 1))
            sites = [int(s) for s in rng.permutation(L)[:m]]
            sp = [phys[s] for s in sites]
            M = _rnd(rng, (int(np.prod(sp)),) * 2, dt)
            sm = ("direct", "dm", "zipup", "fit", "lazy")[int(rng.integers(5))]
            srev = bool(rng.integers(2))
            swhere = bool(rng.integers(2))

            def t_sub(sites=sites, sp=sp, M=M, sm=sm, da=da, transpose=transpose, srev=srev, swhere=swhere, inplace=inplace):
                a = mk()
                S = qtn.MatrixProductOperator.from_dense(M, dims=sp, sites=sites, L=L)
                E = _embed(M.astype(np.complex128), phys, sites)
                ref = (E.T if transpose else E) @ da
                info = {}
                opts = {}
                if sm != "lazy":
                    opts = dict(max_bond=64, cutoff=0.0)
                    if sm != "fit":
                        opts["sweep_reverse"] = srev
                kw = dict(where=tuple(sorted(sites))) if swhere else {}
                r = a.gate_with_submpo(S, method=sm, transpose=transpose, info=info, inplace=inplace, **kw, **opts)
                if inplace and r is not a:
                    return "inplace=True returned a new object"
                if not inplace:
                    e = _close(a.to_dense().reshape(-1), da, tol, "receiver changed")
                    if e:
                        return e
                got = np.asarray(r.to_dense([f"k{i}" for i in range(L)])).reshape(-1).astype(np.complex128)
                err = float(np.linalg.norm(got - ref)) / max(float(np.linalg.norm(ref)), 1e-300)
                mt = _method_tol(sm if sm != "lazy" else "direct", dt)
                if err > mt:
                    return f"gate_with_submpo({sm}): relative error {err:.3e} > {mt:.1e}"
                if sm != "lazy":
                    if r.num_tensors != L:
                        return f"{r.num_tensors} tensors"
                    co = info.get("cur_orthog")
                    if co is not None and sm != "fit":
                        lo_, hi_ = (co, co) if isinstance(co, int) else co
                        ld, rd = _iso_defects(r)
                        ct = 2e-3 if _is_single(dt) else 1e-7
                        bad = [i for i in range(lo_) if ld[i] > ct] + [i for i in range(hi_ + 1, L) if rd[i] > ct]
                        if bad:
                            return f"info['cur_orthog'] = {co} but sites {bad} are not isometric towards it"
                return None

            cx.check("MPS.gate_with_submpo(S, method): == embedded operator @ a, recorded centre is true",
                     dict(p, sub_sites=sites, method=sm, transpose=transpose, sweep_reverse=srev, where_given=swhere, inplace=inplace,
                          single_site_region=(len(sites) == 1)), t_sub)


# ----------------------------------------------------------------------------------------------
# driver 6: options of the 1D compressors (sums of networks, sweep sequences, site order, initial guesses)
# ----------------------------------------------------------------------------------------------

@driver("C09", "compress-options", chunks=6, timeout=300,
        bound="fit of a SUM of networks (2-3 terms: MPS, lazy MPO.MPS) with bsz {1, 2, auto}, sweep sequences {R, L, RL, LR}, "
              "4-5 iterations, tn_fit {None, TN_matching guess, method name, option dict}; reversed site_tags, canonize=False, "
              "permute_arrays for {direct, dm, zipup, sdc, src}; open chains L 2..6, 4 dtypes; max_bond >= the sum of the "
              "bond dimensions (identity expected to 1e-5 / single 5e-3), cap, canonical centre as documented")
def compress_options(cx):
    import quimb.tensor as qtn

    _serial_cotengra()

    rng = cx.rng
    reps = 30 if cx.quick else 300
    for L, rep in itertools.product(range(2, 7), range(reps)):
        if not cx.mine():
            continue
        if cx.out_of_time():
            cx.inconclusive.append("compress-options: time budget exhausted")
            return
        dt = DTYPES[int(rng.integers(4))]
        phys = _dims_choices(rng, L, 3, allow_one=bool(rng.integers(3) == 0))
        nterms = int(rng.integers(2, 4))
        seed = int(rng.integers(1 << 30))
        bsz = (1, 2, "auto")[int(rng.integers(3))]
        seq = ("R", "L", "RL", "LR")[int(rng.integers(4))]
        nit = int(rng.integers(4, 6))
        reverse = bool(rng.integers(2))
        guess = ("none", "matching", "str", "dict")[int(rng.integers(4))]
        extra = int(rng.integers(0, 3))
        p = dict(L=L, dtype=dt, phys=phys, nterms=nterms, seed=seed, bsz=str(bsz), sweep_sequence=seq, max_iterations=nit,
                 sweep_reverse=reverse, guess=guess, extra=extra, rep=rep)

        def t_fit_sum(L=L, dt=dt, phys=phys, nterms=nterms, seed=seed, bsz=bsz, seq=seq, nit=nit, reverse=reverse, guess=guess,
                      extra=extra):
            r2 = np.random.default_rng(seed)
            tns, ref, chi = [], 0, 0
            for k in range(nterms):
                arrs = _chain(r2, L, phys, _dims_choices(r2, L, 2), dt, False, False)
                a = qtn.MatrixProductState(_to_layout(arrs, "lrp", False, False))
                da = _chain_dense(arrs).astype(np.complex128).reshape(-1)
                if k == 1:
                    oar = _chain(r2, L, phys, _dims_choices(r2, L, 2), dt, False, True)
                    A = qtn.MatrixProductOperator(_to_layout(oar, "lrud", False, True))
                    tns.append(A.apply(a, contract=False))
                    ref = ref + _chain_dense(oar).astype(np.complex128) @ da
                    chi += max(i * j for i, j in zip(a.bond_sizes(), A.bond_sizes()))
                else:
                    tns.append(a)
                    ref = ref + da
                    chi += max(a.bond_sizes())
            cap = chi + extra
            opts = dict(max_bond=cap, bsz=bsz, sweep_sequence=seq, max_iterations=nit, sweep_reverse=reverse, seed=seed % 1000)
            if bsz in (1, 2):
                opts["cutoff"] = 0.0   # (the dispatcher's default cutoff 1e-10 is rejected by the 1-site sweep)
            if guess == "matching":
                opts["tn_fit"] = qtn.TN_matching(tns[0], max_bond=cap, seed=seed % 1000)
            elif guess == "str":
                opts["tn_fit"] = "zipup"
            elif guess == "dict":
                opts["tn_fit"] = {"method": "direct", "cutoff": 0.0}
            out = qtn.tensor_network_1d_compress(tns, method="fit", **opts)
            if out.num_tensors != L or sorted(out.outer_inds()) != [f"k{i}" for i in range(L)]:
                return f"{out.num_tensors} tensors, outer {out.outer_inds()}"
            chis = _bond_sizes_1d(out, [f"I{i}" for i in range(L)])
            if max(chis) > cap:
                return f"bonds {chis} exceed max_bond {cap}"
            got = np.asarray(out.to_dense([f"k{i}" for i in range(L)])).reshape(-1).astype(np.complex128)
            err = float(np.linalg.norm(got - ref)) / max(float(np.linalg.norm(ref)), 1e-300)
            mt = 5e-3 if _is_single(dt) else 1e-5
            # a 2-site sweep re-splits a pair of sites: the new bond is at most min(chi_left * d_i, d_j * chi_right), so it can
            # never grow next to a site of physical dimension 1; with a low-rank initial guess (built from the first term only)
            # the fixed point is then not the sum -- identity is not required for that class (cap and centre still are)
            stuck = (bsz in (2, "auto")) and guess in ("str", "dict") and (1 in phys)
            if err > mt and not stuck:
                return f"fit of a sum of {nterms} networks with max_bond {cap} >= total bond dimension {chi}: relative error {err:.3e}"
            last = seq[(nit - 1) % len(seq)]
            centre = (L - 1) if last == "R" else 0
            if reverse:
                centre = L - 1 - centre
            return _canon_msg(_View(out, [f"I{i}" for i in range(L)]), centre, 2e-3 if _is_single(dt) else 1e-7)

        cx.check("tensor_network_1d_compress([tn...], method='fit') == dense sum of the networks, bonds <= cap, centre per last sweep",
                 p, t_fit_sum)

        method = ("direct", "dm", "zipup", "sdc", "src", "zipup-first", "srcmps")[int(rng.integers(7))]
        kind = _COMPRESS_KINDS[int(rng.integers(len(_COMPRESS_KINDS)))]
        variant = ("reversed_site_tags", "canonize_false", "permute_custom", "site_tags_explicit")[int(rng.integers(4))]
        po = dict(L=L, dtype=dt, method=method, kind=kind, variant=variant, seed=seed, sweep_reverse=reverse, rep=rep)

        def t_opts(L=L, dt=dt, method=method, kind=kind, variant=variant, seed=seed, reverse=reverse):
            r2 = np.random.default_rng(seed)
            tn, _ = _compress_inputs(qtn, r2, kind, L, dt)
            tags = [f"I{i}" for i in range(L)]
            groups = _site_groups(tn, tags)
            x_in = np.asarray(tn.to_dense(*groups)).astype(np.complex128)
            chi = max(_chi_in(tn, tags))
            opts = dict(method=method, max_bond=chi + 1, cutoff=0.0, sweep_reverse=reverse)
            if method in ("src", "srcmps"):
                opts["seed"] = seed % 1000
            order = tags
            if variant == "reversed_site_tags":
                order = tags[::-1]
                opts["site_tags"] = order
                opts["permute_arrays"] = False
            elif variant == "site_tags_explicit":
                opts["site_tags"] = tuple(tags)
            elif variant == "canonize_false":
                opts["canonize"] = False
            elif variant == "permute_custom" and kind in ("mps", "mps+same", "mpo*mps", "submpo*mps"):
                opts["permute_arrays"] = "prl"
            out = qtn.tensor_network_1d_compress(tn, **opts)
            if out.num_tensors != L:
                return f"{out.num_tensors} tensors"
            x_out = np.asarray(out.to_dense(*groups)).astype(np.complex128)
            err = float(np.linalg.norm(x_out - x_in)) / float(np.linalg.norm(x_in))
            mt = _method_tol(method, dt)
            if err > mt:
                return f"max_bond {chi + 1} > input bond dimension {chi}, cutoff 0: relative error {err:.3e} > {mt:.1e}"
            if max(_bond_sizes_1d(out, tags)) > chi + 1:
                return "cap exceeded"
            if variant != "canonize_false" or method in ("direct", "dm"):
                centre = L - 1 if reverse else 0   # position within `order`
                e = _canon_msg(_View(out, order), centre, 2e-3 if _is_single(dt) else 1e-7)
                if e:
                    return e
            if opts.get("permute_arrays") == "prl":
                for i in range(L):
                    t = out[tags[i]]
                    want = ["p"] + (["r"] if i < L - 1 else []) + (["l"] if i > 0 else [])
                    kinds = []
                    for ix in t.inds:
                        if ix == f"k{i}":
                            kinds.append("p")
                        elif i > 0 and ix in out[tags[i - 1]].inds:
                            kinds.append("l")
                        else:
                            kinds.append("r")
                    if kinds != want:
                        return f"site {i}: stored layout {''.join(kinds)} != requested {''.join(want)}"
            return None

        cx.check("tensor_network_1d_compress options (site_tags order, canonize=False, permute_arrays): identity, cap, centre at "
                 "site_tags[0] / [-1]", po, t_opts)


# ----------------------------------------------------------------------------------------------
# expectation values with one info record threaded through several calls
# ----------------------------------------------------------------------------------------------


@driver("C09", "expectations-with-a-threaded-record", chunks=2, timeout=200,
        bound="open MPS of 3..7 sites, bond <= 4, site dims 2..3, float64 / complex128, NOT canonical and not normalised; one "
              "info dict ({} or a true record after canonicalize_) handed to 2..4 successive calls drawn from "
              "compute_local_expectation(method='canonical', inplace False/True), local_expectation_canonical, "
              "partial_trace_to_dense_canonical, canonicalize: every value equals <psi|G|psi> / <psi|psi> of the dense state "
              "(1e-9) and the state the caller holds is unchanged")
def threaded_record(cx):
    import quimb.tensor as qtn

    rng = cx.rng
    ncase = 40 if cx.quick else 400
    for i in range(ncase):
        L = int(rng.integers(3, 8))
        d = int(rng.integers(2, 4))
        cplx = bool(rng.integers(0, 2))
        start = ("empty", "record")[int(rng.integers(0, 2))]
        ncalls = int(rng.integers(2, 5))
        plan = []
        for _ in range(ncalls):
            kind = ["compute", "compute", "local", "ptrace", "canonicalize"][int(rng.integers(0, 5))]
            k = int(rng.integers(1, 3))
            a = int(rng.integers(0, L - k + 1))
            where = tuple(range(a, a + k))
            if k == 2 and rng.integers(0, 2):
                where = where[::-1]
            plan.append((kind, where, bool(rng.integers(0, 2)), int(rng.integers(1 << 30))))
        seed = int(rng.integers(1 << 30))
        if not cx.mine():
            continue

        def t(L=L, d=d, cplx=cplx, start=start, plan=plan, seed=seed):
            r = np.random.default_rng(seed)
            psi = qtn.MPS_rand_state(L, 4, phys_dim=d, dtype="complex128" if cplx else "float64", normalize=False,
                                     seed=int(r.integers(1 << 30)))
            for t_ in psi:  # destroy any accidental gauge and the normalisation
                t_.modify(data=t_.data * r.uniform(0.5, 1.5) + 0.05 * r.normal(size=t_.shape))
            info = {}
            if start == "record":
                psi.canonicalize_(int(r.integers(L)), info=info)
            dense = np.asarray(psi.to_dense()).reshape(-1)
            n2 = float(np.vdot(dense, dense).real)
            dims = [d] * L

            def ref(G, where):
                return complex(np.vdot(dense, _embed(G, dims, list(where)) @ dense)) / n2

            for step, (kind, where, inplace, s2) in enumerate(plan):
                rr = np.random.default_rng(s2)
                k = len(where)
                G = rr.normal(size=(d ** k, d ** k)) + (1j * rr.normal(size=(d ** k, d ** k)) if cplx else 0)
                tag = f"step {step} ({kind} at {where}, info threaded from the earlier calls): "
                if kind == "compute":
                    got = psi.compute_local_expectation({where: G}, method="canonical", info=info, inplace=inplace,
                                                        normalized=True)
                    want = ref(G, where)
                elif kind == "local":
                    got = psi.local_expectation_canonical(G, where, info=info, normalized=True)
                    want = ref(G, where)
                elif kind == "ptrace":
                    sw = tuple(sorted(where))
                    rho = np.asarray(psi.partial_trace_to_dense_canonical(sw, info=info, normalized=True))
                    full = np.outer(dense, dense.conj()) / n2
                    want_rho = _ptrace(full, dims, list(sw))
                    if rho.shape != want_rho.shape or np.abs(rho - want_rho).max() > 1e-9:
                        return tag + f"reduced state differs from the dense partial trace by {np.abs(rho - want_rho).max():.3g}"
                    continue
                else:
                    psi.canonicalize_(where, info=info)
                    now = np.asarray(psi.to_dense()).reshape(-1)
                    if np.abs(now - dense).max() > 1e-9 * max(1.0, np.abs(dense).max()):
                        return tag + "canonicalize_ changed the state"
                    continue
                if abs(complex(got) - want) > 1e-9 * max(1.0, abs(want)):
                    return tag + f"got {complex(got):.6g}, dense reference {want:.6g}"
            now = np.asarray(psi.to_dense()).reshape(-1)
            if np.abs(now - dense).max() > 1e-9 * max(1.0, np.abs(dense).max()):
                return "the state the caller holds changed"
            return None

        cx.check("MPS expectation values / reduced states with one info record threaded through successive calls == dense "
                 "values", dict(i=i, L=L, d=d, cplx=cplx, start=start, calls="-".join(p[0] for p in plan)), t)
