"""C16 bounded stand-in: every threaded / parallel routine against its serial numpy reference."""

import itertools

import numpy as np

from vf.rtc import driver


def _grid(cx):
    if cx.quick:
        sizes = list(range(0, 14)) + [17, 31, 64, 129]
        threads = [1, 2, 3, 5, 8, 17]
        tbss = [1, -1, 2, -2, 3, -7, 128, -128]
    else:
        sizes = list(range(0, 71)) + [127, 128, 129, 300, 1000]
        threads = list(range(1, 18))
        tbss = [s * t for t in (1, 2, 3, 7, 128) for s in (1, -1)]
    return sizes, threads, tbss


def _close(a, b, what):
    a, b = np.asarray(a), np.asarray(b)
    if a.shape != b.shape:
        return f"{what}: shape {a.shape} != reference {b.shape}"
    if a.size and not np.allclose(a, b, rtol=1e-12, atol=1e-12, equal_nan=False):
        return f"{what}: max abs diff {np.max(np.abs(a - b)):.3e}"
    return None


@driver("C16", "partition-exhaustive", chunks=4,
        bound="sizes 0..70+{127,128,129,300,1000} (quick: 0..13+4), threads 1..17, target block sizes +-{1,2,3,7,128}: "
              "enumerated block ranges tile [0,size) exactly once, strided ranks cover every block once")
def partition(cx):
    from quimb.core import threading_choose_num_blocks, threading_get_block_range

    sizes, threads, tbss = _grid(cx)
    for n, T, tbs in itertools.product(sizes, threads, tbss):
        if not cx.mine():
            continue

        def thunk(n=n, T=T, tbs=tbs):
            nb, base, rem = threading_choose_num_blocks(n, tbs, T)
            if nb != int(nb) or nb < 1:
                return f"num_blocks={nb}"
            nb = int(nb)
            seen = np.zeros(n, dtype=int)
            owner = np.zeros(nb, dtype=int)
            for r in range(T):
                for b in range(r, nb, T):
                    owner[b] += 1
                    s, e = threading_get_block_range(b, base, rem)
                    s, e = int(s), int(e)
                    if not (0 <= s <= e <= n):
                        return f"block {b}: range ({s},{e}) outside [0,{n}]"
                    seen[s:e] += 1
            if not (owner == 1).all():
                return f"blocks not owned exactly once: {owner.tolist()}"
            if not (seen == 1).all():
                return f"rows not covered exactly once: {seen.tolist()[:40]}"
            if T == 1 and nb != 1:
                return "single thread must give one block"

        cx.check("partition tiles [0,n) exactly once", dict(n=n, T=T, tbs=tbs), thunk, nontrivial=n > 0)


@driver("C16", "kernels-vs-numpy", chunks=12,
        bound="same grid; 1-d and 2-d operands with 1..5 columns; float64 and complex128 data; each public wrapper "
              "(complex_array, phase_to_complex, subtract_update_, divide_update_, par_dot_csr_matvec, l/r_diag_dot_dense, "
              "outer, kron_dense) vs its numpy serial reference")
def kernels(cx):
    import scipy.sparse as sp

    import quimb.core as qc

    sizes, threads, tbss = _grid(cx)
    rng = cx.rng
    for n, T, tbs in itertools.product(sizes, threads, tbss):
        if not cx.mine():
            continue
        if cx.out_of_time():
            cx.inconclusive.append("kernels-vs-numpy: time budget exhausted before the grid was finished")
            return
        p = dict(n=n, T=T, tbs=tbs)
        m = int(rng.integers(1, 6))
        cplx = bool(rng.integers(0, 2))

        def rnd(*shape):
            x = rng.normal(size=shape)
            if cplx:
                x = x + 1j * rng.normal(size=shape)
            return x

        x, y = rng.normal(size=n), rng.normal(size=n)
        cx.check("complex_array(x,y) == x+1j*y", p,
                 lambda: _close(qc.complex_array(x, y, num_threads=T, target_block_size=tbs), x + 1j * y, "complex_array"),
                 nontrivial=n > 0)
        x32 = x.astype("float32")

        def t_ca32():
            out = qc.complex_array(x32, x32, num_threads=T, target_block_size=tbs)
            if out.dtype != np.complex64:
                return f"dtype {out.dtype}"
            return _close(out, x32 + 1j * x32, "complex_array f32")

        cx.check("complex_array float32 -> complex64", p, t_ca32, nontrivial=n > 0)
        ph = rng.normal(size=(n, m)) if n % 2 else rng.normal(size=n)
        cx.check("phase_to_complex(x) == exp(1j x)", dict(p, shape=list(ph.shape)),
                 lambda: _close(qc.phase_to_complex(ph, num_threads=T, target_block_size=tbs), np.exp(1j * ph), "phase"),
                 nontrivial=n > 0)
        for nd in (1, 2):
            X = rnd(n) if nd == 1 else rnd(n, m)
            Y = rnd(n) if nd == 1 else rnd(n, m)
            c = complex(rng.normal(), rng.normal()) if cplx else float(rng.normal())

            def t_sub(X=X, Y=Y, c=c):
                Z = X.copy()
                qc.subtract_update_(Z, c, Y, num_threads=T, target_block_size=tbs)
                return _close(Z, X - c * Y, "subtract_update_")

            cx.check(f"subtract_update_ {nd}d: X -= c*Y", dict(p, m=m, cplx=cplx), t_sub, nontrivial=n > 0)

            def t_div(X=X, c=c):
                out = np.full_like(X, np.nan)
                qc.divide_update_(X, c, out, num_threads=T, target_block_size=tbs)
                return _close(out, X / c, "divide_update_")

            cx.check(f"divide_update_ {nd}d: out = X/c", dict(p, m=m, cplx=cplx), t_div, nontrivial=n > 0)
        # diagonal scalings: rows n, columns m and the transposed aspect (few rows, many columns)
        for (r_, c_) in ((n, m), (m, n)):
            A = rnd(r_, c_)
            dl, dr = rnd(r_), rnd(c_)
            cx.check("l_diag_dot_dense == diag(l) @ A", dict(p, shape=[r_, c_], cplx=cplx),
                     lambda A=A, dl=dl: _close(qc.l_diag_dot_dense(dl, A, num_threads=T, target_block_size=tbs),
                                               dl[:, None] * A, "ldmul"), nontrivial=r_ * c_ > 0)
            cx.check("r_diag_dot_dense == A @ diag(l)", dict(p, shape=[r_, c_], cplx=cplx),
                     lambda A=A, dr=dr: _close(qc.r_diag_dot_dense(A, dr, num_threads=T, target_block_size=tbs),
                                               A * dr[None, :], "rdmul"), nontrivial=r_ * c_ > 0)
        a, b = rnd(n), rnd(m)
        cx.check("outer(a,b) == a[:,None]*b[None,:]", dict(p, m=m, cplx=cplx),
                 lambda: _close(qc.outer(a, b, num_threads=T, target_block_size=tbs), np.multiply.outer(a, b), "outer"),
                 nontrivial=n > 0)
        # kron: (n1 x m) (x) (p x q) with n1*p rows
        n1 = n // 3 + (1 if n else 0)
        pp, qq = int(rng.integers(1, 4)), int(rng.integers(1, 4))
        Ka, Kb = rnd(n1, m), rnd(pp, qq)
        cx.check("kron_dense(a,b) == np.kron(a,b)", dict(p, a=[n1, m], b=[pp, qq], cplx=cplx),
                 lambda: _close(qc.kron_dense(Ka, Kb, num_threads=T, target_block_size=tbs), np.kron(Ka, Kb), "kron"),
                 nontrivial=n1 > 0)
        # csr matvec, square and rectangular
        for (r_, c_) in ((n, n), (n, m), (m, n)):
            if r_ == 0 or c_ == 0:
                continue
            S = sp.random(r_, c_, density=0.5, format="csr", random_state=int(rng.integers(1 << 30)))
            if cplx:
                S = S + 1j * sp.random(r_, c_, density=0.3, format="csr", random_state=int(rng.integers(1 << 30)))
                S = S.tocsr()
            v = rnd(c_)

            def t_csr(S=S, v=v):
                ref = S.toarray() @ v
                e = _close(qc.par_dot_csr_matvec(S, v, target_block_size=tbs, num_threads=T), ref, "csr matvec 1d")
                if e:
                    return e
                v2 = v.reshape(-1, 1)
                return _close(qc.par_dot_csr_matvec(S, v2, target_block_size=tbs, num_threads=T), ref.reshape(-1, 1),
                              "csr matvec column")

            cx.check("par_dot_csr_matvec(A,x) == A @ x", dict(p, shape=[r_, c_], cplx=cplx), t_csr)


@driver("C16", "default-arguments", chunks=2,
        bound="public entry points with default thread arguments on shapes around the internal thresholds "
              "(rows 1..9 x columns {1,100,129,1000}; csr with nnz > 50000 square and rectangular)")
def defaults(cx):
    import scipy.sparse as sp

    import quimb as qu

    rng = cx.rng
    for r_, c_ in itertools.product([1, 2, 3, 7, 8, 9, 130, 300], [1, 5, 100, 129, 1000]):
        if not cx.mine():
            continue
        A = rng.normal(size=(r_, c_))
        dl, dr = rng.normal(size=r_), rng.normal(size=c_)
        cx.check("ldmul default args", dict(shape=[r_, c_]), lambda: _close(qu.ldmul(dl, A), dl[:, None] * A, "ldmul"))
        cx.check("rdmul default args", dict(shape=[r_, c_]), lambda: _close(qu.rdmul(A, dr), A * dr[None, :], "rdmul"))
        cx.check("outer default args", dict(shape=[r_, c_]),
                 lambda: _close(qu.core.outer(dl, dr), np.multiply.outer(dl, dr), "outer"))
        B = rng.normal(size=(2, 3))
        cx.check("kron default args", dict(shape=[r_, c_]), lambda: _close(qu.kron(A, B), np.kron(A, B), "kron"))
    shapes = [(400, 400), (400, 300), (300, 400)] if cx.quick else [(400, 400), (400, 300), (300, 400), (1000, 90), (90, 1000)]
    for shp in shapes:
        if not cx.mine():
            continue
        S = sp.random(*shp, density=0.65, format="csr", random_state=1)
        v = rng.normal(size=shp[1])

        def t(S=S, v=v):
            # run in-process: after the fix no out-of-bounds read is possible for a valid csr matrix
            if S.nnz <= 50000:
                return "test matrix too sparse to reach the parallel route"
            return _close(S @ v, S.toarray() @ v, "csr @ vec (global scipy patch)")

        cx.check("scipy csr @ vec with nnz>50000 (quimb's global patch)", dict(shape=list(shp)), t)


@driver("C16", "par-reduce-and-rand", chunks=1,
        bound="par_reduce over sequences of length 1..12 with a non-commutative associative op, threads 1..5; "
              "kron(*ops, parallel=True); randn threaded: shape, dtype, all entries written, seed determinism")
def par_reduce(cx):
    import quimb as qu
    from quimb.core import par_reduce

    rng = cx.rng
    for L, T in itertools.product(range(1, 13), (1, 2, 3, 5)):
        mats = [rng.normal(size=(2, 2)) for _ in range(L)]

        def t(mats=mats, T=T):
            ref = mats[0]
            for mm in mats[1:]:
                ref = ref @ mm
            return _close(par_reduce(lambda a, b: a @ b, mats, num_threads=T), ref, "par_reduce")

        cx.check("par_reduce == functools.reduce (order kept)", dict(L=L, T=T), t, nontrivial=L > 1)
    for L in range(1, 7):
        ops = [rng.normal(size=(int(rng.integers(1, 4)), int(rng.integers(1, 4)))) for _ in range(L)]

        def t(ops=ops):
            ref = ops[0]
            for o in ops[1:]:
                ref = np.kron(ref, o)
            e = _close(qu.kron(*ops, parallel=True), ref, "kron parallel")
            return e or _close(qu.kron(*ops, parallel=False), ref, "kron serial")

        cx.check("kron(*ops, parallel) == nested np.kron", dict(L=L, shapes=[list(o.shape) for o in ops]), t, nontrivial=L > 1)
    for d, T, dt in itertools.product([0, 1, 7, 33, 1000], [1, 2, 3, 16, 17], ["float64", "complex128", "float32", "complex64"]):
        def t(d=d, T=T, dt=dt):
            a = qu.randn(d, dtype=dt, num_threads=T, seed=7)
            b = qu.randn(d, dtype=dt, num_threads=T, seed=7)
            if a.shape != (d,) or a.dtype != np.dtype(dt):
                return f"shape/dtype {a.shape} {a.dtype}"
            if not np.array_equal(a, b):
                return "same seed, different numbers"
            if d >= 33 and (a == 0).any():
                return "unwritten (zero) entries"
            if d >= 1000 and abs(np.mean(a.real)) > 0.2:
                return "mean off"

        cx.check("randn threaded: shape/dtype/seed determinism/coverage", dict(d=d, T=T, dtype=dt), t, nontrivial=d > 0)


def _term_operator(qo, n, kind, rng):
    """an operator built from terms on n sites that conserves the symmetry `kind` (random real coefficients)"""
    H = qo.SparseOperatorBuilder(hilbert_space=qo.HilbertSpace(list(range(n))))
    c = lambda: float(np.round(rng.normal(), 3)) or 0.5  # noqa: E731
    for i in range(n):
        H.add_term(c(), ("z", i))
    if kind == "U1U1":
        na = (n + 1) // 2
        blocks = [list(range(na)), list(range(na, n))]
        for blk in blocks:
            for a, b in zip(blk, blk[1:]):
                H.add_term(c(), ("+", a), ("-", b))
                H.add_term(c(), ("-", a), ("+", b))
        if n > 1:
            H.add_term(c(), ("z", 0), ("z", n - 1))
        return H
    for a in range(n):
        b = (a + 1) % n
        if a == b:
            continue
        H.add_term(c(), ("z", a), ("z", b))
        if kind in ("none", "Z2"):
            H.add_term(c(), ("x", a), ("x", b))
            H.add_term(c(), ("y", a), ("y", b))
        else:
            H.add_term(c(), ("+", a), ("-", b))
            H.add_term(c(), ("-", a), ("+", b))
    if kind == "none":
        H.add_term(c(), ("x", 0))
    return H


@driver("C16", "operator-workers", chunks=4, timeout=240,
        bound="operators built from terms on 1..6 sites (quick 1..5), symmetries none / Z2 (both parities) / U1 (every filling) / "
              "U1U1 (every pair of fillings of two blocks); worker counts True,1,2,3,5,17 (also more workers than basis "
              "states): build_coo_data / build_sparse_matrix / matvec / aslinearoperator(parallel=k) == the same call "
              "with parallel=False (and matvec == matrix @ x)")
def operator_workers(cx):
    import quimb.operator as qo

    rng = cx.rng
    nmax = 5 if cx.quick else 6
    for n in range(1, nmax + 1):
        sectors = [("none", {})]
        sectors += [("Z2", dict(sector=p, symmetry="Z2")) for p in (0, 1)]
        sectors += [("U1", dict(sector=k, symmetry="U1")) for k in range(n + 1)]
        if n >= 2:
            na = (n + 1) // 2
            sectors += [("U1U1", dict(sector=((na, ka), (n - na, kb)), symmetry="U1U1"))
                        for ka in range(na + 1) for kb in range(n - na + 1)]
        for kind, kw in sectors:
            seed = int(rng.integers(1 << 30))
            for par in (True, 1, 2, 3, 5, 17):
                if not cx.mine():
                    continue
                if cx.out_of_time():
                    cx.inconclusive.append("operator-workers: time budget exhausted")
                    return

                def t(n=n, kind=kind, kw=kw, par=par, seed=seed):
                    r = np.random.default_rng(seed)
                    H = _term_operator(qo, n, kind, r)
                    A = H.build_sparse_matrix(parallel=False, **kw)
                    d = A.shape[0]
                    B = H.build_sparse_matrix(parallel=par, **kw)
                    if B.shape != A.shape:
                        return f"shape {B.shape} != serial {A.shape}"
                    A, B = A.toarray(), B.toarray()
                    if not np.allclose(A, B, rtol=1e-12, atol=1e-12):
                        bad = np.flatnonzero(np.abs(A - B).max(axis=0) > 1e-12)
                        return (f"build_sparse_matrix(parallel={par}) differs from serial in {bad.size} of {d} columns "
                                f"(first {bad[0]}), max abs err {np.abs(A - B).max():.3g}")
                    data, rows, cols, dd = H.build_coo_data(parallel=par, **kw)
                    if dd != d or not (len(data) == len(rows) == len(cols)):
                        return f"build_coo_data: d={dd} lens {len(data)},{len(rows)},{len(cols)}"
                    C = np.zeros((d, d), dtype=A.dtype)
                    np.add.at(C, (rows, cols), data)
                    if not np.allclose(A, C, rtol=1e-12, atol=1e-12):
                        return f"build_coo_data(parallel={par}) sums to a different matrix, max abs err {np.abs(A - C).max():.3g}"
                    x = r.normal(size=d).astype(A.dtype)  # vector of the operator's own dtype (mixed dtypes: C19)
                    y0 = H.matvec(x, parallel=False, **kw)
                    y = H.matvec(x, parallel=par, **kw)
                    if y.shape != y0.shape:
                        return f"matvec shape {y.shape} != {y0.shape}"
                    if not np.allclose(y, y0, rtol=1e-12, atol=1e-12):
                        return f"matvec(parallel={par}) differs from serial, max abs err {np.abs(y - y0).max():.3g}"
                    if not np.allclose(y0, A @ x, rtol=1e-10, atol=1e-10):
                        return f"serial matvec differs from matrix @ x, max abs err {np.abs(y0 - A @ x).max():.3g}"
                    lo = H.aslinearoperator(parallel=par, **kw)
                    z = lo @ x
                    if z.shape != y0.shape or not np.allclose(z, y0, rtol=1e-12, atol=1e-12):
                        return f"aslinearoperator(parallel={par}) @ x differs from serial matvec"
                    return None

                cx.check("operator from terms: build_coo_data / build_sparse_matrix / matvec / aslinearoperator with "
                         "parallel=k == the serial call",
                         dict(n=n, symmetry=kind, sector=str(kw.get("sector")), parallel=str(par)), t,
                         nontrivial=n > 1)
