"""C02 bounded stand-in: a history walker over public TensorNetwork / Tensor operations.

After EVERY step each live network's lookup structures (tensor_map / ind_map / tag_map / _inner_inds /
_outer_inds) and each tensor's owner registry are compared with an INDEPENDENT recount computed from the
tensors' own ``inds`` / ``tags`` tuples, plus a shadow model (kept by the walker, by object identity) of which
tensor objects every network must hold and which labels / tags every tensor must carry after the operation.

Design notes
* the operation is executed in the driver body (state must evolve whether or not a case is evaluated: replay
  re-runs the chunk and evaluates one key); an exception is captured and re-raised inside the thunk of the
  "operation completes" contract so that the harness classifies it (rejection / crash);
* all random choices are positional (tensor number, axis number), never by label name: quimb's generated labels
  carry a per-process random prefix; in ``params`` such labels are written ``~k`` (order of first appearance);
* a history is abandoned at its first violation (no cascades).
"""

import gc
import pickle

import numpy as np

from vf.rtc import driver

WILD = object()  # "any value" in an expectation
WHICH4 = ("all", "any", "!all", "!any")


# ----------------------------------------------------------------------------------------------
# independent recount (shares no code with quimb: plain dict / set counting over the tensors' own tuples)
# ----------------------------------------------------------------------------------------------


def scan(tn):
    return [(tid, t, tuple(t.inds), frozenset(t.tags)) for tid, t in tn.tensor_map.items()]


def recount(items):
    occ, imap, gmap = {}, {}, {}
    for tid, _t, inds, tags in items:
        for ix in inds:
            occ[ix] = occ.get(ix, 0) + 1
            imap.setdefault(ix, set()).add(tid)
        for g in tags:
            gmap.setdefault(g, set()).add(tid)
    inner = {ix for ix, c in occ.items() if c >= 2}
    outer = {ix for ix, c in occ.items() if c == 1}
    return occ, imap, gmap, inner, outer


def _cmp_map(name, got, ref):
    if set(got) != set(ref):
        return f"{name} keys: extra {sorted(map(str, set(got) - set(ref)))[:4]} missing {sorted(map(str, set(ref) - set(got)))[:4]}"
    for k, s in ref.items():
        g = list(got[k])
        if len(g) != len(set(g)):
            return f"{name}[{k!r}] holds a tid twice: {g}"
        if set(g) != s:
            return f"{name}[{k!r}] = {sorted(g)} but the tensors carrying it are {sorted(s)}"
    return None


def check_maps(tn):
    items = scan(tn)
    occ, imap, gmap, inner, outer = recount(items)
    if len({id(t) for _, t, _, _ in items}) != len(items):
        return "one tensor object stored under two tids"
    e = _cmp_map("ind_map", tn.ind_map, imap) or _cmp_map("tag_map", tn.tag_map, gmap)
    if e:
        return e
    if tn.num_tensors != len(items) or len(tn.tensors) != len(items):
        return f"num_tensors {tn.num_tensors} != {len(items)}"
    if tn.num_indices != len(imap) or set(tn.all_inds()) != set(imap) or len(tn.all_inds()) != len(imap):
        return "num_indices / all_inds() disagree with the recount"
    if set(tn.tags) != set(gmap):
        return "tn.tags disagrees with the recount"
    try:
        tn.check()
    except Exception as ex:  # noqa
        # sizes are judged by their own contract; everything else tn.check() looks at is a map defect
        if "Mismatched index dimension" not in str(ex) and "non-finite" not in str(ex):
            return f"tn.check() raised {type(ex).__name__}: {str(ex)[:200]}"
    return None


def check_inner_outer(tn):
    occ, imap, gmap, inner, outer = recount(scan(tn))
    for nm, got, ref in (("_inner_inds", tn._inner_inds, inner), ("_outer_inds", tn._outer_inds, outer),
                         ("inner_inds()", tn.inner_inds(), inner), ("outer_inds()", tn.outer_inds(), outer)):
        g = list(got)
        if len(g) != len(set(g)):
            return f"{nm} lists a label twice"
        if set(g) != ref:
            bad = sorted(set(g) ^ ref, key=str)[:4]
            items = scan(tn)
            info = {str(b): dict(occurrences=occ.get(b, 0), tensors=len(imap.get(b, ())),
                                 twice_on_one_tensor=any(inds.count(b) > 1 for _, _, inds, _ in items)) for b in bad}
            return f"{nm} differs from the recount on {info}"
    return None


def check_sizes(tn):
    sizes = {}
    for _tid, t, inds, _ in scan(tn):
        shp = tuple(t.shape)
        if len(shp) != len(inds):
            return f"tensor with {len(inds)} labels and {len(shp)} axes"
        for ix, d in zip(inds, shp):
            sizes.setdefault(ix, set()).add(int(d))
    bad = {str(k): sorted(v) for k, v in sizes.items() if len(v) > 1}
    if bad:
        return f"label sizes disagree across sharing tensors: {bad}"
    try:
        for ix, v in sizes.items():
            if tn.ind_size(ix) != next(iter(v)):
                return f"ind_size({ix!r}) = {tn.ind_size(ix)} != {sorted(v)}"
        got = tn.ind_sizes()
    except Exception as ex:  # noqa
        return f"ind_size / ind_sizes raised {type(ex).__name__}: {str(ex)[:100]}"
    if set(got) != set(sizes) or any(got[k] != next(iter(v)) for k, v in sizes.items()):
        return "ind_sizes() disagrees with the tensors"
    return None


def check_owners(nets, extra_tensors):
    """every tensor held by a live network has that network (weakly) registered under the right tid; every live
    owner entry points to a network that really holds the tensor under that tid"""
    holders = {}
    objs = {}
    for k, tn in enumerate(nets):
        for tid, t in tn.tensor_map.items():
            holders.setdefault(id(t), []).append((k, tn, tid))
            objs[id(t)] = t
    for t in extra_tensors:
        objs.setdefault(id(t), t)
    for i, t in objs.items():
        own = t.owners
        for k, tn, tid in holders.get(i, ()):
            ent = own.get(hash(tn))
            if ent is None:
                return f"net {k} holds a tensor (tid {tid}) that does not list it as an owner"
            if ent[0]() is not tn:
                return f"owner entry for net {k} (tid {tid}) refers to another / a dead network"
            if ent[1] != tid:
                return f"owner entry for net {k} has tid {ent[1]} but the network stores the tensor under {tid}"
        for h, (ref, tid) in own.items():
            n = ref()
            if n is None:
                continue
            if hash(n) != h:
                return "owner entry keyed by a hash that is not the network's"
            if n.tensor_map.get(tid) is not t:
                return f"tensor lists a live network as owner under tid {tid} but that network does not hold it there"
    return None


def expected_tids(items, tags, which):
    """tids of tensors carrying all / any / not all / not any of ``tags`` -- straight from the tag tuples"""
    tags = list(tags)
    inv = which.startswith("!")
    w = which.lstrip("!")
    out = set()
    for tid, _t, _inds, tg in items:
        if not tags:
            hit = False
        elif w == "all":
            hit = all(g in tg for g in tags)
        else:
            hit = any(g in tg for g in tags)
        if hit != inv:
            out.add(tid)
    return out


def _labels_multiset(ts):
    return sorted((tuple(map(str, t.inds)), tuple(sorted(map(str, t.tags)))) for t in ts)


def check_selection(tn, tags, which, inds, iwhich):
    """selection by tags / labels returns exactly the tensors that carry them (per the recount)"""
    items = scan(tn)
    occ, imap, gmap, inner, outer = recount(items)
    by_tid = {tid: t for tid, t, _, _ in items}
    present = all(g in gmap for g in tags)
    exp = expected_tids(items, tags, which)
    exp_ids = {id(by_tid[k]) for k in exp}

    def call(f):
        try:
            return "ok", f()
        except KeyError:
            return "keyerror", None

    k, got = call(lambda: tn._get_tids_from_tags(tags, which))
    if k == "keyerror":
        if present:
            return f"_get_tids_from_tags({tags},{which}) raised KeyError although every tag is carried by a tensor"
    else:
        got = list(got)
        if set(got) != exp or len(got) != len(exp):
            return f"_get_tids_from_tags({tags},{which}) = {sorted(got)} but tensors carrying them are {sorted(exp)}"
    k, got = call(lambda: tn.select_tensors(tags, which))
    if k == "keyerror":
        if present:
            return "select_tensors raised KeyError for present tags"
    else:
        if {id(t) for t in got} != exp_ids or len(got) != len(exp_ids):
            return f"select_tensors({tags},{which}) returned {len(got)} tensors, expected tids {sorted(exp)}"
    for virtual in (True, False):
        k, sub = call(lambda: tn.select(tags, which, virtual=virtual))
        if k == "keyerror":
            if present:
                return "select raised KeyError for present tags"
            continue
        ts = list(sub.tensor_map.values())
        if virtual:
            if {id(t) for t in ts} != exp_ids or len(ts) != len(exp_ids):
                return f"select({tags},{which},virtual) holds {len(ts)} tensors, expected the objects at tids {sorted(exp)}"
        else:
            if any(id(t) in exp_ids for t in ts):
                return "select(virtual=False) returned the original tensor objects"
            if _labels_multiset(ts) != _labels_multiset(by_tid[k2] for k2 in exp):
                return f"select({tags},{which},copy) does not hold copies of exactly the tensors at tids {sorted(exp)}"
        if set(sub.tensor_map) != exp:
            return "select: tids of the view differ from the tids in the parent"
        e = check_maps(sub) or check_inner_outer(sub) or check_owners([tn, sub], ())
        if e:
            return f"select({tags},{which},virtual={virtual}) result: {e}"
        del sub, ts
    if which == "all":
        k, got = call(lambda: tn[tags])
        if k == "keyerror":
            if exp:
                return f"tn[{tags}] raised KeyError but tensors at tids {sorted(exp)} carry the tags"
        else:
            got = (got,) if not isinstance(got, tuple) else got
            if {id(t) for t in got} != exp_ids or len(got) != len(exp_ids) or not exp_ids:
                return f"tn[{tags}] returned {len(got)} tensors, expected tids {sorted(exp)}"
    # neighbours of the tagged region: tensors outside it sharing a label with it
    if present and not which.startswith("!"):
        region_labels = set()
        for tid in exp:
            region_labels.update(by_tid[tid].inds)
        nb = {tid for tid, _t, inds_, _ in items if tid not in exp and region_labels.intersection(inds_)}
        got = tn.select_neighbors(tags, which)
        if {id(t) for t in got} != {id(by_tid[k2]) for k2 in nb} or len(got) != len(nb):
            return f"select_neighbors({tags},{which}) returned {len(got)} tensors, expected tids {sorted(nb)}"
    # by labels
    if inds:
        ipresent = all(ix in imap for ix in inds)
        w = iwhich.lstrip("!")
        ex = set()
        for tid, _t, inds_, _ in items:
            hit = all(ix in inds_ for ix in inds) if w == "all" else any(ix in inds_ for ix in inds)
            if hit != iwhich.startswith("!"):
                ex.add(tid)
        k, got = call(lambda: tn._get_tids_from_inds(inds, iwhich))
        if k == "keyerror":
            if ipresent:
                return "_get_tids_from_inds raised KeyError for present labels"
        else:
            got = list(got)
            if set(got) != ex or len(got) != len(ex):
                return f"_get_tids_from_inds({iwhich}) = {sorted(got)} but tensors carrying the labels are {sorted(ex)}"
        anyex = {tid for tid, _t, inds_, _ in items if any(ix in inds_ for ix in inds)}
        got = list(tn._inds_get(*inds))
        if {id(t) for t in got} != {id(by_tid[k2]) for k2 in anyex} or len(got) != len(anyex):
            return "_inds_get returned other tensors than those carrying the labels"
    if tags:
        anyex = {tid for tid, _t, _i, tg in items if any(g in tg for g in tags)}
        got = list(tn._tags_get(*tags))
        if {id(t) for t in got} != {id(by_tid[k2]) for k2 in anyex} or len(got) != len(anyex):
            return "_tags_get returned other tensors than those carrying the tags"
    return None


# ----------------------------------------------------------------------------------------------
# the walker
# ----------------------------------------------------------------------------------------------


class Net:
    __slots__ = ("tn", "members", "rep", "__weakref__")

    def __init__(self, tn, rep=False):
        self.tn = tn
        self.members = list(tn.tensor_map.values())  # shadow: tensor objects the network must hold
        self.rep = rep  # this network holds / has held a tensor carrying one label twice


def has_rep(t):
    return len(set(t.inds)) != len(t.inds)


class Walker:
    MAX_NETS = 5
    MAX_TENSORS = 9
    MAX_RANK = 5

    def __init__(self, rng, qtn, repeats, dtype, kind):
        self.rng = rng
        self.qtn = qtn
        self.repeats = repeats
        self.dtype = dtype
        self.kind = kind
        self.nets = []
        self.loose = []
        self.nfresh = 0
        self.names = {}
        self.exc = None
        self.eff = []
        self.view = []
        self.comb = None
        self.exp_members = {}
        self.exp_labels = {}

    # ------------------------------------------------------------------ small helpers
    def ri(self, n):
        return int(self.rng.integers(0, n))

    def coin(self, p=0.5):
        return bool(self.rng.random() < p)

    def choice(self, seq):
        return seq[self.ri(len(seq))]

    def ln(self, x):
        """deterministic spelling of a label / tag for params (generated names carry a random prefix)"""
        if isinstance(x, str) and x.startswith("_"):
            if x not in self.names:
                self.names[x] = f"~{len(self.names)}"
            return self.names[x]
        return str(x)

    def lns(self, xs):
        return [self.ln(x) for x in xs]

    def fresh(self):
        self.nfresh += 1
        return f"x{self.nfresh}"

    def fresh_tag(self):
        self.nfresh += 1
        return f"T{self.nfresh}"

    def world_tensors(self):
        seen, out = set(), []
        for n in self.nets:
            for t in n.tn.tensor_map.values():
                if id(t) not in seen:
                    seen.add(id(t))
                    out.append(t)
        for t in self.loose:
            if id(t) not in seen:
                seen.add(id(t))
                out.append(t)
        return out

    def dims(self, override=None):
        """label -> set of sizes over the whole world (override: id(t) -> hypothetical inds)"""
        d = {}
        for t in self.world_tensors():
            inds = t.inds if override is None else override.get(id(t), t.inds)
            for ix, s in zip(inds, t.shape):
                d.setdefault(ix, set()).add(int(s))
        return d

    def consistent(self, override):
        """would the world still have one size per label (and, outside repeat mode, no label twice on a tensor)?"""
        if not self.repeats:
            for inds in override.values():
                if len(set(inds)) != len(inds):
                    return False
        return all(len(v) == 1 for v in self.dims(override).values())

    def rand_data(self, shape):
        x = self.rng.normal(size=shape)
        if "complex" in self.dtype:
            x = x + 1j * self.rng.normal(size=shape)
        return x.astype(self.dtype)

    def new_tensor(self, net=None, rank=None):
        """a random tensor whose labels are drawn from the world (making bonds / hyper labels) or fresh"""
        rank = self.ri(4) if rank is None else rank
        dims = self.dims()
        pool = []
        src = net.tn.tensor_map.values() if net is not None and self.coin(0.7) else self.world_tensors()
        for t in src:
            pool.extend(t.inds)
        inds, shape = [], []
        for _ in range(rank):
            r = self.rng.random()
            if pool and r < 0.6:
                ix = pool[self.ri(len(pool))]
                if len(dims.get(ix, ())) != 1:
                    ix = self.fresh()
            elif inds and self.repeats and r < 0.75:
                ix = inds[self.ri(len(inds))]
            else:
                ix = self.fresh()
            if ix in inds and not self.repeats:
                ix = self.fresh()
            if ix in inds:
                d = shape[inds.index(ix)]
            elif ix in dims:
                d = next(iter(dims[ix]))
            else:
                d = (1, 2, 2, 3)[self.ri(4)]
            inds.append(ix)
            shape.append(d)
        tags = [g for g in "ABCDE" if self.coin(0.3)]
        return self.qtn.Tensor(self.rand_data(tuple(shape)), inds, tags)

    def pick_net(self, min_tensors=0):
        c = [n for n in self.nets if len(n.members) >= min_tensors]
        return self.choice(c) if c else None

    def pick_tensor(self, net, pred=None):
        c = [t for t in net.members if pred is None or pred(t)]
        return self.choice(c) if c else None

    def tid_of(self, net, t):
        for tid, x in net.tn.tensor_map.items():
            if x is t:
                return tid
        return None

    def tags_in(self, net):
        """tags present in the network, in positional (deterministic) order"""
        out = []
        for t in net.members:
            for g in t.tags:
                if g not in out:
                    out.append(g)
        return out

    def labels_in(self, net):
        out = []
        for t in net.members:
            for ix in t.inds:
                if ix not in out:
                    out.append(ix)
        return out

    def pick_tags(self, net, allow_absent=True):
        present = self.tags_in(net)
        k = 1 + self.ri(2)
        tags = []
        for _ in range(k):
            if present and not (allow_absent and self.coin(0.08)):
                g = self.choice(present)
            elif allow_absent:
                g = "ZZ"
            else:
                continue
            if g not in tags:
                tags.append(g)
        return tags

    def matching(self, net, tags, which):
        items = [(i, t, tuple(t.inds), frozenset(t.tags)) for i, t in enumerate(net.members)]
        idx = expected_tids(items, tags, which)
        return [t for i, t in enumerate(net.members) if i in idx]

    def unique_tags_for(self, net, t):
        """a tag list that identifies t alone in net (which='all'), or None"""
        tg = list(t.tags)
        if not tg:
            return None
        if len(self.matching(net, tg, "all")) != 1:
            return None
        # try to shorten
        if len(tg) > 1 and self.coin():
            for g in tg:
                if len(self.matching(net, [g], "all")) == 1:
                    return [g]
        return tg

    def stash(self, ts):
        for t in ts:
            if all(t is not x for x in self.loose):
                self.loose.append(t)
        while len(self.loose) > 5:
            self.loose.pop(0)

    # ------------------------------------------------------------------ running the real call
    def run(self, fn):
        try:
            return True, fn()
        except Exception as e:  # noqa  (re-raised inside the contract thunk)
            self.exc = e
            return False, None

    def snapshot(self):
        tens = {}
        for t in self.world_tensors():
            tens[id(t)] = (t, tuple(t.inds), frozenset(t.tags))
        return dict(nets=[(n, list(n.members)) for n in self.nets], tensors=tens)

    def register(self, tn, rep, spec=None, pre=None):
        """a network returned by an operation joins the world; spec: ('same', tensors) | ('copies', tensors)"""
        if spec is not None:
            kind, ts = spec
            got = list(tn.tensor_map.values())
            if kind == "same":
                if {id(t) for t in got} != {id(t) for t in ts} or len(got) != len(ts):
                    self.view.append(f"returned view holds {len(got)} tensors, "
                                     f"{len({id(t) for t in got} & {id(t) for t in ts})} of the {len(ts)} expected objects")
            else:
                if pre is not None and any(id(t) in pre["tensors"] for t in got):
                    self.view.append("returned copy holds an original tensor object")
                if _labels_multiset(got) != _labels_multiset(ts):
                    self.view.append(f"returned copy: labels/tags {_labels_multiset(got)} != expected {_labels_multiset(ts)}")
        net = Net(tn, rep)
        self.nets.append(net)
        return net

    def verify_effect(self, pre):
        errs = list(self.eff)
        for net, mem in pre["nets"]:
            if all(net is not n for n in self.nets):
                continue
            spec = self.exp_members.get(id(net), {"exact": mem})
            actual = list(net.tn.tensor_map.values())
            aid = {id(t) for t in actual}
            k = self.nets.index(net)
            if len(aid) != len(actual):
                errs.append(f"net {k}: one tensor object under two tids")
            if "exact" in spec:
                if aid != {id(t) for t in spec["exact"]}:
                    errs.append(f"net {k}: holds {len(actual)} tensors; expected exactly the {len(spec['exact'])} objects of the model "
                                f"({len(aid - {id(t) for t in spec['exact']})} unexpected, "
                                f"{len({id(t) for t in spec['exact']} - aid)} missing)")
            else:
                keep, gone, new = spec.get("keep", ()), spec.get("gone", ()), spec.get("new")
                if any(id(t) not in aid for t in keep):
                    errs.append(f"net {k}: an untouched tensor is no longer held")
                if any(id(t) in aid for t in gone):
                    errs.append(f"net {k}: a removed tensor is still held")
                kid = {id(t) for t in keep}
                newts = [t for t in actual if id(t) not in kid]
                if new is not None and len(newts) != new:
                    errs.append(f"net {k}: {len(newts)} new tensors, expected {new}")
        for i, (t, inds, tags) in pre["tensors"].items():
            e_inds, e_tags = self.exp_labels.get(i, (inds, tags))
            if e_inds is not WILD:
                ok = e_inds(tuple(t.inds)) if callable(e_inds) else tuple(t.inds) == tuple(e_inds)
                if not ok:
                    errs.append(f"tensor labels {self.lns(inds)} -> {self.lns(t.inds)}, expected "
                                f"{'(predicate)' if callable(e_inds) else self.lns(e_inds)}")
            if e_tags is not WILD and frozenset(t.tags) != frozenset(e_tags):
                errs.append(f"tensor tags {sorted(tags)} -> {sorted(t.tags)}, expected {sorted(e_tags)}")
        return "; ".join(errs[:4]) if errs else None

    def resync(self):
        for n in self.nets:
            n.members = list(n.tn.tensor_map.values())
            if any(has_rep(t) for t in n.members):
                n.rep = True

    # ------------------------------------------------------------------ operations: membership
    def op_add(self):
        A = self.pick_net()
        if len(A.members) >= self.MAX_TENSORS:
            return None
        r = self.rng.random()
        src = "new"
        if self.loose and r < 0.35:
            t = self.choice(self.loose)
            src = "loose"
        elif len(self.nets) > 1 and r < 0.55:
            B = self.choice([n for n in self.nets if n is not A])
            t = self.pick_tensor(B)
            src = "other-net"
            if t is None:
                return None
        else:
            t = self.new_tensor(A)
        if src != "new" and self.coin(0.15):
            t = pickle.loads(pickle.dumps(t)) if self.coin() else t.copy()
            src += "-copied"
            if t.owners:
                self.eff.append("a copied / unpickled tensor has owners")
        virtual = self.coin()
        if virtual and any(t is x for x in A.members):
            return None
        # adding must keep one size per label in the world (it does: sizes of t were drawn consistently / t exists)
        if not self.consistent({}):
            return None
        how = self.ri(4)
        clash_tid = None
        mem = list(A.members)
        if how == 0:
            tids = list(A.tn.tensor_map)
            clash_tid = self.choice(tids) if tids and self.coin() else (7 if self.coin() else None)
            call = lambda: A.tn.add_tensor(t, tid=clash_tid, virtual=virtual)  # noqa
        elif how == 1:
            call = lambda: A.tn.add(t, virtual=virtual)  # noqa
        elif how == 2:
            call = lambda: A.tn.add([t], virtual=virtual)  # noqa
        else:
            def call():
                tn = A.tn
                if virtual:
                    tn |= t
                else:
                    tn &= t
                if tn is not A.tn:
                    raise AssertionError("in-place operator returned another object")
        ok, _ = self.run(call)
        p = dict(op="add", src=src, virtual=virtual, how=how, tid=clash_tid, inds=self.lns(t.inds), tags=sorted(t.tags))
        if not ok:
            return p
        if virtual:
            self.exp_members[id(A)] = {"exact": mem + [t]}
            self.loose = [x for x in self.loose if x is not t]
        else:
            self.exp_members[id(A)] = {"keep": mem, "new": 1}
            new = [x for x in A.tn.tensor_map.values() if all(x is not m for m in mem)]
            if len(new) == 1:
                if new[0] is t:
                    self.eff.append("non-virtual add stored the given object itself")
                if tuple(new[0].inds) != tuple(t.inds) or set(new[0].tags) != set(t.tags):
                    self.eff.append("added copy carries other labels/tags than the tensor given")
        if has_rep(t):
            A.rep = True
        return p

    def op_pop(self):
        A = self.pick_net(1)
        if A is None:
            return None
        t = self.pick_tensor(A)
        mem = list(A.members)
        ut = self.unique_tags_for(A, t)
        by_tags = ut is not None and self.coin()
        if by_tags:
            which = "all"
            if len(ut) == 1 and self.coin():
                which = "any"
            arg = ut if len(ut) > 1 or self.coin() else ut[0]
            ok, got = self.run(lambda: A.tn.pop_tensor(arg, which=which))
        else:
            tid = self.tid_of(A, t)
            ok, got = self.run(lambda: A.tn.pop_tensor(tid))
        p = dict(op="pop_tensor", by_tags=by_tags, tags=sorted(map(str, ut)) if by_tags else None)
        if not ok:
            return p
        if got is not t:
            self.eff.append("pop_tensor returned another object than the tensor selected")
        self.exp_members[id(A)] = {"exact": [x for x in mem if x is not t]}
        self.stash([t])
        return p

    def op_setitem(self):
        A = self.pick_net(1)
        if A is None:
            return None
        mem = list(A.members)
        new = self.choice(self.loose) if self.loose and self.coin() else self.new_tensor(A)
        if any(new is x for x in mem):
            return None
        if self.coin(0.2):
            # negative: tags matching no tensor or several tensors must be refused (KeyError) without any effect
            tags = self.pick_tags(A)
            n = len(self.matching(A, tags, "all"))
            if n == 1:
                return None
            try:
                A.tn[tags] = new
                self.eff.append(f"tn[tags] = t accepted tags matching {n} tensors")
            except KeyError:
                pass
            except Exception as e:  # noqa
                self.exc = e
            return dict(op="setitem-refused", tags=sorted(map(str, tags)), matches=n)
        t = self.pick_tensor(A)
        ut = self.unique_tags_for(A, t)
        if ut is None:
            return None
        tid = self.tid_of(A, t)

        def call():
            A.tn[ut if len(ut) > 1 else ut[0]] = new

        ok, _ = self.run(call)
        p = dict(op="setitem", tags=sorted(map(str, ut)), inds=self.lns(new.inds), newtags=sorted(new.tags))
        if not ok:
            return p
        self.exp_members[id(A)] = {"exact": [x for x in mem if x is not t] + [new]}
        if A.tn.tensor_map.get(tid) is not new:
            self.eff.append("tn[tags] = t did not store t itself under the tid of the replaced tensor")
        self.loose = [x for x in self.loose if x is not new]
        self.stash([t])
        return p

    def op_del(self):
        A = self.pick_net(1)
        if A is None:
            return None
        tags = self.pick_tags(A, allow_absent=False)
        if not tags:
            return None
        mem = list(A.members)
        how = self.ri(3)
        which = "all"
        if how == 0:
            def call():
                del A.tn[tags if len(tags) > 1 else tags[0]]
        else:
            which = self.choice(("all", "any"))
            call = lambda: A.tn.delete(tags, which=which)  # noqa
        sel = self.matching(A, tags, which)
        if len(sel) == len(mem) and self.coin(0.7):
            return None  # do not empty the network too often
        ok, _ = self.run(call)
        p = dict(op="del" if how == 0 else "delete", tags=sorted(map(str, tags)), which=which, n=len(sel))
        if not ok:
            return p
        self.exp_members[id(A)] = {"exact": [x for x in mem if all(x is not s for s in sel)]}
        self.stash(sel[:2])
        return p

    # ------------------------------------------------------------------ operations: renaming labels / tags
    def make_index_map(self, tensors):
        """a rename map over labels of ``tensors`` (positional choice); targets fresh / existing same size / swap"""
        labs = []
        for t in tensors:
            for ix in t.inds:
                if ix not in labs:
                    labs.append(ix)
        if not labs:
            return None
        dims = self.dims()
        world = []
        for t in self.world_tensors():
            for ix in t.inds:
                if ix not in world:
                    world.append(ix)
        m = {}
        for _ in range(1 + self.ri(3)):
            old = self.choice(labs)
            if old in m:
                continue
            r = self.rng.random()
            if r < 0.5:
                m[old] = self.fresh()
            elif r < 0.8:
                cands = [w for w in world if w != old and dims.get(w) == dims.get(old)]
                if cands:
                    m[old] = self.choice(cands)
            else:
                cands = [w for w in labs if w != old and w not in m and dims.get(w) == dims.get(old)]
                if cands:
                    o2 = self.choice(cands)
                    m[old], m[o2] = o2, old
        if self.coin(0.1):
            m["absent_label"] = self.fresh()
        return m or None

    def op_reindex(self):
        A = self.pick_net(1)
        if A is None:
            return None
        m = self.make_index_map(A.members)
        if m is None:
            return None
        override = {id(t): tuple(m.get(ix, ix) for ix in t.inds) for t in A.members}
        inplace = self.coin(0.7)
        p = dict(op="reindex", inplace=inplace, map={self.ln(k): self.ln(v) for k, v in m.items()})
        if inplace:
            if not self.consistent(override):
                return None
            for t in A.members:
                self.exp_labels[id(t)] = (override[id(t)], frozenset(t.tags))
            alias = self.coin()
            ok, got = self.run(lambda: A.tn.reindex_(m) if alias else A.tn.reindex(m, inplace=True))
            if not ok:
                return p
            if got is not A.tn:
                self.eff.append("reindex_ did not return the network itself")
        else:
            if not self.repeats and any(len(set(v)) != len(v) for v in override.values()):
                return None
            # the copy must be consistent on its own
            sizes = {}
            for t in A.members:
                for ix, d in zip(override[id(t)], t.shape):
                    sizes.setdefault(ix, set()).add(d)
            if any(len(v) > 1 for v in sizes.values()) or len(self.nets) >= self.MAX_NETS:
                return None
            pre = self.snapshot()
            ok, got = self.run(lambda: A.tn.reindex(m))
            if not ok:
                return p
            fake = [self.qtn.Tensor(t.data, override[id(t)], t.tags) for t in A.members]
            self.register(got, A.rep or any(has_rep(f) for f in fake), ("copies", fake), pre)
        return p

    def op_retag(self):
        A = self.pick_net(1)
        if A is None:
            return None
        present = self.tags_in(A)
        if not present:
            return None
        m = {}
        for _ in range(1 + self.ri(2)):
            old = self.choice(present)
            r = self.rng.random()
            m[old] = self.fresh_tag() if r < 0.5 else (self.choice(present) if r < 0.8 else self.choice("ABCDE"))
        if len(m) == 2 and self.coin(0.3):
            a, b = list(m)
            m = {a: b, b: a}
        inplace = self.coin(0.7)
        p = dict(op="retag", inplace=inplace, map={str(k): str(v) for k, v in m.items()})
        newtags = {id(t): frozenset(m.get(g, g) for g in t.tags) for t in A.members}
        if inplace:
            for t in A.members:
                self.exp_labels[id(t)] = (tuple(t.inds), newtags[id(t)])
            ok, got = self.run(lambda: A.tn.retag_(m))
            if not ok:
                return p
        else:
            if len(self.nets) >= self.MAX_NETS:
                return None
            pre = self.snapshot()
            ok, got = self.run(lambda: A.tn.retag(m))
            if not ok:
                return p
            fake = [self.qtn.Tensor(t.data, t.inds, newtags[id(t)]) for t in A.members]
            self.register(got, A.rep, ("copies", fake), pre)
        return p

    def pick_shared_tensor(self):
        """a tensor held by some network, preferring tensors held by several networks"""
        count = {}
        objs = {}
        for n in self.nets:
            for t in n.members:
                count[id(t)] = count.get(id(t), 0) + 1
                objs[id(t)] = t
        if not objs:
            return None
        shared = [objs[i] for i in objs if count[i] > 1]
        allts = list(objs.values())
        return self.choice(shared) if shared and self.coin(0.7) else self.choice(allts)

    def op_tensor_inds(self):
        t = self.pick_shared_tensor()
        if t is None or not t.inds:
            return None
        how = self.ri(4)
        old = tuple(t.inds)
        tags = frozenset(t.tags)
        if how == 3:
            if has_rep(t):
                return None  # numpy cannot transpose by label when a label occurs twice
            perm = [int(i) for i in self.rng.permutation(len(old))]
            new = tuple(old[i] for i in perm)
            self.exp_labels[id(t)] = (new, tags)
            ok, _ = self.run(lambda: t.transpose_(*new))
            return dict(op="Tensor.transpose_", perm=perm)
        m = self.make_index_map([t])
        if m is None:
            return None
        new = tuple(m.get(ix, ix) for ix in old)
        if not self.consistent({id(t): new}):
            return None
        self.exp_labels[id(t)] = (new, tags)
        if how == 0:
            ok, _ = self.run(lambda: t.reindex_(m))
        elif how == 1:
            ok, _ = self.run(lambda: t.modify(inds=new))
        else:
            ok, _ = self.run(lambda: t.modify(inds=iter(new), left_inds=None))
        return dict(op=("Tensor.reindex_", "Tensor.modify(inds)", "Tensor.modify(inds iterator)")[how],
                    map={self.ln(k): self.ln(v) for k, v in m.items()}, old=self.lns(old))

    def op_tensor_tags(self):
        t = self.pick_shared_tensor()
        if t is None:
            return None
        how = self.ri(6)
        inds = tuple(t.inds)
        cur = list(t.tags)
        pool = list("ABCDE") + [self.fresh_tag()]
        if how == 0:
            new = [g for g in pool if self.coin(0.4)]
            self.exp_labels[id(t)] = (inds, frozenset(new))
            self.run(lambda: t.modify(tags=new))
            return dict(op="Tensor.modify(tags)", tags=new)
        if how == 1:
            g = self.choice(pool)
            self.exp_labels[id(t)] = (inds, frozenset(cur + [g]))
            self.run(lambda: t.add_tag(g))
            return dict(op="Tensor.add_tag", tag=g)
        if how == 2:
            gs = [self.choice(pool), self.choice(pool)]
            self.exp_labels[id(t)] = (inds, frozenset(cur + gs))
            self.run(lambda: t.add_tag(gs))
            return dict(op="Tensor.add_tag(seq)", tags=gs)
        if how == 3:
            if not cur:
                return None
            gs = [self.choice(cur)] + ([self.choice(pool)] if self.coin() else [])
            self.exp_labels[id(t)] = (inds, frozenset(g for g in cur if g not in gs))
            arg = gs if len(gs) > 1 or self.coin() else gs[0]
            self.run(lambda: t.drop_tags(arg))
            return dict(op="Tensor.drop_tags", tags=gs)
        if how == 4:
            self.exp_labels[id(t)] = (inds, frozenset())
            self.run(lambda: t.drop_tags())
            return dict(op="Tensor.drop_tags()")
        if not cur:
            return None
        m = {self.choice(cur): self.choice(pool)}
        self.exp_labels[id(t)] = (inds, frozenset(m.get(g, g) for g in cur))
        self.run(lambda: t.retag_(m))
        return dict(op="Tensor.retag_", map=m)

    def op_net_tags(self):
        A = self.pick_net(1)
        if A is None:
            return None
        pool = list("ABCDE") + [self.fresh_tag()]
        if self.coin(0.6):
            g = self.choice(pool) if self.coin(0.7) else [self.choice(pool), self.choice(pool)]
            gs = [g] if isinstance(g, str) else g
            where, which = None, "all"
            if self.coin(0.7):
                where = self.pick_tags(A, allow_absent=False)
                which = self.choice(WHICH4)
                if not where:
                    return None
            sel = A.members if where is None else self.matching(A, where, which)
            for t in sel:
                self.exp_labels[id(t)] = (tuple(t.inds), frozenset(list(t.tags) + gs))
            record = {} if self.coin(0.3) else None
            ok, _ = self.run(lambda: A.tn.add_tag(g, where=where, which=which, record=record))
            if ok and record is not None and {id(t) for t in record} != {id(t) for t in sel}:
                self.eff.append("add_tag(record=...) recorded other tensors than those matching `where`")
            return dict(op="add_tag", tag=gs, where=None if where is None else sorted(map(str, where)), which=which, n=len(sel))
        present = self.tags_in(A)
        if self.coin(0.15):
            for t in A.members:
                self.exp_labels[id(t)] = (tuple(t.inds), frozenset())
            self.run(lambda: A.tn.drop_tags())
            return dict(op="drop_tags()")
        if not present:
            return None
        gs = [self.choice(present)] + ([self.choice(present)] if self.coin(0.4) else [])
        for t in A.members:
            self.exp_labels[id(t)] = (tuple(t.inds), frozenset(g for g in t.tags if g not in gs))
        arg = gs if len(gs) > 1 or self.coin() else gs[0]
        self.run(lambda: A.tn.drop_tags(arg))
        return dict(op="drop_tags", tags=sorted(map(str, gs)))

    # ------------------------------------------------------------------ operations that change the arrays too
    def op_isel(self):
        A = self.pick_net(1)
        if A is None:
            return None
        labs = self.labels_in(A)
        if not labs:
            return None
        sel = {}
        for _ in range(1 + self.ri(2)):
            ix = self.choice(labs)
            d = next(iter(self.dims()[ix]))
            sel[ix] = self.ri(d)
        if any(has_rep(t) and set(sel).intersection(t.inds) for t in A.members):
            return None
        inplace = self.coin(0.75)
        p = dict(op="isel", inplace=inplace, sel={self.ln(k): v for k, v in sel.items()})
        newinds = {id(t): tuple(ix for ix in t.inds if ix not in sel) for t in A.members}
        if inplace:
            for t in A.members:
                self.exp_labels[id(t)] = (newinds[id(t)], frozenset(t.tags))
            self.run(lambda: A.tn.isel_(sel))
        else:
            if len(self.nets) >= self.MAX_NETS:
                return None
            pre = self.snapshot()
            fake = [self.qtn.Tensor(np.zeros([1] * len(newinds[id(t)])), newinds[id(t)], t.tags) for t in A.members]
            ok, got = self.run(lambda: A.tn.isel(sel))
            if ok:
                self.register(got, A.rep, ("copies", fake), pre)
        return p

    def op_squeeze(self):
        A = self.pick_net(1)
        if A is None:
            return None
        labs = self.labels_in(A)
        kw = {}
        r = self.rng.random()
        if labs and r < 0.3:
            kw["include"] = [self.choice(labs) for _ in range(2)]
        elif labs and r < 0.6:
            kw["exclude"] = [self.choice(labs) for _ in range(2)]
        if any(has_rep(t) for t in A.members):
            return None
        inc, exc = kw.get("include"), kw.get("exclude")

        def pred_for(t):
            old = tuple(t.inds)
            shp = tuple(t.shape)
            must = tuple(ix for ix, d in zip(old, shp) if d > 1 or (inc is not None and ix not in inc)
                         or (exc is not None and ix in exc))

            def pred(new):
                # a subsequence of the old labels that keeps every label which may not be squeezed
                it = iter(old)
                if not all(any(x == y for y in it) for x in new):
                    return False
                return all(ix in new for ix in must)

            return pred

        for t in A.members:
            self.exp_labels[id(t)] = (pred_for(t), frozenset(t.tags))
        self.run(lambda: A.tn.squeeze_(**kw))
        return dict(op="squeeze_", **{k: self.lns(v) for k, v in kw.items()})

    def op_data(self):
        """operations that must not touch labels / tags / membership at all"""
        A = self.pick_net(1)
        if A is None:
            return None
        how = self.ri(6)
        if how == 0:
            self.run(lambda: A.tn.multiply_(2.0, spread_over="all"))
            return dict(op="multiply_")
        if how == 1:
            self.run(lambda: A.tn.conj_())
            return dict(op="conj_")
        if how == 2:
            self.run(lambda: A.tn.equalize_norms_(1.0))
            return dict(op="equalize_norms_")
        if how == 3:
            t = self.pick_tensor(A)
            new = self.rand_data(t.shape)
            self.run(lambda: t.modify(data=new))
            return dict(op="Tensor.modify(data)")
        if how == 4:
            self.run(lambda: A.tn.apply_to_arrays(lambda x: x * 1.0))
            return dict(op="apply_to_arrays")
        mem = list(A.members)
        tid0 = self.ri(4)
        self.run(lambda: A.tn.make_tids_consecutive(tid0))
        if self.exc is None and sorted(A.tn.tensor_map) != list(range(tid0, tid0 + len(mem))):
            self.eff.append(f"make_tids_consecutive({tid0}) left tids {sorted(A.tn.tensor_map)}")
        return dict(op="make_tids_consecutive", tid0=tid0)

    # ------------------------------------------------------------------ structural operations
    def outer_set(self, tensors):
        occ = {}
        for t in tensors:
            for ix in t.inds:
                occ[ix] = occ.get(ix, 0) + 1
        return {ix for ix, c in occ.items() if c == 1}, occ

    def expect_structural(self, A, gone, new, touched=()):
        """members not in ``gone`` stay (same objects, same labels unless in ``touched``); ``new`` fresh tensors"""
        mem = list(A.members)
        self.exp_members[id(A)] = {"keep": [x for x in mem if all(x is not g for g in gone)], "gone": list(gone), "new": new}
        for t in list(gone) + list(touched):
            self.exp_labels[id(t)] = (WILD, WILD)

    def post_outer_preserved(self, A, outer_before, what):
        outer_after, _ = self.outer_set(A.tn.tensor_map.values())
        if outer_after != outer_before:
            self.eff.append(f"{what}: outer labels changed: lost {self.lns(sorted(outer_before - outer_after))} "
                            f"gained {self.lns(sorted(outer_after - outer_before))}")

    def op_split(self):
        A = self.pick_net(1)
        if A is None or len(A.members) >= self.MAX_TENSORS:
            return None
        t = self.pick_tensor(A, lambda x: len(x.inds) >= 2 and not has_rep(x))
        if t is None:
            return None
        ut = self.unique_tags_for(A, t)
        if ut is None:
            return None
        inds = list(t.inds)
        k = 1 + self.ri(len(inds) - 1)
        perm = [int(i) for i in self.rng.permutation(len(inds))]
        left = [inds[i] for i in perm[:k]]
        kw = {}
        r = self.ri(4)
        if r == 1:
            kw = dict(method="qr")
        elif r == 2:
            kw = dict(absorb="left", cutoff=0.0)
        elif r == 3:
            kw = dict(bond_ind=self.fresh(), max_bond=2)
        outer_before, _ = self.outer_set(A.members)
        world_labels = set(self.dims())
        self.expect_structural(A, [t], 2)
        ttags = frozenset(t.tags)
        mem = list(A.members)
        ok, _ = self.run(lambda: A.tn.split_tensor(ut if len(ut) > 1 else ut[0], left if len(left) > 1 else left[0], **kw))
        p = dict(op="split_tensor", tags=sorted(map(str, ut)), left=self.lns(left), inds=self.lns(inds), kw={k2: str(v) for k2, v in kw.items()})
        if not ok:
            return p
        self.post_outer_preserved(A, outer_before, "split_tensor")
        new = [x for x in A.tn.tensor_map.values() if all(x is not m for m in mem)]
        if len(new) == 2:
            bond = set(new[0].inds) & set(new[1].inds)
            if len(bond) != 1 or (bond & world_labels):
                self.eff.append(f"split_tensor: the factors share {self.lns(sorted(bond))}; expected exactly one label new to the world")
            if set(new[0].inds) ^ set(new[1].inds) != set(inds):
                self.eff.append("split_tensor: the factors do not carry exactly the labels of the tensor split")
            if any(not ttags <= frozenset(x.tags) for x in new):
                self.eff.append("split_tensor: a factor lost tags of the tensor split")
        self.stash([t])
        return p

    def contraction_domain(self, A, S):
        """no label twice on one tensor of S; result rank within bounds"""
        return not any(has_rep(t) for t in S)

    def op_contract_tags(self):
        A = self.pick_net(1)
        if A is None:
            return None
        tags = self.pick_tags(A, allow_absent=False)
        if not tags:
            return None
        which = self.choice(("any", "all"))
        S = self.matching(A, tags, which)
        if not S or not self.contraction_domain(A, S):
            return None
        _, occA = self.outer_set(A.members)
        _, occS = self.outer_set(S)
        # documented domain of output inference: within S a label occurs at most twice, and a label contracted
        # inside S does not reach outside S
        if any(c > 2 or (c == 2 and occA[ix] != 2) for ix, c in occS.items()):
            return None
        res_inds = {ix for ix, c in occS.items() if c == 1}
        if len(res_inds) > self.MAX_RANK:
            return None
        res_tags = frozenset().union(*[frozenset(t.tags) for t in S])
        outer_before, _ = self.outer_set(A.members)
        mem = list(A.members)
        how = self.ri(4)
        inplace = how != 3
        p = dict(op="contract_tags", how=how, tags=sorted(map(str, tags)), which=which, n=len(S), of=len(mem))
        if inplace:
            self.expect_structural(A, S, 1)
            if how == 0 or which == "all":
                ok, got = self.run(lambda: A.tn.contract_tags_(tags, which=which))
            elif how == 1:
                ok, got = self.run(lambda: A.tn.contract_(tags))
            else:
                def call():
                    tn = A.tn
                    tn ^= tags
                    return tn
                ok, got = self.run(call)
            if not ok:
                return p
            if got is not A.tn:
                self.eff.append("in-place contraction returned another object")
            self.post_outer_preserved(A, outer_before, "contract_tags_")
            new = [x for x in A.tn.tensor_map.values() if all(x is not m for m in mem)]
            if len(new) == 1 and (set(new[0].inds) != res_inds or frozenset(new[0].tags) != res_tags):
                self.eff.append(f"contracted tensor carries {self.lns(new[0].inds)} / {sorted(new[0].tags)}; expected labels "
                                f"{self.lns(sorted(res_inds))} and tags {sorted(res_tags)}")
            self.stash(S[:1])
        else:
            if len(self.nets) >= self.MAX_NETS:
                return None
            ok, got = self.run(lambda: A.tn.contract_tags(tags, which=which))
            if ok and isinstance(got, self.qtn.TensorNetwork):
                self.register(got, A.rep)
                outer_after, _ = self.outer_set(got.tensor_map.values())
                if outer_after != outer_before or got.num_tensors != len(mem) - len(S) + 1:
                    self.eff.append("contract_tags (copy): outer labels / tensor count of the result are off")
        return p

    def op_contract_ind(self):
        A = self.pick_net(2)
        if A is None:
            return None
        mem = list(A.members)
        outer_before, occA = self.outer_set(mem)
        how = self.ri(3)
        if how < 2:
            inner = [ix for ix in self.labels_in(A) if sum(1 for t in mem if ix in t.inds) >= 2]
            if not inner:
                return None
            ix = self.choice(inner)
            S = [t for t in mem if ix in t.inds]
            name = "contract_ind"
        else:
            t1 = self.pick_tensor(A)
            t2 = self.pick_tensor(A)
            u1, u2 = self.unique_tags_for(A, t1), self.unique_tags_for(A, t2)
            if t1 is t2 or u1 is None or u2 is None:
                return None
            S = [t1, t2]
            name = "contract_between"
        if not self.contraction_domain(A, S):
            return None
        _, occS = self.outer_set(S)
        res_inds = {jx for jx, c in occS.items() if c != occA[jx] or occA[jx] == 1}
        if len(res_inds) > self.MAX_RANK:
            return None
        self.expect_structural(A, S, 1)
        p = dict(op=name, n=len(S), of=len(mem))
        if how < 2:
            p["ind"] = self.ln(ix)
            ok, _ = self.run(lambda: A.tn.contract_ind(ix))
        else:
            ok, _ = self.run(lambda: A.tn.contract_between(u1, u2))
        if not ok:
            return p
        self.post_outer_preserved(A, outer_before, name)
        new = [x for x in A.tn.tensor_map.values() if all(x is not m for m in mem)]
        if len(new) == 1 and set(new[0].inds) != res_inds:
            self.eff.append(f"{name}: contracted tensor carries {self.lns(new[0].inds)}, expected {self.lns(sorted(res_inds))}")
        self.stash(S[:1])
        return p

    def op_gate(self):
        A = self.pick_net(1)
        if A is None or len(A.members) >= self.MAX_TENSORS:
            return None
        mem = list(A.members)
        outer_before, occA = self.outer_set(mem)
        cands = [(t, ix) for t in mem if not has_rep(t) for ix in t.inds if occA[ix] == 1]
        if not cands:
            return None
        ng = 1 + self.ri(2)
        t1, i1 = self.choice(cands)
        targets = [(t1, i1)]
        if ng == 2:
            c2 = [(t, ix) for t, ix in cands if t is not t1]
            if not c2:
                return None
            targets.append(self.choice(c2))
        inds = [ix for _, ix in targets]
        dims = self.dims()
        ds = [next(iter(dims[ix])) for ix in inds]
        D = int(np.prod(ds))
        G = self.rand_data((D, D)) + 2 * np.eye(D, dtype=self.dtype)
        if self.coin():
            G = G.reshape(ds + ds)
        modes = (False, True) if ng == 1 else (False, True, "split", "reduce-split", "split-gate", "swap-split-gate",
                                                "auto-split-gate")
        contract = self.choice(modes)
        if ng == 2 and contract is True:
            # eager contraction infers its output labels from the three tensors alone (documented domain of output
            # inference): a label shared by the two gated tensors must not reach a third tensor
            if any(occA[ix] != 2 for ix in targets[0][0].inds if ix in targets[1][0].inds):
                return None
        if contract in ("split", "reduce-split"):
            # these modes re-create the bond between the two tensors: they need exactly one plain bond (two
            # occurrences) between them, and its size may change, so no tensor outside A may carry it
            shared = [ix for ix in targets[0][0].inds if ix in targets[1][0].inds]
            if len(shared) != 1 or occA[shared[0]] != 2 or any(len(t.inds) > 4 for t, _ in targets):
                return None
            inA = {id(t) for t in mem}
            if any(id(t) not in inA and shared[0] in t.inds for t in self.world_tensors()):
                return None
        if contract in ("split-gate", "swap-split-gate", "auto-split-gate"):
            # these modes name the bond of the split gate literally "b" (size data dependent): keep one size per
            # label in the world by requiring that no tensor outside A carries a label "b"
            inA = {id(t) for t in mem}
            if any(id(t) not in inA and "b" in t.inds for t in self.world_tensors()):
                return None
        gtags = [self.choice("ABCDE")] if self.coin() else None
        touched = [t for t, _ in targets]
        inplace = self.coin(0.75)
        p = dict(op="gate_inds", inplace=inplace, ng=ng, contract=str(contract), inds=self.lns(inds), tags=gtags,
                 receiver_has_label_b=any("b" in t.inds for t in mem))
        if inplace:
            self.exp_members[id(A)] = {"keep": [x for x in mem if all(x is not g for g in touched)], "new": None}
            for t in touched:
                self.exp_labels[id(t)] = (WILD, WILD)
            arg = inds if self.coin() else tuple(inds)
            ok, _ = self.run(lambda: A.tn.gate_inds_(G, arg, contract=contract, tags=gtags))
            if ok:
                self.post_outer_preserved(A, outer_before, "gate_inds_")
        else:
            if len(self.nets) >= self.MAX_NETS:
                return None
            ok, got = self.run(lambda: A.tn.gate_inds(G, inds, contract=contract, tags=gtags))
            if ok:
                self.register(got, A.rep)
                outer_after, _ = self.outer_set(got.tensor_map.values())
                if outer_after != outer_before:
                    self.eff.append("gate_inds (copy): outer labels of the result differ from the receiver's")
        return p

    def op_fuse(self):
        A = self.pick_net(2)
        if A is None:
            return None
        mem = list(A.members)
        if any(has_rep(t) for t in mem):
            return None
        outer_before, occA = self.outer_set(mem)
        groups = {}
        for ix in self.labels_in(A):
            if occA[ix] >= 2:
                key = tuple(i for i, t in enumerate(mem) if ix in t.inds)
                groups.setdefault(key, []).append(ix)
        multi = {k: v for k, v in groups.items() if len(v) > 1}
        if not multi:
            return None
        affected = {ix for v in multi.values() for ix in v}
        # fusing changes the size of a surviving label: only in-domain when no tensor outside A carries it
        inA = {id(t) for t in mem}
        for t in self.world_tensors():
            if id(t) not in inA and affected.intersection(t.inds):
                return None
        touched = [mem[i] for k in multi for i in k]
        for t in touched:
            self.exp_labels[id(t)] = (WILD, frozenset(t.tags))
        how = self.ri(2)
        if how == 0:
            ok, _ = self.run(lambda: A.tn.fuse_multibonds_())
        else:
            ok, _ = self.run(lambda: A.tn.fuse_multibonds(inplace=True))
        if ok:
            self.post_outer_preserved(A, outer_before, "fuse_multibonds_")
            _, occ2 = self.outer_set(A.tn.tensor_map.values())
            g2 = {}
            for ix, c in occ2.items():
                if c >= 2:
                    key = tuple(i for i, t in enumerate(mem) if ix in t.inds)
                    g2.setdefault(key, []).append(ix)
            if any(len(v) > 1 for v in g2.values()):
                self.eff.append("fuse_multibonds_ left a multibond")
        return dict(op="fuse_multibonds_", how=how, groups=sorted(len(v) for v in multi.values()))

    def op_bonds(self):
        A = self.pick_net(2)
        if A is None:
            return None
        mem = list(A.members)
        how = self.ri(3)
        if how == 0:
            t1, t2 = self.pick_tensor(A), self.pick_tensor(A)
            u1, u2 = self.unique_tags_for(A, t1), self.unique_tags_for(A, t2)
            if t1 is t2 or u1 is None or u2 is None or len(t1.inds) >= self.MAX_RANK or len(t2.inds) >= self.MAX_RANK:
                return None
            world = set(self.dims())
            o1, o2 = tuple(t1.inds), tuple(t2.inds)

            def pred(old):
                return lambda new: len(new) == len(old) + 1 and [x for x in new if x in old] == list(old) and \
                    not (set(new) - set(old)) & world
            self.exp_labels[id(t1)] = (pred(o1), frozenset(t1.tags))
            self.exp_labels[id(t2)] = (pred(o2), frozenset(t2.tags))
            self.run(lambda: A.tn.new_bond(u1, u2))
            return dict(op="new_bond", t1=sorted(map(str, u1)), t2=sorted(map(str, u2)))
        if how == 1:
            _, occA = self.outer_set(mem)
            c = [ix for ix in self.labels_in(A) if occA[ix] == 2 and sum(1 for t in mem if ix in t.inds) == 2]
            if not c:
                return None
            ix = self.choice(c)
            for t in mem:
                if ix in t.inds:
                    self.exp_labels[id(t)] = (WILD, frozenset(t.tags))
            given = self.coin()
            l, r = (self.fresh(), self.fresh()) if given else (None, None)
            ok, got = self.run(lambda: A.tn.cut_bond(ix, l, r))
            if ok:
                carr = [t for t in mem if got[0] in t.inds or got[1] in t.inds]
                if ix in self.labels_in(A) or len(carr) != 2 or (given and tuple(got) != (l, r)):
                    self.eff.append("cut_bond: the bond survived / the new labels are not on the two tensors")
            return dict(op="cut_bond", ind=self.ln(ix), given=given)
        # mangle inner labels: every label occurring >= 2 times gets a name new to the world, outer labels stay
        if any(has_rep(t) for t in mem):
            return None
        outer_before, occA = self.outer_set(mem)
        world = set(self.dims())
        for t in mem:
            old = tuple(t.inds)

            def pred(new, old=old):
                if len(new) != len(old):
                    return False
                for a, b in zip(old, new):
                    if occA[a] == 1 and a != b:
                        return False
                    if occA[a] >= 2 and (b == a or b in world):
                        return False
                return True
            self.exp_labels[id(t)] = (pred, frozenset(t.tags))
        ok, _ = self.run(lambda: A.tn.mangle_inner_())
        if ok:
            self.post_outer_preserved(A, outer_before, "mangle_inner_")
            _, occ2 = self.outer_set(A.tn.tensor_map.values())
            if sorted(occ2.values()) != sorted(occA.values()):
                self.eff.append("mangle_inner_ changed the multiplicity structure of the labels")
        return dict(op="mangle_inner_")


    # ------------------------------------------------------------------ tensor-level structural changes through a (shared) tensor
    def op_tensor_struct(self):
        t = self.pick_shared_tensor()
        if t is None or has_rep(t):
            return None
        old = tuple(t.inds)
        tags = frozenset(t.tags)
        how = self.ri(5)
        if how == 0:
            if len(old) >= self.MAX_RANK:
                return None
            name, ax = self.fresh(), self.ri(len(old) + 1)
            size = 1 + self.ri(2)
            new = old[:ax] + (name,) + old[ax:]
            self.exp_labels[id(t)] = (new, tags)
            self.run(lambda: t.new_ind(name, size=size, axis=ax))
            return dict(op="Tensor.new_ind", axis=ax, size=size)
        if not old:
            return None
        if how == 1:
            ix = self.choice(old)
            self.exp_labels[id(t)] = (tuple(i for i in old if i != ix), tags)
            self.run(lambda: t.sum_reduce_(ix))
            return dict(op="Tensor.sum_reduce_", ind=self.ln(ix))
        if how == 2:
            ix = self.choice(old)
            k = self.ri(t.ind_size(ix))
            self.exp_labels[id(t)] = (tuple(i for i in old if i != ix), tags)
            self.run(lambda: t.isel_({ix: k}))
            return dict(op="Tensor.isel_", ind=self.ln(ix))
        if how == 3:
            self.exp_labels[id(t)] = (tuple(i for i, d in zip(old, t.shape) if d > 1), tags)
            self.run(lambda: t.squeeze_())
            return dict(op="Tensor.squeeze_")
        if len(old) < 2:
            return None
        # fuse two labels of the tensor into a fresh one: only in-domain when the tensor alone carries them
        perm = [int(i) for i in self.rng.permutation(len(old))]
        grp = [old[perm[0]], old[perm[1]]]
        if any(g in x.inds for x in self.world_tensors() if x is not t for g in grp):
            return None
        name = self.fresh()
        rest = [i for i in old if i not in grp]
        self.exp_labels[id(t)] = (lambda new: set(new) == set(rest) | {name} and len(new) == len(rest) + 1
                                  and [i for i in new if i != name] == rest, tags)
        self.run(lambda: t.fuse_({name: grp}))
        return dict(op="Tensor.fuse_", group=self.lns(grp))

    def op_simplify(self):
        A = self.pick_net(2)
        if A is None:
            return None
        mem = list(A.members)
        if any(has_rep(t) for t in mem):
            return None
        outer_before, occA = self.outer_set(mem)
        hyper = any(c > 2 for c in occA.values())
        inA = {id(t) for t in mem}
        private = not any(id(t) not in inA and set(t.inds) & {ix for ix, c in occA.items() if c >= 2} for t in self.world_tensors())
        how = self.ri(7)
        wild_all = lambda: (self.exp_members.__setitem__(id(A), {"keep": [], "new": None}),  # noqa
                            [self.exp_labels.__setitem__(id(t), (WILD, WILD)) for t in mem])
        if how == 0:
            if hyper:
                return None
            wild_all()
            ok, _ = self.run(lambda: A.tn.rank_simplify_())
            name = "rank_simplify_"
        elif how == 1:
            if hyper or not private:
                return None
            wild_all()
            ok, _ = self.run(lambda: A.tn.full_simplify_("ADCRS"))
            name = "full_simplify_"
        elif how == 2:
            if not hyper or len(mem) > 6:
                return None
            wild_all()
            mode = self.choice(("dense", "mps", "tree"))
            ok, _ = self.run(lambda: A.tn.hyperinds_resolve_(mode))
            name = "hyperinds_resolve_:" + mode
            if ok:
                _, occ2 = self.outer_set(A.tn.tensor_map.values())
                if any(c > 2 for c in occ2.values()):
                    self.eff.append("hyperinds_resolve_ left a label on more than two tensors")
        elif how in (3, 4):
            # pairwise operations on the plain bond(s) between two tensors
            pairs = [(a, b) for i, a in enumerate(mem) for b in mem[i + 1:]
                     if sum(1 for ix in a.inds if ix in b.inds) == 1
                     and all(occA[ix] == 2 for ix in a.inds if ix in b.inds)]
            if not pairs or not private:
                return None
            a, b = self.choice(pairs)
            ua, ub = self.unique_tags_for(A, a), self.unique_tags_for(A, b)
            if ua is None or ub is None:
                return None
            for t in (a, b):
                self.exp_labels[id(t)] = ((lambda new, old=tuple(t.inds): set(new) == set(old)), frozenset(t.tags))
            if how == 3:
                ok, _ = self.run(lambda: A.tn.canonize_between(ua, ub))
                name = "canonize_between"
            else:
                ok, _ = self.run(lambda: A.tn.compress_between(ua, ub, max_bond=2))
                name = "compress_between"
        elif how == 5:
            bonds = [ix for ix, c in occA.items() if c >= 2]
            if not bonds or not private:
                return None
            for t in mem:
                self.exp_labels[id(t)] = (tuple(t.inds), frozenset(t.tags))
            ok, _ = self.run(lambda: A.tn.expand_bond_dimension_(4))
            name = "expand_bond_dimension_"
        else:
            for t in mem:
                self.exp_labels[id(t)] = (tuple(t.inds), frozenset(t.tags))
            sub = self.ri(2)
            if sub == 0:
                ok, _ = self.run(lambda: A.tn.randomize_(seed=1))
            else:
                ok, _ = self.run(lambda: A.tn.astype_("complex128" if "complex" in self.dtype else "float64"))
            name = ("randomize_", "astype_")[sub]
        if ok and name == "full_simplify_":
            # diagonal_reduce produces hyper labels by design (an output label may end up on two tensors): the
            # occurrence-count classification may change, but no output label may disappear from the network
            _, occ2 = self.outer_set(A.tn.tensor_map.values())
            if not outer_before <= set(occ2):
                self.eff.append(f"full_simplify_ removed output labels {self.lns(sorted(outer_before - set(occ2)))}")
        elif ok:
            self.post_outer_preserved(A, outer_before, name)
        return dict(op=name)

    # ------------------------------------------------------------------ views, copies, partitions, pickling
    def op_view(self):
        if len(self.nets) >= self.MAX_NETS:
            return None
        A = self.pick_net()
        mem = list(A.members)
        pre = self.snapshot()
        how = self.ri(9)
        TN = self.qtn.TensorNetwork
        if how == 0:
            ok, got = self.run(lambda: A.tn.copy())
            spec = ("copies", mem)
            name = "copy"
        elif how == 1:
            ok, got = self.run(lambda: A.tn.copy(virtual=True))
            spec = ("same", mem)
            name = "copy(virtual)"
        elif how == 2:
            ok, got = self.run(lambda: A.tn.copy(deep=True))
            spec = ("copies", mem)
            name = "copy(deep)"
        elif how == 3:
            ok, got = self.run(lambda: pickle.loads(pickle.dumps(A.tn)))
            spec = ("copies", mem)
            name = "pickle"
        elif how == 4:
            v = self.coin()
            ok, got = self.run(lambda: TN(A.tn, virtual=v))
            spec = ("same" if v else "copies", mem)
            name = f"TensorNetwork(tn,virtual={v})"
        elif how == 5:
            v = self.coin()
            # from the tensor list: check_collisions is irrelevant for bare tensors
            ok, got = self.run(lambda: TN(A.tn.tensors, virtual=v))
            spec = ("same" if v else "copies", mem)
            name = f"TensorNetwork(tensors,virtual={v})"
        elif how == 6:
            ok, got = self.run(lambda: A.tn.as_network())
            if ok and got is not A.tn:
                self.eff.append("as_network() of a network is not the network")
            return dict(op="as_network")
        else:
            tags = self.pick_tags(A, allow_absent=False)
            if not tags:
                return None
            which = self.choice(WHICH4)
            v = self.coin()
            sel = self.matching(A, tags, which)
            ok, got = self.run(lambda: A.tn.select(tags, which=which, virtual=v))
            spec = ("same" if v else "copies", sel)
            name = f"select({which},virtual={v})"
        if ok:
            self.register(got, A.rep, spec, pre)
        return dict(op=name, cls=type(A.tn).__name__)

    def op_partition(self):
        if len(self.nets) + 2 > self.MAX_NETS:
            return None
        A = self.pick_net(1)
        if A is None:
            return None
        tags = self.pick_tags(A, allow_absent=False)
        if not tags:
            return None
        which = self.choice(("any", "all"))
        sel = self.matching(A, tags, which)
        rest = [t for t in A.members if all(t is not s for s in sel)]
        inplace = self.coin()
        pre = self.snapshot()
        how = self.ri(2)
        p = dict(op="partition" if how == 0 else "partition_tensors", inplace=inplace, tags=sorted(map(str, tags)), which=which,
                 n=len(sel), of=len(A.members))
        if how == 0:
            ok, got = self.run(lambda: A.tn.partition(tags, which=which, inplace=inplace))
            if not ok:
                return p
            rest_tn, sel_tn = got
            if inplace:
                if rest_tn is not A.tn:
                    self.eff.append("partition(inplace) did not return the receiver as the untagged part")
                self.exp_members[id(A)] = {"exact": rest}
            else:
                self.register(rest_tn, A.rep, ("copies", rest), pre)
            self.register(sel_tn, A.rep, ("copies", sel), pre)
        else:
            ok, got = self.run(lambda: A.tn.partition_tensors(tags, inplace=inplace, which=which))
            if not ok:
                return p
            rest_tn, ts = got
            if inplace:
                if rest_tn is not A.tn:
                    self.eff.append("partition_tensors(inplace) did not return the receiver")
                self.exp_members[id(A)] = {"exact": rest}
                if {id(t) for t in ts} != {id(t) for t in sel} or len(ts) != len(sel):
                    self.eff.append("partition_tensors(inplace) returned other tensors than those matching")
                self.stash(list(ts)[:2])
            else:
                self.register(rest_tn, A.rep, ("copies", rest), pre)
                if _labels_multiset(ts) != _labels_multiset(sel):
                    self.eff.append("partition_tensors returned tensors with other labels/tags than those matching")
        return p

    def op_drop(self):
        if len(self.nets) < 2:
            return None
        k = self.ri(len(self.nets))
        net = self.nets.pop(k)
        keep = self.coin(0.5)
        if keep:
            self.stash(net.members[:2])
        collect = self.coin()
        del net
        if collect:
            gc.collect()
        return dict(op="drop-network", k=k, gc=collect, keep_tensors=keep)

    def op_clear(self):
        A = self.pick_net(1)
        if A is None or len(self.nets) < 2:
            return None
        mem = list(A.members)
        self.exp_members[id(A)] = {"exact": []}
        self.run(lambda: A.tn.remove_all_tensors())
        self.stash(mem[:3])
        return dict(op="remove_all_tensors")

    # ------------------------------------------------------------------ combining networks
    def op_combine(self):
        if len(self.nets) < 2:
            return None
        A = self.pick_net()
        B = self.choice([n for n in self.nets if n is not A])
        if len(A.members) + len(B.members) > self.MAX_TENSORS + 3:
            return None
        virtual = self.coin()
        cc = self.coin(0.8)
        how = self.ri(5)
        inplace = how >= 3
        if how in (0, 4):
            cc = True  # the operators always check collisions
        if not cc:
            # check_collisions=False is the caller's promise that no inner label of one network occurs in the other (two
            # networks of one history can share bond names, e.g. after copies): keep the promise, else ask for the check
            la = {ix for t in A.members for ix in t.inds}
            lb = {ix for t in B.members for ix in t.inds}
            ia = {ix for ix in la if sum(ix in t.inds for t in A.members) > 1}
            ib = {ix for ix in lb if sum(ix in t.inds for t in B.members) > 1}
            if (ia & lb) or (ib & la):
                cc = True
        if (virtual or inplace) and any(a is b for a in A.members for b in B.members):
            return None  # one tensor object twice in one network: outside the domain
        if not inplace and len(self.nets) >= self.MAX_NETS:
            return None
        amem, bmem = list(A.members), list(B.members)
        a_inds = [tuple(t.inds) for t in amem]
        b_inds = [tuple(t.inds) for t in bmem]
        TN = self.qtn.TensorNetwork
        pre = self.snapshot()
        # B's tensors may be renamed in place by a virtual combination (clashing inner labels)
        if virtual and cc:
            for t in bmem:
                self.exp_labels[id(t)] = (WILD, frozenset(t.tags))
        if how == 0:
            name = "|" if virtual else "&"
            ok, R = self.run(lambda: (A.tn | B.tn) if virtual else (A.tn & B.tn))
        elif how == 1:
            name = "TensorNetwork([A,B])"
            ok, R = self.run(lambda: TN([A.tn, B.tn], virtual=virtual, check_collisions=cc))
        elif how == 2:
            name = "combine"
            ok, R = self.run(lambda: A.tn.combine(B.tn, virtual=virtual, check_collisions=cc))
        elif how == 3:
            name = "add_tensor_network"
            ok, _ = self.run(lambda: A.tn.add_tensor_network(B.tn, virtual=virtual, check_collisions=cc))
            R = A.tn
        else:
            name = "|=" if virtual else "&="

            def call():
                tn = A.tn
                if virtual:
                    tn |= B.tn
                else:
                    tn &= B.tn
                if tn is not A.tn:
                    raise AssertionError("in-place operator returned another object")
            ok, _ = self.run(call)
            R = A.tn
        p = dict(op="combine:" + name, virtual=virtual, check_collisions=cc, na=len(amem), nb=len(bmem))
        if not ok:
            return p
        if inplace:
            if virtual:
                self.exp_members[id(A)] = {"exact": amem + bmem}
            else:
                self.exp_members[id(A)] = {"keep": amem, "new": len(bmem)}
            A.rep = A.rep or B.rep
        else:
            self.register(R, A.rep or B.rep)
        self.comb = self.check_combination(R, amem, a_inds, bmem, b_inds, virtual, cc, inplace)
        return p

    def check_combination(self, R, amem, a_inds, bmem, b_inds, virtual, cc, inplace):
        """never makes two previously distinct bonds coincide, never renames an outer label"""
        rts = list(R.tensor_map.values())
        na, nb = len(amem), len(bmem)
        if len(rts) != na + nb:
            return f"result holds {len(rts)} tensors, operands {na}+{nb}"
        # positional correspondence (operands are added in order); checked through the shared data arrays
        for src, r in zip(amem + bmem, rts):
            if virtual or (inplace and any(src is a for a in amem)):
                if r is not src:
                    return "virtual combination does not hold the operands' tensor objects in order"
            else:
                if r is src:
                    return "copying combination holds an operand's tensor object"
                if r.data is not src.data and not np.array_equal(r.data, src.data):
                    return "tensor order of the combination does not follow the operands (cannot align positions)"
            if len(r.inds) != len(src.inds):
                return "a tensor changed rank in the combination"
        before = list(a_inds) + list(b_inds)
        after = [tuple(t.inds) for t in rts]

        def occ_of(inds_list):
            o = {}
            for inds in inds_list:
                for ix in inds:
                    o[ix] = o.get(ix, 0) + 1
            return o

        oa, ob = occ_of(a_inds), occ_of(b_inds)
        pos = [(i, ax) for i, inds in enumerate(before) for ax in range(len(inds))]
        if not cc:
            if before != after:
                return "check_collisions=False renamed a label"
            return None
        for (i, ax) in pos:
            old, new = before[i][ax], after[i][ax]
            o = oa if i < na else ob
            if o[old] == 1 and new != old:
                return f"outer label {self.ln(old)} of operand {'A' if i < na else 'B'} was renamed to {self.ln(new)}"
        for x in range(len(pos)):
            i, ax = pos[x]
            for y in range(x + 1, len(pos)):
                j, bx = pos[y]
                same_before = before[i][ax] == before[j][bx]
                same_after = after[i][ax] == after[j][bx]
                if (i < na) == (j < na):
                    if same_before != same_after:
                        return (f"labels inside one operand: {self.ln(before[i][ax])},{self.ln(before[j][bx])} -> "
                                f"{self.ln(after[i][ax])},{self.ln(after[j][bx])} (bond split or merged)")
                else:
                    lab = before[i][ax]
                    both_inner = same_before and oa.get(lab, 0) >= 2 and ob.get(lab, 0) >= 2
                    want = same_before and not both_inner
                    if same_after != want:
                        return (f"across operands: {self.ln(before[i][ax])} (x{oa.get(before[i][ax], 0)} in A) and "
                                f"{self.ln(before[j][bx])} (x{ob.get(before[j][bx], 0)} in B) -> "
                                f"{self.ln(after[i][ax])},{self.ln(after[j][bx])}: "
                                f"{'two distinct bonds coincide' if same_after else 'a shared label was separated'}")
        return None

    # ------------------------------------------------------------------ initial world
    def build(self):
        qtn, TN = self.qtn, self.qtn.TensorNetwork
        kind = self.kind
        if kind == "random":
            for _ in range(3 + self.ri(4)):
                self.loose.append(self.new_tensor())
            pool = list(self.loose)
            n_nets = 1 + self.ri(3)
            for k in range(n_nets):
                ts = [t for t in pool if self.coin(0.6)]
                if k > 0 and self.nets[0].members and self.coin(0.8):
                    # overlap with the first network through shared tensor objects
                    for t in self.nets[0].members:
                        if self.coin(0.5) and all(t is not x for x in ts):
                            ts.append(t)
                virtual = self.coin(0.7)
                ids = set()
                ts = [t for t in ts if not (id(t) in ids or ids.add(id(t)))]
                self.nets.append(Net(TN(ts, virtual=virtual), any(has_rep(t) for t in ts)))
            held = {id(t) for n in self.nets for t in n.members}
            self.loose = [t for t in self.loose if id(t) not in held][:4]
            return
        if kind == "mps":
            L = 1 + self.ri(4)
            psi = qtn.MPS_rand_state(L, 1 + self.ri(3), phys_dim=1 + self.ri(3), dtype=self.dtype,
                                     cyclic=L > 2 and self.coin(0.3), seed=self.ri(1 << 30))
            self.nets.append(Net(psi))
            r = self.ri(3)
            if r == 0:
                self.nets.append(Net(psi.H))
            elif r == 1:
                A = qtn.MPO_rand_herm(L, 2, phys_dim=psi.phys_dim(0), dtype=self.dtype, seed=self.ri(1 << 30))
                self.nets.append(Net(A))
            else:
                self.nets.append(Net(psi.select(psi.site_tag(0), virtual=True)))
        elif kind == "peps":
            peps = qtn.PEPS.rand(1 + self.ri(2), 2, 2, dtype=self.dtype, seed=self.ri(1 << 30))
            self.nets.append(Net(peps))
            if self.coin():
                self.nets.append(Net(peps.copy(virtual=True)))
        else:
            tn = qtn.TN_rand_reg(4, 3, 2, phys_dim=2 if self.coin() else None, dtype=self.dtype, seed=self.ri(1 << 30))
            self.nets.append(Net(tn))
            if self.coin():
                self.nets.append(Net(tn.conj(mangle_inner=self.coin())))


OPS = [("add", 10), ("pop", 7), ("setitem", 5), ("del", 4), ("reindex", 10), ("retag", 6), ("tensor_inds", 10),
       ("tensor_tags", 8), ("net_tags", 6), ("isel", 4), ("squeeze", 3), ("data", 3), ("split", 5), ("contract_tags", 5),
       ("contract_ind", 5), ("gate", 5), ("fuse", 4), ("bonds", 4), ("tensor_struct", 5), ("simplify", 5), ("view", 9), ("partition", 4), ("drop", 6),
       ("clear", 1), ("combine", 10)]
_OPW = np.array([w for _, w in OPS], dtype=float)
_OPW /= _OPW.sum()

VIEW_OPS = {"copy", "pickle", "TensorNetwork", "select", "partition", "partition_tensors", "reindex", "retag", "isel"}
C_RUN = "public TensorNetwork/Tensor operation on an in-domain input completes"
C_EFF = "tensor_map and the tensors' labels/tags show exactly the abstract effect of the operation (shadow model by object identity)"
C_MAPS = "ind_map / tag_map / all_inds / tags / num_* equal an independent recount of the tensors' inds and tags; tn.check() passes"
C_IO = "_inner_inds / _outer_inds / inner_inds() / outer_inds() equal the recount (inner: >= 2 occurrences with multiplicity, outer: exactly 1)"
C_OWN = "Tensor.owners: every holder network registered under the right tid, every live owner entry holds the tensor"
C_SIZE = "ind sizes agree across all tensors of a network sharing a label; ind_size / ind_sizes agree with the tensors"
C_SEL = "select / select_tensors / _get_tids_from_tags / _get_tids_from_inds / tn[...] / select_neighbors return exactly the tensors carrying the tags / labels"
C_VIEW = "networks returned by copy / select / partition / pickle / non-in-place spellings hold exactly the expected tensors (the same objects when virtual, equal labelled copies otherwise)"
C_COMB = "combining networks (&, |, add_tensor_network, TensorNetwork([..]), combine) never merges two distinct bonds, never splits one, never renames an outer label"


def run_history(cx, qtn, base, steps):
    """returns False when the history was abandoned because of a violation"""
    W = Walker(cx.rng, qtn, base["repeats"], base["dtype"], base["kind"])
    try:
        W.build()
    except Exception as e:  # noqa
        cx.check(C_RUN, dict(base, step=0, op=dict(op="init")), lambda: (_ for _ in ()).throw(e))
        return False
    rng = cx.rng
    for s in range(steps + 1):
        W.exc, W.eff, W.view, W.comb, W.exp_members, W.exp_labels = None, [], [], None, {}, {}
        pre = W.snapshot()
        p = None
        if s == 0:
            p = dict(op="init", nets=[len(n.members) for n in W.nets])
        else:
            if len(W.nets) >= W.MAX_NETS and W.coin(0.7):
                p = W.op_drop()
            for _ in range(12):
                if p is not None:
                    break
                name = OPS[int(rng.choice(len(OPS), p=_OPW))][0]
                W.exc, W.eff, W.view, W.comb, W.exp_members, W.exp_labels = None, [], [], None, {}, {}
                p = getattr(W, "op_" + name)()
            if p is None:
                p = dict(op="noop")
        exc = W.exc
        t_ok = exc is None
        W.exc = None
        eff = W.verify_effect(pre) if exc is None else None
        comb = W.comb
        view = list(W.view)
        del pre
        W.resync()
        if not W.repeats and any(n.rep for n in W.nets):
            eff = (eff or "") + " [driver: a label occurs twice on one tensor in a history generated without repeats]"
        params = dict(base, step=s, op=p)
        tns = [n.tn for n in W.nets]
        loose = list(W.loose)
        # selection query (drawn here, positional)
        q = None
        cand = [n for n in W.nets if n.members]
        if cand:
            qn = W.choice(cand)
            qtags = W.pick_tags(qn)
            qwhich = W.choice(WHICH4)
            labs = W.labels_in(qn)
            qinds = [W.choice(labs) for _ in range(1 + W.ri(2))] if labs and W.coin(0.7) else []
            qinds = list(dict.fromkeys(qinds))
            qiw = W.choice(WHICH4)
            q = (qn.tn, qtags, qwhich, qinds, qiw)

        def t_run(exc=exc):
            if exc is not None:
                raise exc

        def t_all(f):
            def thunk():
                for k, tn in enumerate(tns):
                    e = f(tn)
                    if e:
                        return f"net {k} ({type(tn).__name__}, {tn.num_tensors} tensors): {e}"
            return thunk

        # a history is abandoned at its first violation of a contract about persistent state (they would cascade);
        # wrong views / selections do not corrupt the world (the shadow is re-synchronised every step)
        if cx.check(C_RUN, params, t_run) == "violation":
            return False
        del exc, t_run
        if cx.check(C_EFF, params, lambda eff=eff: eff) == "violation":
            return False
        if view or p.get("op", "").split("(")[0] in VIEW_OPS:
            cx.check(C_VIEW, params, lambda view=view: "; ".join(view[:3]) or None)
        if p.get("op", "").startswith("combine:") and t_ok:
            if cx.check(C_COMB, params, lambda comb=comb: comb) == "violation":
                return False
        results = [cx.check(C_OWN, params, lambda: check_owners(tns, loose))]
        results.append(cx.check(C_MAPS, params, t_all(check_maps)))
        for k, n in enumerate(W.nets):
            results.append(cx.check(C_IO, dict(params, net=k, repeated_label_on_one_tensor=bool(n.rep)),
                                    lambda n=n: check_inner_outer(n.tn)))
        results.append(cx.check(C_SIZE, params, t_all(check_sizes)))
        if q is not None:
            cx.check(C_SEL, dict(params, q=dict(tags=sorted(map(str, q[1])), which=q[2], inds=W.lns(q[3]), iwhich=q[4])),
                     lambda q=q: check_selection(*q))
        if "violation" in results:
            return False
    return True


def _histories(cx, n_quick, n_thorough, steps_quick, steps_thorough, kinds, repeats_every):
    import quimb.tensor as qtn

    n = n_quick if cx.quick else n_thorough
    steps = steps_quick if cx.quick else steps_thorough
    dts = ("float64", "complex128", "float32", "complex64")
    for h in range(n):
        mine = cx.mine()
        if not mine:
            continue
        if cx.out_of_time():
            cx.inconclusive.append(f"{cx.name}: time budget exhausted at history {h} of {n}")
            return
        base = dict(h=h, kind=kinds[h % len(kinds)], repeats=bool(repeats_every and h % repeats_every == repeats_every - 1),
                    dtype=dts[(h + h // 6) % 4])
        run_history(cx, qtn, base, steps)
        if h % 50 == 0:
            gc.collect()


@driver("C02", "history-walker-random", chunks=8, timeout=300,
        bound="random histories (quick 600 x 25 steps, thorough 1600 x 100) over 25 operation families (add/pop/[]=/del/delete/reindex/retag/"
              "Tensor.modify|reindex_|transpose_|add_tag|drop_tags|retag_/add_tag|drop_tags/isel/squeeze/split_tensor/"
              "contract_tags|contract_|^=/contract_ind|contract_between/gate_inds (7 modes)/fuse_multibonds_/new_bond|cut_bond|"
              "mangle_inner_/copy|virtual copy|deep copy|pickle|select views/partition|partition_tensors/drop+gc/"
              "remove_all_tensors/&,|,&=,|=,add_tensor_network,combine) on 1-5 live networks sharing tensor objects; "
              "hyper-graphs of <= 12 tensors, rank <= 5, dims 1-3, hyper labels allowed, 4 dtypes; every 6th history also "
              "puts one label twice on one tensor; never one tensor object twice in one network; one size per label world-wide")
def walker_random(cx):
    _histories(cx, 600, 1600, 25, 100, ("random",), 6)


@driver("C02", "history-walker-structured", chunks=4, timeout=300,
        bound="(quick 160 x 25 steps, thorough 400 x 60) same walker started from MatrixProductState (L 1-4, open/cyclic, with its conjugate / an MPO / a virtual site "
              "view), PEPS (1-2 x 2) and TN_rand_reg(4,3) networks (subclass views, site tags); no repeated labels")
def walker_structured(cx):
    _histories(cx, 160, 400, 25, 60, ("mps", "peps", "reg", "mps"), 0)


# ----------------------------------------------------------------------------------------------
# owner registry when a dropped view's address is reused by a new view
# ----------------------------------------------------------------------------------------------


@driver("C02", "owner-registry-after-address-reuse", chunks=1, timeout=120,
        bound="a network of 2..5 tensors; a virtual view of it is dropped without touching its tensors and a new virtual view of "
              "the same tensors is created at once (CPython hands out the freed address again: up to 60 attempts, alternating "
              "del / del + gc.collect(), until hash(new view) == hash(dropped view)); then a tag and a label are renamed through "
              "one shared tensor: the maps of the original AND of the new view equal a recount, every holder is a registered "
              "owner, selection by the new tag finds the tensor in both")
def owner_reuse(cx):
    import gc

    import quimb.tensor as qtn

    rng = cx.rng
    ncase = 12 if cx.quick else 120
    for i in range(ncase):
        nt = int(rng.integers(2, 6))
        how = ("TensorNetwork(ts, virtual=True)", "select(virtual=True)", "copy(virtual=True)")[i % 3]
        seed = int(rng.integers(1 << 30))

        def t(nt=nt, how=how, seed=seed):
            r = np.random.default_rng(seed)
            ts = [qtn.Tensor(r.normal(size=(2, 2)), inds=(f"b{k}", f"b{k + 1}"), tags=(f"T{k}", "ALL")) for k in range(nt)]
            tn = qtn.TensorNetwork(ts, virtual=True)

            def view():
                if how.startswith("TensorNetwork"):
                    return qtn.TensorNetwork(list(tn.tensor_map.values()), virtual=True)
                if how.startswith("select"):
                    return tn.select("ALL", virtual=True)
                return tn.copy(virtual=True)

            reused = False
            v = None
            for attempt in range(60):
                old = view()
                h = hash(old)
                del old
                if attempt % 2:
                    gc.collect()
                v = view()
                if hash(v) == h:
                    reused = True
                    break
                del v
                v = None
            if v is None:
                v = view()
            # rename through one shared tensor
            tt = tn["T1"] if nt > 1 else tn["T0"]
            tt.retag_({"T1" if nt > 1 else "T0": "RENAMED"})
            tt.reindex_({tt.inds[0]: "newlabel"})
            for nm, net in (("original", tn), ("new view", v)):
                e = check_maps(net) or check_inner_outer(net)
                if e:
                    return f"{nm} after a rename through a shared tensor (address reused: {reused}): {e}"
                got = net.select_tensors("RENAMED")
                if len(got) != 1 or got[0] is not tt:
                    return f"{nm}: select_tensors('RENAMED') finds {len(got)} tensors (address reused: {reused})"
                if "newlabel" not in net.ind_map:
                    return f"{nm}: the renamed label is missing from ind_map (address reused: {reused})"
            e = check_owners([tn, v], ())
            if e:
                return f"owners (address reused: {reused}): {e}"
            if not reused:
                return None
            return None

        cx.check("a new virtual view created at the address of a dropped one is a registered owner: renames through a shared "
                 "tensor reach its maps", dict(i=i, nt=nt, how=how), t)
