"""C04 bounded stand-in: gauging / canonization / simplification rewrites preserve the denoted tensor.

Every rewrite named in the property is applied, alone and composed in random orders, to small random tree / loopy /
hyper / structured networks.  Contract of one step: the dense tensor over the same outer labels (numpy.einsum over the
raw arrays of the network, times 10**exponent -- no quimb contraction involved) is the same before and after, and the
forms the rewrite promises hold (flagged tensors are isometries, canonical region, bonds not larger, equal norms,
no multibonds / hyper labels left ...).  Every step is judged against the network it received, so a defect of one
rewrite does not leak into the verdict of the following ones.
"""

from collections import Counter

import numpy as np

from vf.rtc import driver

DTYPES = ["float64", "complex128", "float32", "complex64"]
SINGLE = ("float32", "complex64")


# ----------------------------------------------------------------------------------------------
# reference semantics (plain numpy)
# ----------------------------------------------------------------------------------------------


def _plain_einsum(arrays, labels, out):
    """numpy.einsum in sublist form over arbitrary hashable labels, one nested loop (no path optimisation)"""
    sym = {}
    for lab in labels:
        for x in lab:
            sym.setdefault(x, len(sym))
    if len(sym) > 52:
        raise RuntimeError("reference einsum: more than 52 labels in one elimination step")
    args = []
    for a, lab in zip(arrays, labels):
        args.append(a)
        args.append([sym[x] for x in lab])
    args.append([sym[x] for x in out])
    return np.einsum(*args)


def _einsum(arrays, labels, out):
    """sum-of-products over all labels not in `out` (any multiplicity) by bucket elimination: repeatedly take the label
    whose holders span the fewest index combinations, multiply its holders together and sum it out.  Plain numpy only;
    the cost is bounded by the width of the network, not by the number of labels (networks with resolved hyper labels
    have dozens of them)"""
    out = tuple(out)
    size = {}
    for a, lab in zip(arrays, labels):
        for d, x in zip(np.shape(a), lab):
            size[x] = d
    for x in out:
        if x not in size:
            raise KeyError(f"output label {x!r} is not a label of the network")
    ts = [(np.asarray(a), tuple(lab)) for a, lab in zip(arrays, labels)]
    while True:
        todo = {x for _, lab in ts for x in lab if x not in out}
        if not todo:
            break
        best = None
        for x in sorted(todo):
            union = set()
            for _, lab in ts:
                if x in lab:
                    union.update(lab)
            cost = 1.0
            for y in union:
                cost *= size[y]
            if best is None or cost < best[0]:
                best = (cost, x)
        x = best[1]
        bucket = [t for t in ts if x in t[1]]
        ts = [t for t in ts if x not in t[1]]
        keep = []
        for _, lab in bucket:
            for y in lab:
                if y != x and y not in keep:
                    keep.append(y)
        ts.append((_plain_einsum([a for a, _ in bucket], [lab for _, lab in bucket], keep), tuple(keep)))
    if not ts:
        return np.ones(())
    return _plain_einsum([a for a, _ in ts], [lab for _, lab in ts], out)


def den(arrays, labels, out, exponent=0.0):
    """(value, scale) in double precision; scale = same sum over the moduli (bounds the size of the summed terms)"""
    cplx = any(np.iscomplexobj(a) for a in arrays)
    up = [np.asarray(a, dtype=np.complex128 if cplx else np.float64) for a in arrays]
    f = 10.0 ** float(np.real(exponent))
    val = _einsum(up, labels, out) * f
    sc = _einsum([np.abs(a) for a in up], labels, out) * f
    return val, float(np.max(sc)) if np.size(sc) else 0.0


def _no_nested_pools():
    import cotengra.parallel as par

    par._IS_WORKER = True


def _rand_array(rng, shape, dtype):
    x = rng.normal(size=shape)
    if dtype.startswith("complex"):
        x = x + 1j * rng.normal(size=shape)
    return np.asarray(x).astype(dtype)


# ----------------------------------------------------------------------------------------------
# snapshots: a network as plain data (so that every step can be rebuilt and replayed on its own)
# ----------------------------------------------------------------------------------------------


class Snap:
    """arrays / labels / tags / isometry flags / exponent (+ external bond gauges) of a network as plain data"""

    def __init__(self, arrays, labels, tags, flags, exponent, out=None, gauges=None):
        self.arrays = [np.array(a) for a in arrays]
        self.labels = [tuple(x) for x in labels]
        self.tags = [tuple(t) for t in tags]
        self.flags = [None if f is None else tuple(f) for f in flags]
        self.exponent = float(np.real(exponent))
        self.gauges = None if gauges is None else {k: np.array(v) for k, v in gauges.items()}
        self.nt = len(self.arrays)
        self.counts = Counter(x for lab in self.labels for x in lab)
        self.sizes = {}
        self.inconsistent = {}
        for a, lab in zip(self.arrays, self.labels):
            for d, x in zip(a.shape, lab):
                if self.sizes.setdefault(x, d) != d:
                    self.inconsistent[x] = sorted({self.sizes[x], d} | set(self.inconsistent.get(x, ())))
        self.inferred = tuple(sorted(x for x, c in self.counts.items() if c == 1))
        self.out = tuple(self.inferred if out is None else out)
        self.self_trace = any(len(set(lab)) != len(lab) for lab in self.labels)
        # "plain": every label sits on one or two tensors and the outputs are exactly the labels occurring once
        self.plain = (all(c <= 2 for c in self.counts.values()) and not self.self_trace
                      and set(self.out) == set(self.inferred))
        self._val = None

    @property
    def zero(self):
        """the network is identically zero (every summed term vanishes)"""
        return self.value()[1] == 0.0

    @property
    def well_scaled(self):
        """every tensor has 1e-6 <= max |entry| <= 1e6: the passes that detect structure compare entries with an
        *absolute* atol of 1e-12, which is only meaningful for such tensors"""
        for a in self.arrays:
            m = float(np.max(np.abs(a))) if np.size(a) else 1.0
            if m != 0.0 and not (1e-6 <= m <= 1e6):
                return False
        return True

    @property
    def double(self):
        return all(np.asarray(a).dtype in (np.float64, np.complex128) for a in self.arrays)

    def by_utag(self):
        """the same snapshot with tensor k being the one tagged U{k} (None when the U tags are not a bijection)"""
        pos = {}
        for k, tg in enumerate(self.tags):
            us = [t for t in tg if t.startswith("U") and t[1:].isdigit()]
            if len(us) != 1 or int(us[0][1:]) in pos:
                return None
            pos[int(us[0][1:])] = k
        if sorted(pos) != list(range(self.nt)):
            return None
        o = [pos[k] for k in range(self.nt)]
        return Snap([self.arrays[k] for k in o], [self.labels[k] for k in o], [self.tags[k] for k in o],
                    [self.flags[k] for k in o], self.exponent, self.out, self.gauges)

    @staticmethod
    def of(tn, out=None, gauges=None):
        ts = list(tn.tensor_map.values())
        return Snap([np.asarray(t.data) for t in ts], [t.inds for t in ts], [tuple(t.tags) for t in ts],
                    [t.left_inds for t in ts], tn.exponent, out, gauges)

    def value(self):
        """(dense tensor over self.out, sum of |terms|); external gauges enter as a vector on their label"""
        if self._val is None:
            arrays, labels = list(self.arrays), list(self.labels)
            for ix, g in (self.gauges or {}).items():
                if ix in self.counts:
                    arrays.append(np.asarray(g))
                    labels.append((ix,))
            self._val = den(arrays, labels, self.out, self.exponent)
        return self._val

    def scale(self):
        """tolerance scale: the sum of |terms|, but at least 1% of the product of the tensor norms (a network whose
        terms vanish structurally still picks up rounding of that size from inverse gauges)"""
        pn = 10.0 ** self.exponent
        for a in self.arrays:
            pn *= float(np.linalg.norm(np.asarray(a, dtype=np.complex128).ravel()))
        return max(self.value()[1], 1e-2 * pn)

    def mk(self, qtn):
        """fresh quimb network; tensor k additionally gets the unique tag U{k}"""
        ts = []
        for k in range(self.nt):
            tg = tuple(t for t in self.tags[k] if not (t.startswith("U") and t[1:].isdigit()) and t != "N") + ("N", f"U{k}")
            ts.append(qtn.Tensor(self.arrays[k].copy(), inds=self.labels[k], tags=tg, left_inds=self.flags[k]))
        tn = qtn.TensorNetwork(ts)
        tn.exponent = self.exponent
        return tn

    # ---- structure, re-derived from the labels only ------------------------------------------------------
    def holders(self, x):
        return [k for k in range(self.nt) if x in self.labels[k]]

    def shared(self, i, j):
        return [x for x in self.labels[i] if x in self.labels[j]]

    def edges(self):
        e = {}
        for x in self.counts:
            h = self.holders(x)
            if len(h) == 2:
                e.setdefault((h[0], h[1]), []).append(x)
        return e

    def neighbours(self):
        nb = {k: set() for k in range(self.nt)}
        for (i, j) in self.edges():
            nb[i].add(j)
            nb[j].add(i)
        return nb

    def connected(self):
        if self.nt == 0:
            return True
        nb, seen, todo = self.neighbours(), {0}, [0]
        while todo:
            for j in nb[todo.pop()]:
                if j not in seen:
                    seen.add(j)
                    todo.append(j)
        return len(seen) == self.nt

    def is_tree(self):
        return self.plain and self.connected() and len(self.edges()) == self.nt - 1

    def is_chain(self):
        nb = self.neighbours()
        return self.is_tree() and all(len(v) <= 2 for v in nb.values())

    def shrinkable(self):
        """some bond is larger than its generic rank: bond size > product of the other (effective) sizes of one of
        its two tensors, iterated to the fixed point (exact for random data on trees)"""
        eff = dict(self.sizes)
        edges = self.edges()
        changed = True
        while changed:
            changed = False
            for (i, j), labs in edges.items():
                d = int(np.prod([eff[x] for x in labs]))
                for k in (i, j):
                    others = int(np.prod([eff[x] for x in self.labels[k] if x not in labs]))
                    if others < d:
                        # shrink the (fused) bond: keep the product consistent by putting it on the first label
                        eff[labs[0]] = others
                        for x in labs[1:]:
                            eff[x] = 1
                        d = others
                        changed = True
        return any(eff[x] < self.sizes[x] for x in eff)

    def max_rank(self):
        return max([a.ndim for a in self.arrays] or [0])


def _rtol(dt, loose=False):
    if dt in SINGLE:
        return 5e-3 if loose else 1e-3
    return 1e-6 if loose else 1e-8


def _cmp(got, ref, scale, rtol, what="value"):
    got, ref = np.asarray(got), np.asarray(ref)
    if got.shape != ref.shape:
        return f"{what}: shape {got.shape} != reference {ref.shape}"
    if not np.all(np.isfinite(got)):
        return f"{what}: non-finite entries"
    tol = rtol * max(scale, 1e-300)
    err = float(np.max(np.abs(got - ref))) if got.size else 0.0
    if err <= tol:
        return None
    return f"{what}: max abs diff {err:.3e} > tol {tol:.1e} (scale {scale:.3e}); got {got.ravel()[:3]}, ref {ref.ravel()[:3]}"


def _iso_defect(a, labels, left):
    """max |M^H M - 1| for M = a with rows `left` and columns the other labels"""
    left = [x for x in left]
    rest = [x for x in labels if x not in left]
    perm = [labels.index(x) for x in left] + [labels.index(x) for x in rest]
    m = np.transpose(np.asarray(a, dtype=np.complex128), perm)
    rows = int(np.prod([a.shape[labels.index(x)] for x in left])) if left else 1
    m = m.reshape(rows, -1)
    g = m.conj().T @ m
    return float(np.max(np.abs(g - np.eye(g.shape[0])))) if g.size else 0.0


def check_step(before, after, dt, loose=False, same_tensors=True, same_outer=True):
    """the generic post-condition of one rewrite step: `after` (Snap) denotes the tensor `before` denotes over the same
    outer labels; tensors flagged with left_inds are isometries; (same_tensors) no pair of tensors has a larger bond"""
    if after.inconsistent:
        return f"labels with different sizes on different tensors: {after.inconsistent}"
    for x in before.out:
        if x not in after.counts:
            return f"outer label {x!r} (size {before.sizes[x]}) is gone"
        if after.sizes[x] != before.sizes[x]:
            return f"outer label {x!r} changed size from {before.sizes[x]} to {after.sizes[x]}"
    if same_outer and before.plain:
        extra = set(after.inferred) - set(before.out)
        if extra:
            return f"new dangling labels {sorted(extra)}"
    ref, scale = before.value()[0], before.scale()
    try:
        got, _ = Snap(after.arrays, after.labels, after.tags, after.flags, after.exponent, before.out,
                      after.gauges).value()
    except KeyError as e:
        return f"result network lacks a label: {e}"
    err = _cmp(got, ref, scale, _rtol(dt, loose), "dense tensor after vs before")
    if err:
        return err
    tol = 5e-3 if dt in SINGLE else 1e-7
    for k in range(after.nt):
        if after.flags[k] is not None:
            if any(x not in after.labels[k] for x in after.flags[k]):
                return f"left_inds {after.flags[k]} of tensor {k} are not among its labels {after.labels[k]}"
            if len(set(after.labels[k])) != len(after.labels[k]):
                continue    # a label renamed onto another one of the same tensor: the claim cannot be evaluated
            d = _iso_defect(after.arrays[k], list(after.labels[k]), after.flags[k])
            if d > tol:
                return f"tensor {after.tags[k]} is flagged isometric on {after.flags[k]} but |M^H M - 1| = {d:.2e}"
    if same_tensors and before.plain and before.nt == after.nt:
        eb, ea = before.edges(), after.edges()
        for (i, j), labs in ea.items():
            new = int(np.prod([after.sizes[x] for x in labs]))
            old = int(np.prod([before.sizes[x] for x in eb.get((i, j), [])])) if (i, j) in eb else None
            if old is not None and new > old:
                return f"bond between tensors {i} and {j} grew from {old} to {new}"
    return None


# ----------------------------------------------------------------------------------------------
# generators
# ----------------------------------------------------------------------------------------------


def gen_graph(rng, nt, loopy, dtype, exponent, connected=True):
    """plain network on a random tree (plus extra edges / multibonds when loopy); 0-2 dangling labels per tensor;
    dims in {1,2,3}; rank <= 5"""
    labels = [[] for _ in range(nt)]
    sizes = {}
    nb = 0

    def add_bond(i, j):
        nonlocal nb
        if len(labels[i]) >= 4 or len(labels[j]) >= 4:
            return
        x = f"b{nb}"
        nb += 1
        sizes[x] = int(rng.choice([1, 2, 2, 3, 3]))
        for k in (i, j):
            labels[k].insert(int(rng.integers(0, len(labels[k]) + 1)), x)

    for k in range(1, nt):
        if not connected and rng.random() < 0.25:
            continue
        add_bond(int(rng.integers(0, k)), k)
    if loopy and nt >= 2:
        for _ in range(int(rng.integers(1, max(2, nt // 2 + 1)))):
            i, j = (int(v) for v in rng.choice(nt, size=2, replace=False))
            add_bond(min(i, j), max(i, j))
    no = 0
    for k in range(nt):
        for _ in range(int(rng.choice([0, 1, 1, 2]))):
            if len(labels[k]) >= 5:
                break
            x = f"o{no}"
            no += 1
            sizes[x] = int(rng.choice([1, 2, 2, 3]))
            labels[k].insert(int(rng.integers(0, len(labels[k]) + 1)), x)
    arrays = [_rand_array(rng, tuple(sizes[x] for x in lab), dtype) for lab in labels]
    tags = []
    for k in range(nt):
        tg = [f"T{k}", "N"] + [g for g in ("G0", "G1") if rng.random() < 0.5]
        tags.append(tuple(tg))
    return Snap(arrays, labels, tags, [None] * nt, exponent)


def _structured_array(rng, shape, dtype, kind):
    """arrays with exact zero structure for the simplification passes"""
    nd = len(shape)
    a = _rand_array(rng, shape, dtype)
    if kind == "dense" or nd == 0:
        return a
    if kind in ("diag", "antidiag", "copy"):
        pairs = [(i, j) for i in range(nd) for j in range(i + 1, nd) if shape[i] == shape[j] and shape[i] > 1]
        if not pairs:
            return a
        if kind == "copy":
            d = shape[pairs[0][0]]
            axes = [i for i in range(nd) if shape[i] == d]
            mask = np.zeros(shape, dtype=bool)
            for v in range(d):
                idx = [slice(None)] * nd
                for ax in axes:
                    idx[ax] = v
                mask[tuple(idx)] = True
            return np.where(mask, a, 0).astype(dtype)
        i, j = pairs[int(rng.integers(0, len(pairs)))]
        d = shape[i]
        mask = np.zeros(shape, dtype=bool)
        for v in range(d):
            idx = [slice(None)] * nd
            idx[i] = v
            idx[j] = v if kind == "diag" else d - 1 - v
            mask[tuple(idx)] = True
        return np.where(mask, a, 0).astype(dtype)
    if kind == "column":
        axs = [i for i in range(nd) if shape[i] > 1]
        if not axs:
            return a
        ax = axs[int(rng.integers(0, len(axs)))]
        keep = int(rng.integers(0, shape[ax]))
        idx = [slice(None)] * nd
        out = np.zeros_like(a)
        idx[ax] = keep
        out[tuple(idx)] = a[tuple(idx)]
        return out
    if kind == "lowrank" and nd >= 2:
        perm = [int(v) for v in rng.permutation(nd)]
        cut = int(rng.integers(1, nd))
        left, right = perm[:cut], perm[cut:]
        u = _rand_array(rng, tuple(shape[i] for i in left), dtype)
        v = _rand_array(rng, tuple(shape[i] for i in right), dtype)
        t = np.multiply.outer(u, v)
        return np.transpose(t, np.argsort(left + right)).astype(dtype)
    if kind == "identity" and nd == 2 and shape[0] == shape[1]:
        return np.eye(shape[0]).astype(dtype)
    return a


def gen_structured(rng, nt, dtype, exponent, hyper):
    """network for the simplification passes: labels of multiplicity 1-2 (1-4 when hyper), equal dims favoured so that
    diagonal / antidiagonal structure can occur, tensors of rank 0-4 with exact zero structure (diagonal, antidiagonal,
    COPY, single column, rank one, identity) mixed with dense ones; outputs: the labels occurring once, or (hyper) an
    arbitrary subset of <= 3 labels (bonds and hyper labels as outputs, dangling labels summed)"""
    nl = int(rng.integers(max(1, nt - 1), nt + 4))
    labels = [[] for _ in range(nt)]
    sizes = {}
    d0 = int(rng.choice([2, 2, 3]))
    for j in range(nl):
        name = "abcdefghijklmnopqrstuvwxyz"[j]
        room = [k for k in range(nt) if len(labels[k]) < 4]
        if not room:
            break
        if hyper:
            m = int(rng.choice([1, 2, 3, 4], p=[0.25, 0.4, 0.25, 0.1]))
            if j == 0 and nt >= 3:
                m = max(m, 3)
        else:
            m = int(rng.choice([1, 2], p=[0.3, 0.7]))
        m = min(m, len(room))
        for k in rng.choice(room, size=m, replace=False):
            labels[int(k)].insert(int(rng.integers(0, len(labels[int(k)]) + 1)), name)
        sizes[name] = d0 if rng.random() < 0.7 else int(rng.choice([1, 2, 3]))
    kinds = ["dense", "diag", "antidiag", "copy", "column", "lowrank", "identity"]
    arrays, used = [], []
    for lab in labels:
        kind = kinds[int(rng.integers(0, len(kinds)))] if rng.random() < 0.7 else "dense"
        used.append(kind)
        arrays.append(_structured_array(rng, tuple(sizes[x] for x in lab), dtype, kind))
    tags = [(f"T{k}", "N") + tuple(g for g in ("G0", "G1") if rng.random() < 0.5) for k in range(nt)]
    sp = Snap(arrays, labels, tags, [None] * nt, exponent)
    if hyper:
        allx = list(sp.counts)
        k = int(rng.integers(0, min(3, len(allx)) + 1))
        out = tuple(sorted(str(x) for x in rng.choice(allx, size=k, replace=False))) if k else ()
        sp = Snap(arrays, labels, tags, [None] * nt, exponent, out=out)
    return sp, used


# ----------------------------------------------------------------------------------------------
# the rewrites.  Each entry: name -> (eligibility(snap), draw(rng, snap) -> params dict, apply(qtn, tn, snap, p) ->
# result network, extra post-condition(before, after, p) -> None | str)
# ----------------------------------------------------------------------------------------------


def _pick_edge(rng, sp, single=False):
    e = [(ij, labs) for ij, labs in sp.edges().items() if not single or len(labs) == 1]
    if not e:
        return None
    (i, j), labs = e[int(rng.integers(0, len(e)))]
    if rng.random() < 0.5:
        i, j = j, i
    return i, j, labs


def _choice(rng, xs):
    return xs[int(rng.integers(0, len(xs)))]


def _tagsel(rng, sp):
    """a tag request selecting a non-empty set of tensors: (tags, which, selected indices)"""
    k = int(rng.integers(1, sp.nt + 1))
    idx = sorted(int(v) for v in rng.permutation(sp.nt)[:k])
    return [f"U{i}" for i in idx], "any", idx


def _norms(sp):
    return [float(np.linalg.norm(np.asarray(a, dtype=np.complex128).ravel())) for a in sp.arrays]


REWRITES = {}


def rewrite(name, group):
    def deco(cls):
        cls.name, cls.group = name, group
        REWRITES[name] = cls
        return cls

    return deco


def _inplace_call(tn, meth, inplace, *args, **kw):
    """call tn.meth(..., inplace=...) or its trailing-underscore alias; returns (result, error)"""
    if inplace and kw.pop("_alias", False):
        res = getattr(tn, meth + "_")(*args, **kw)
    else:
        kw.pop("_alias", None)
        res = getattr(tn, meth)(*args, inplace=inplace, **kw)
    return res


class _Base:
    loose = False
    same_tensors = True
    zero_ok = True      # may be applied to a network that is identically zero (no norm is divided by)

    @staticmethod
    def ok(sp):
        return sp.plain and sp.gauges is None

    @staticmethod
    def post(before, after, p):
        return None


@rewrite("canonize_between", "G")
class _CanonizeBetween(_Base):
    @staticmethod
    def ok(sp):
        return sp.plain and sp.gauges is None and bool(sp.edges())

    @staticmethod
    def draw(rng, sp):
        i, j, _ = _pick_edge(rng, sp)
        absorb = _choice(rng, ["right", "left", "both"])
        # exercise the early return for tensors already flagged isometric: prefer isometrizing a flagged tensor
        # (possibly towards another neighbour than the one it was canonized to)
        nb = sp.neighbours()
        flagged = [k for k in range(sp.nt) if sp.flags[k] is not None and nb[k]]
        if flagged and rng.random() < 0.6:
            i = _choice(rng, flagged)
            j = _choice(rng, sorted(nb[i]))
            absorb = "right"
        # a QR has no 'both' form: quimb rejects that combination
        method = _choice(rng, [None, "svd"] if absorb == "both" else [None, "qr", "svd"])
        return dict(i=i, j=j, absorb=absorb, method=method,
                    eq=_choice(rng, [False, False, True, 1.0]), tagform=int(rng.integers(0, 2)))

    @staticmethod
    def apply(qtn, tn, sp, p):
        kw = {}
        if p["method"]:
            kw["method"] = p["method"]
        if p["eq"] is not False:
            kw["equalize_norms"] = p["eq"]
        t1 = f"U{p['i']}" if p["tagform"] else [f"U{p['i']}", "N"]
        r = tn.canonize_between(t1, f"U{p['j']}", absorb=p["absorb"], **kw)
        if r is not None and r is not tn:
            return f"canonize_between returned {type(r).__name__}"
        return tn

    @staticmethod
    def post(before, after, p):
        if p["absorb"] == "both":
            return None
        k = p["i"] if p["absorb"] == "right" else p["j"]
        o = p["j"] if p["absorb"] == "right" else p["i"]
        left = [x for x in after.labels[k] if x not in after.labels[o]]
        d = _iso_defect(after.arrays[k], list(after.labels[k]), left)
        if p["eq"] is False and d > 1e-2:
            return f"tensor {k} should be an isometry from {left} after canonize_between(absorb={p['absorb']}): defect {d:.2e}"
        if p["eq"] is False and after.flags[k] is None:
            return f"tensor {k} was isometrized but is not flagged (left_inds is None)"
        return None


@rewrite("canonize_around", "G")
class _CanonizeAround(_Base):
    @staticmethod
    def draw(rng, sp):
        tags, which, idx = _tagsel(rng, sp)
        return dict(tags=tags, which=which, region=idx, max_distance=_choice(rng, [None, None, 1, 2]),
                    absorb=_choice(rng, ["right", "right", "both", "left"]), gauge_links=_choice(rng, [False, False, True, 2]),
                    link_absorb=_choice(rng, ["both", "right"]), eq=_choice(rng, [False, False, True, 1.0]),
                    inplace=bool(rng.integers(0, 2)))

    @staticmethod
    def apply(qtn, tn, sp, p):
        kw = dict(which=p["which"], max_distance=p["max_distance"], absorb=p["absorb"], gauge_links=p["gauge_links"],
                  link_absorb=p["link_absorb"])
        if p["eq"] is not False:
            kw["equalize_norms"] = p["eq"]
        return _inplace_call(tn, "canonize_around", p["inplace"], p["tags"], _alias=True, **kw)

    @staticmethod
    def post(before, after, p):
        # a canonical region: on a tree, with unlimited distance and absorb='right', everything outside the region is
        # isometric towards it, i.e. the norm of the whole equals the norm of the region tensors alone
        if not (before.is_tree() and p["max_distance"] is None and p["absorb"] == "right" and p["eq"] is False):
            return None
        reg = p["region"]
        # the region must be connected for a single orthogonality centre to exist
        sub = Snap([before.arrays[k] for k in reg], [before.labels[k] for k in reg], [before.tags[k] for k in reg],
                   [None] * len(reg), 0.0)
        if not sub.connected():
            return None
        arrays = [after.arrays[k] for k in reg]
        labels = [after.labels[k] for k in reg]
        inner = {x for x, c in Counter(x for lab in labels for x in lab).items() if c == 2}
        conj_labels = [tuple((x + "*") if x in inner else x for x in lab) for lab in labels]
        n2_region, _ = den(arrays + [np.conj(a) for a in arrays], labels + conj_labels, ())
        full, _ = after.value()
        n2_full = float(np.sum(np.abs(full) ** 2)) / (10.0 ** (2 * after.exponent)) if np.size(full) else 0.0
        n2_region = float(np.real(n2_region))
        if abs(n2_region - n2_full) > 1e-2 * max(abs(n2_full), 1e-300):
            return (f"region {reg} is not an orthogonality centre: norm^2 of the region tensors {n2_region:.6e} != "
                    f"norm^2 of the network {n2_full:.6e}")
        return None


@rewrite("gauge_all_canonize", "G")
class _GaugeAllCanonize(_Base):
    @staticmethod
    def draw(rng, sp):
        return dict(max_iterations=_choice(rng, [1, 2, 5]), absorb=_choice(rng, ["both", "left", "right"]),
                    eq=_choice(rng, [False, False, True, 1.0]), inplace=bool(rng.integers(0, 2)),
                    via=_choice(rng, ["direct", "gauge_all"]))

    @staticmethod
    def apply(qtn, tn, sp, p):
        kw = dict(max_iterations=p["max_iterations"], absorb=p["absorb"])
        if p["eq"] is not False:
            kw["equalize_norms"] = p["eq"]
        if p["via"] == "gauge_all":
            return _inplace_call(tn, "gauge_all", p["inplace"], "canonize", _alias=True, **kw)
        return _inplace_call(tn, "gauge_all_canonize", p["inplace"], _alias=True, **kw)


@rewrite("gauge_all_simple", "G")
class _GaugeAllSimple(_Base):
    loose = True
    zero_ok = False

    @staticmethod
    def ok(sp):
        # simple update gauging multiplies by inverse singular values (smudge 1e-12): on bonds that are, or become
        # under the iteration, rank deficient this overflows single precision -> double precision only
        return sp.plain and sp.gauges is None and sp.double

    @staticmethod
    def draw(rng, sp):
        return dict(max_iterations=_choice(rng, [1, 3, 5]), tol=_choice(rng, [0.0, 1e-6]), power=_choice(rng, [1.0, 1.0, 0.5]),
                    damping=_choice(rng, [0.0, 0.0, 0.2]), fuse=bool(rng.integers(0, 2)), eq=bool(rng.integers(0, 2)),
                    inplace=bool(rng.integers(0, 2)), via=_choice(rng, ["direct", "gauge_all"]), info=bool(rng.integers(0, 2)))

    @staticmethod
    def apply(qtn, tn, sp, p):
        kw = dict(max_iterations=p["max_iterations"], tol=p["tol"], power=p["power"], damping=p["damping"],
                  fuse_multibonds=p["fuse"], equalize_norms=p["eq"])
        if p["info"]:
            kw["info"] = {}
        if p["via"] == "gauge_all":
            return _inplace_call(tn, "gauge_all", p["inplace"], "simple", _alias=True, **kw)
        return _inplace_call(tn, "gauge_all_simple", p["inplace"], _alias=True, **kw)


@rewrite("gauge_all_random", "G")
class _GaugeAllRandom(_Base):
    loose = True

    @staticmethod
    def draw(rng, sp):
        return dict(max_iterations=_choice(rng, [1, 2]), unitary=_choice(rng, [True, True, False]),
                    seed=int(rng.integers(0, 1 << 30)), inplace=bool(rng.integers(0, 2)),
                    via=_choice(rng, ["direct", "gauge_all"]))

    @staticmethod
    def apply(qtn, tn, sp, p):
        kw = dict(max_iterations=p["max_iterations"], unitary=p["unitary"], seed=p["seed"])
        if p["via"] == "gauge_all":
            return _inplace_call(tn, "gauge_all", p["inplace"], "random", _alias=True, **kw)
        return _inplace_call(tn, "gauge_all_random", p["inplace"], _alias=True, **kw)


@rewrite("gauge_all_bp", "G")
class _GaugeAllBP(_Base):
    loose = True
    zero_ok = False

    @staticmethod
    def ok(sp):
        # double precision only: the gauge is built from inverse square roots of message spectra, whose numerically
        # zero part (rank deficient bonds) is noise of relative size sqrt(eps)
        return sp.plain and sp.gauges is None and sp.nt <= 5 and bool(sp.edges()) and sp.double

    @staticmethod
    def draw(rng, sp):
        return dict(max_iterations=_choice(rng, [1, 3]), inplace=bool(rng.integers(0, 2)),
                    via=_choice(rng, ["direct", "gauge_all"]))

    @staticmethod
    def apply(qtn, tn, sp, p):
        kw = dict(max_iterations=p["max_iterations"])
        if p["via"] == "gauge_all":
            return _inplace_call(tn, "gauge_all", p["inplace"], "bp", _alias=True, **kw)
        return _inplace_call(tn, "gauge_all_belief_propagation", p["inplace"], _alias=True, **kw)


@rewrite("gauge_local", "G")
class _GaugeLocal(_Base):
    loose = True
    zero_ok = False

    @staticmethod
    def draw(rng, sp):
        tags, which, idx = _tagsel(rng, sp)
        md = _choice(rng, [0, 1, 2])
        # the local region: everything within graph distance md of the selected tensors
        nb, region = sp.neighbours(), set(idx)
        for _ in range(md):
            region |= {j for i in region for j in nb[i]}
        region_bonds = sum(1 for (i, j) in sp.edges() if i in region and j in region)
        return dict(tags=tags, which=which, max_distance=md,
                    method=_choice(rng, ["canonize", "simple", "random"] if sp.double else ["canonize", "random"]),
                    max_iterations=_choice(rng, ["max_distance", 1, 2]), inplace=bool(rng.integers(0, 2)),
                    region_bonds=region_bonds)

    @staticmethod
    def apply(qtn, tn, sp, p):
        kw = dict(which=p["which"], max_distance=p["max_distance"], method=p["method"])
        if p["method"] != "random":
            kw["max_iterations"] = p["max_iterations"]
        return _inplace_call(tn, "gauge_local", p["inplace"], p["tags"], _alias=True, **kw)


@rewrite("insert_gauge", "G")
class _InsertGauge(_Base):
    loose = True

    @staticmethod
    def ok(sp):
        return sp.plain and sp.gauges is None and any(len(v) == 1 for v in sp.edges().values())

    @staticmethod
    def draw(rng, sp):
        i, j, labs = _pick_edge(rng, sp, single=True)
        d = sp.sizes[labs[0]]
        # a well conditioned gauge (condition number <= 4): orthogonal x diag(0.5..2) x orthogonal
        cplx = bool(rng.integers(0, 2))
        q1, _ = np.linalg.qr(rng.normal(size=(d, d)) + (1j * rng.normal(size=(d, d)) if cplx else 0))
        q2, _ = np.linalg.qr(rng.normal(size=(d, d)) + (1j * rng.normal(size=(d, d)) if cplx else 0))
        U = q1 @ np.diag(rng.uniform(0.5, 2.0, size=d)) @ q2
        return dict(i=i, j=j, d=d, U=[[complex(v) for v in row] for row in U], give_inv=bool(rng.integers(0, 2)), cplx=cplx)

    @staticmethod
    def apply(qtn, tn, sp, p):
        U = np.array(p["U"], dtype=complex)
        if not p["cplx"]:
            U = U.real
        dt = tn.tensors[0].dtype
        if not p["cplx"] or "complex" in str(dt):
            U = U.astype(dt)
        kw = {"Uinv": np.linalg.inv(U)} if p["give_inv"] else {}
        r = tn.insert_gauge(U, f"U{p['i']}", [f"U{p['j']}"], **kw)
        if r is not None and r is not tn:
            return f"insert_gauge returned {type(r).__name__}"
        return tn


@rewrite("balance_bonds", "G")
class _BalanceBonds(_Base):
    @staticmethod
    def draw(rng, sp):
        return dict(inplace=bool(rng.integers(0, 2)), multibonds=any(len(v) > 1 for v in sp.edges().values()))

    @staticmethod
    def apply(qtn, tn, sp, p):
        return _inplace_call(tn, "balance_bonds", p["inplace"], _alias=True)


@rewrite("equalize_norms", "G")
class _EqualizeNorms(_Base):
    @staticmethod
    def ok(sp):
        return sp.gauges is None and sp.nt >= 1

    @staticmethod
    def draw(rng, sp):
        return dict(value=_choice(rng, [None, None, 1.0, 0.3, True]), inplace=bool(rng.integers(0, 2)))

    @staticmethod
    def apply(qtn, tn, sp, p):
        # a tensor of zero norm has no log10: the documented switch for that is check_zero
        kw = {"check_zero": True} if min(_norms(sp)) == 0.0 else {}
        return _inplace_call(tn, "equalize_norms", p["inplace"], _alias=True, value=p["value"], **kw)

    @staticmethod
    def post(before, after, p):
        n = _norms(after)
        if not n or min(_norms(before)) == 0.0:
            return None
        target = n[0] if p["value"] is None else (1.0 if p["value"] is True else float(p["value"]))
        bad = [(k, v) for k, v in enumerate(n) if abs(v - target) > 2e-3 * max(target, 1e-300)]
        if bad:
            return f"tensor norms after equalize_norms({p['value']}) are {np.round(n, 6).tolist()}, expected all {target:.6g}"
        if p["value"] is None and abs(after.exponent) > 1e-9:
            return f"equalize_norms() should redistribute the exponent, yet exponent = {after.exponent}"
        return None


@rewrite("strip_exponent", "G")
class _StripExponent(_Base):
    @staticmethod
    def ok(sp):
        return sp.gauges is None and sp.nt >= 1

    @staticmethod
    def draw(rng, sp):
        return dict(k=int(rng.integers(0, sp.nt)), value=_choice(rng, [None, 1.0, 2.5, True]), by=_choice(rng, ["tid", "tensor"]),
                    then=_choice(rng, ["nothing", "distribute_exponent()", "distribute_exponent(0.5)"]))

    @staticmethod
    def apply(qtn, tn, sp, p):
        tid, t = next((tid, t) for tid, t in tn.tensor_map.items() if f"U{p['k']}" in t.tags)
        kw = {"check_zero": True} if _norms(sp)[p["k"]] == 0.0 else {}
        tn.strip_exponent(tid if p["by"] == "tid" else t, p["value"], **kw)
        if p["then"] == "distribute_exponent()":
            tn.distribute_exponent()
        elif p["then"] == "distribute_exponent(0.5)":
            tn.distribute_exponent(0.5)
        return tn

    @staticmethod
    def post(before, after, p):
        if _norms(before)[p["k"]] == 0.0:
            return None
        if p["then"] == "nothing":
            target = 1.0 if p["value"] in (None, True) else float(p["value"])
            n = _norms(after)[p["k"]]
            if abs(n - target) > 2e-3 * target:
                return f"norm of the stripped tensor is {n:.6g}, expected {target}"
        elif p["then"] == "distribute_exponent()" and abs(after.exponent) > 1e-12:
            return f"exponent after distribute_exponent() is {after.exponent}"
        elif p["then"] == "distribute_exponent(0.5)" and abs(after.exponent - 0.5) > 1e-12:
            return f"exponent after distribute_exponent(0.5) is {after.exponent}"
        return None


@rewrite("fuse_multibonds", "G")
class _FuseMultibonds(_Base):
    @staticmethod
    def draw(rng, sp):
        return dict(inplace=bool(rng.integers(0, 2)), multibonds=any(len(v) > 1 for v in sp.edges().values()))

    @staticmethod
    def apply(qtn, tn, sp, p):
        return _inplace_call(tn, "fuse_multibonds", p["inplace"], _alias=True)

    @staticmethod
    def post(before, after, p):
        multi = {ij: v for ij, v in after.edges().items() if len(v) > 1}
        if multi:
            return f"multibonds left after fuse_multibonds: {multi}"
        return None


@rewrite("squeeze", "G")
class _Squeeze(_Base):
    @staticmethod
    def ok(sp):
        return sp.plain and sp.gauges is None

    @staticmethod
    def draw(rng, sp):
        ones = sorted(x for x, d in sp.sizes.items() if d == 1 and x not in sp.out)
        mode = _choice(rng, ["default", "default", "exclude-outer", "include-some"])
        inc = [str(x) for x in rng.permutation(ones)[: max(1, len(ones) // 2)]] if ones else []
        return dict(fuse=bool(rng.integers(0, 2)), mode=mode, include=inc if mode == "include-some" else None,
                    inplace=bool(rng.integers(0, 2)),
                    size1_outer=any(sp.sizes[x] == 1 for x in sp.out))

    @staticmethod
    def apply(qtn, tn, sp, p):
        kw = dict(fuse=p["fuse"])
        if p["mode"] == "exclude-outer":
            kw["exclude"] = list(sp.out)
        elif p["mode"] == "include-some":
            kw["include"] = p["include"]
        return _inplace_call(tn, "squeeze", p["inplace"], _alias=True, **kw)

    @staticmethod
    def post(before, after, p):
        if p["mode"] == "include-some":
            left = [x for x in (p["include"] or []) if x in after.counts]
        else:
            left = [x for x, d in after.sizes.items() if d == 1 and x not in before.out]
        if left:
            return f"size-1 labels {left} survived squeeze"
        return None


@rewrite("compress_between", "G")
class _CompressBetween(_Base):
    loose = True
    zero_ok = False

    @staticmethod
    def ok(sp):
        return sp.plain and sp.gauges is None and bool(sp.edges())

    @staticmethod
    def draw(rng, sp):
        i, j, labs = _pick_edge(rng, sp)
        mode = _choice(rng, ["basic", "basic", "virtual-tree"])
        bond = int(np.prod([sp.sizes[x] for x in labs]))
        return dict(i=i, j=j, absorb="both" if mode == "virtual-tree" else _choice(rng, ["both", "left", "right"]),
                    canonize_distance=_choice(rng, [0, 0, 1, 2]), mode=mode,
                    reduced=_choice(rng, [True, True, False, "left", "right"]) if mode == "basic" else None,
                    max_bond=_choice(rng, [None, None, bond, bond + 3, 64]), eq=_choice(rng, [False, False, True, 1.0]),
                    method=_choice(rng, [None, "svd", "svd:eig"]))

    @staticmethod
    def apply(qtn, tn, sp, p):
        kw = dict(max_bond=p["max_bond"], cutoff=0.0, absorb=p["absorb"], canonize_distance=p["canonize_distance"],
                  mode=p["mode"])
        if p["reduced"] is not None:
            kw["reduced"] = p["reduced"]
        if p["eq"] is not False:
            kw["equalize_norms"] = p["eq"]
        if p["method"]:
            kw["method"] = p["method"]
        r = tn.compress_between(f"U{p['i']}", f"U{p['j']}", **kw)
        if r is not None and r is not tn:
            return f"compress_between returned {type(r).__name__}"
        return tn

    @staticmethod
    def post(before, after, p):
        # no truncation requested: the new (single) bond is at most min(old bond, outer dims on either side)
        i, j = min(p["i"], p["j"]), max(p["i"], p["j"])
        labs = after.edges().get((i, j), [])
        if len(labs) != 1:
            return f"tensors {i},{j} share {len(labs)} labels after compress_between"
        return None


@rewrite("compress_all", "G")
class _CompressAll(_Base):
    loose = True
    zero_ok = False

    @staticmethod
    def draw(rng, sp):
        return dict(canonize=bool(rng.integers(0, 2)), tree_gauge_distance=_choice(rng, [None, 0, 1, 2]),
                    mode=_choice(rng, ["auto", "basic", "virtual-tree"]), max_bond=_choice(rng, [None, None, 64]),
                    inplace=bool(rng.integers(0, 2)))

    @staticmethod
    def apply(qtn, tn, sp, p):
        return _inplace_call(tn, "compress_all", p["inplace"], _alias=True, max_bond=p["max_bond"], cutoff=0.0,
                             canonize=p["canonize"], tree_gauge_distance=p["tree_gauge_distance"], mode=p["mode"])


@rewrite("compress_all_tree", "G")
class _CompressAllTree(_Base):
    loose = True
    zero_ok = False

    @staticmethod
    def ok(sp):
        return sp.is_tree() and sp.gauges is None and sp.nt >= 2

    @staticmethod
    def draw(rng, sp):
        return dict(inplace=bool(rng.integers(0, 2)), max_bond=_choice(rng, [None, 64]))

    @staticmethod
    def apply(qtn, tn, sp, p):
        return _inplace_call(tn, "compress_all_tree", p["inplace"], _alias=True, max_bond=p["max_bond"], cutoff=0.0)


@rewrite("compress_all_1d", "G")
class _CompressAll1D(_Base):
    loose = True
    zero_ok = False

    @staticmethod
    def ok(sp):
        return sp.is_chain() and sp.gauges is None and sp.nt >= 2

    @staticmethod
    def draw(rng, sp):
        return dict(inplace=bool(rng.integers(0, 2)), canonize=bool(rng.integers(0, 2)), max_bond=_choice(rng, [None, 64]))

    @staticmethod
    def apply(qtn, tn, sp, p):
        return _inplace_call(tn, "compress_all_1d", p["inplace"], _alias=True, max_bond=p["max_bond"], cutoff=0.0,
                             canonize=p["canonize"])


@rewrite("compress_all_simple", "G")
class _CompressAllSimple(_Base):
    loose = True
    zero_ok = False

    @staticmethod
    def ok(sp):
        return sp.plain and sp.gauges is None and bool(sp.edges()) and sp.double

    @staticmethod
    def draw(rng, sp):
        return dict(inplace=bool(rng.integers(0, 2)), max_iterations=_choice(rng, [1, 3]), max_bond=_choice(rng, [None, 64]))

    @staticmethod
    def apply(qtn, tn, sp, p):
        return _inplace_call(tn, "compress_all_simple", p["inplace"], _alias=True, max_bond=p["max_bond"], cutoff=0.0,
                             max_iterations=p["max_iterations"])


# ---- external bond gauges: the network together with the vectors in `gauges` denotes the tensor ------------------


class _Ext(_Base):
    loose = True
    zero_ok = False

    @staticmethod
    def ok(sp):
        return sp.plain and sp.gauges is not None and sp.double


@rewrite("gauge_all_simple(gauges)", "X")
class _XGaugeAllSimple(_Ext):
    @staticmethod
    def ok(sp):
        return sp.plain and bool(sp.edges()) and sp.double

    @staticmethod
    def draw(rng, sp):
        return dict(max_iterations=_choice(rng, [1, 2, 5]), tol=_choice(rng, [0.0, 1e-6]), power=_choice(rng, [1.0, 1.0, 0.5]),
                    fuse=bool(rng.integers(0, 2)), eq=bool(rng.integers(0, 2)), inplace=bool(rng.integers(0, 2)),
                    started=sp.gauges is not None)

    @staticmethod
    def apply(qtn, tn, sp, p):
        return _inplace_call(tn, "gauge_all_simple", p["inplace"], _alias=True, gauges=tn._vf_gauges,
                             max_iterations=p["max_iterations"], tol=p["tol"], power=p["power"], fuse_multibonds=p["fuse"],
                             equalize_norms=p["eq"])

    @staticmethod
    def post(before, after, p):
        inner = {x for x, c in after.counts.items() if c == 2}
        missing = inner - set(after.gauges or {})
        if missing and p["max_iterations"] >= 1 and before.connected():
            return f"bonds {sorted(missing)} have no gauge after gauge_all_simple(gauges=...)"
        return None


@rewrite("canonize_between(gauges)", "X")
class _XCanonizeBetween(_Ext):
    @staticmethod
    def ok(sp):
        return sp.plain and sp.gauges is not None and bool(sp.edges()) and sp.double

    @staticmethod
    def draw(rng, sp):
        i, j, _ = _pick_edge(rng, sp)
        return dict(i=i, j=j, absorb=_choice(rng, ["right", "left"]))

    @staticmethod
    def apply(qtn, tn, sp, p):
        tn.canonize_between(f"U{p['i']}", f"U{p['j']}", absorb=p["absorb"], gauges=tn._vf_gauges)
        return tn


@rewrite("compress_between(gauges)", "X")
class _XCompressBetween(_Ext):
    @staticmethod
    def ok(sp):
        return sp.plain and sp.gauges is not None and bool(sp.edges()) and sp.double

    @staticmethod
    def draw(rng, sp):
        i, j, _ = _pick_edge(rng, sp)
        return dict(i=i, j=j, canonize_distance=_choice(rng, [0, 0, 1]), max_bond=_choice(rng, [None, 64]))

    @staticmethod
    def apply(qtn, tn, sp, p):
        tn.compress_between(f"U{p['i']}", f"U{p['j']}", max_bond=p["max_bond"], cutoff=0.0,
                            canonize_distance=p["canonize_distance"], gauges=tn._vf_gauges)
        return tn


@rewrite("gauge_all_canonize(gauges)", "X")
class _XGaugeAllCanonize(_Ext):
    @staticmethod
    def draw(rng, sp):
        return dict(max_iterations=_choice(rng, [1, 2]), absorb=_choice(rng, ["both", "right"]), inplace=bool(rng.integers(0, 2)))

    @staticmethod
    def apply(qtn, tn, sp, p):
        return _inplace_call(tn, "gauge_all_canonize", p["inplace"], _alias=True, gauges=tn._vf_gauges,
                             max_iterations=p["max_iterations"], absorb=p["absorb"])


@rewrite("fuse_multibonds(gauges)", "X")
class _XFuse(_Ext):
    loose = False

    @staticmethod
    def draw(rng, sp):
        return dict(inplace=bool(rng.integers(0, 2)), multibonds=any(len(v) > 1 for v in sp.edges().values()))

    @staticmethod
    def apply(qtn, tn, sp, p):
        return _inplace_call(tn, "fuse_multibonds", p["inplace"], _alias=True, gauges=tn._vf_gauges)

    @staticmethod
    def post(before, after, p):
        multi = {ij: v for ij, v in after.edges().items() if len(v) > 1}
        return f"multibonds left: {multi}" if multi else None


@rewrite("compress_all_simple(gauges)", "X")
class _XCompressAllSimple(_Ext):
    @staticmethod
    def ok(sp):
        return sp.plain and sp.gauges is not None and bool(sp.edges()) and sp.double

    @staticmethod
    def draw(rng, sp):
        return dict(max_iterations=_choice(rng, [1, 3]), inplace=bool(rng.integers(0, 2)), max_bond=_choice(rng, [None, 64]))

    @staticmethod
    def apply(qtn, tn, sp, p):
        return _inplace_call(tn, "compress_all_simple", p["inplace"], _alias=True, gauges=tn._vf_gauges,
                             max_bond=p["max_bond"], cutoff=0.0, max_iterations=p["max_iterations"])


@rewrite("gauge_simple_insert(remove=True)", "X")
class _XInsertRemove(_Ext):
    """absorb every gauge into the tensors: afterwards the network alone denotes the tensor"""

    @staticmethod
    def draw(rng, sp):
        return dict(via=_choice(rng, ["gauge_simple_insert", "gauge_insert"]))

    @staticmethod
    def apply(qtn, tn, sp, p):
        g = tn._vf_gauges
        if p["via"] == "gauge_insert":
            tn.gauge_insert(g)
            g.clear()
        else:
            tn.gauge_simple_insert(g, remove=True)
        return tn

    @staticmethod
    def post(before, after, p):
        left = [k for k in (after.gauges or {}) if k in after.counts]
        return f"gauges {left} are still in the store after remove=True" if left else None


@rewrite("gauge_simple_insert then gauge_simple_remove", "X")
class _XRoundTrip(_Ext):
    @staticmethod
    def draw(rng, sp):
        return dict(how=_choice(rng, ["insert/remove", "temp", "temp-keep-inner"]), smudge=_choice(rng, [0.0, 1e-12]))

    @staticmethod
    def apply(qtn, tn, sp, p):
        g = tn._vf_gauges
        ref, scale = sp.value()[0], sp.scale()
        if p["how"] == "insert/remove":
            outer, inner = tn.gauge_simple_insert(g, smudge=p["smudge"])
            mid = Snap.of(tn, sp.out)          # gauges inserted: the network alone denotes the tensor
            tn.gauge_simple_remove(outer=outer, inner=inner)
        else:
            with tn.gauge_simple_temp(g, smudge=p["smudge"], ungauge_inner=(p["how"] == "temp")):
                mid = Snap.of(tn, sp.out)
            if p["how"] == "temp-keep-inner":
                # the inner gauges stay absorbed: forget them in the store
                for k in [k for k in g if sp.counts.get(k, 0) == 2]:
                    del g[k]
        err = _cmp(mid.value()[0], ref, scale, 1e-3 if not sp.double else 1e-6, "network with the gauges inserted")
        return err if err else tn


# ---- simplification passes (hyper labels and explicit outputs allowed) --------------------------------------------


class _Simp(_Base):
    same_tensors = False
    takes_out = True

    @staticmethod
    def ok(sp):
        # networks in which a tensor carries a label twice (diagonal_reduce leaves them) are included
        return sp.gauges is None and sp.nt >= 1 and sp.well_scaled

    @classmethod
    def okw(cls, sp, p):
        """output_inds must be given unless the outputs are the labels occurring once"""
        if not cls.takes_out:
            return {}
        if set(sp.out) != set(sp.inferred) or p.get("give_out"):
            return {"output_inds": list(sp.out)}
        return {}


@rewrite("rank_simplify", "S")
class _RankSimplify(_Simp):
    @staticmethod
    def draw(rng, sp):
        return dict(eq=_choice(rng, [False, False, True, 1.0]), inplace=bool(rng.integers(0, 2)), give_out=bool(rng.integers(0, 2)),
                    max_combinations=_choice(rng, [500, 1]))

    @classmethod
    def apply(cls, qtn, tn, sp, p):
        return _inplace_call(tn, "rank_simplify", p["inplace"], _alias=True, equalize_norms=p["eq"],
                             max_combinations=p["max_combinations"], **cls.okw(sp, p))

    @staticmethod
    def post(before, after, p):
        if after.max_rank() > max(before.max_rank(), len(before.out)):
            return f"rank_simplify produced a tensor of rank {after.max_rank()} (largest before: {before.max_rank()})"
        return None


@rewrite("diagonal_reduce", "S")
class _DiagonalReduce(_Simp):
    @staticmethod
    def draw(rng, sp):
        return dict(inplace=bool(rng.integers(0, 2)), give_out=bool(rng.integers(0, 2)))

    @classmethod
    def apply(cls, qtn, tn, sp, p):
        return _inplace_call(tn, "diagonal_reduce", p["inplace"], _alias=True, **cls.okw(sp, p))


@rewrite("antidiag_gauge", "S")
class _AntidiagGauge(_Simp):
    @staticmethod
    def draw(rng, sp):
        return dict(inplace=bool(rng.integers(0, 2)), give_out=bool(rng.integers(0, 2)))

    @classmethod
    def apply(cls, qtn, tn, sp, p):
        return _inplace_call(tn, "antidiag_gauge", p["inplace"], _alias=True, **cls.okw(sp, p))


@rewrite("column_reduce", "S")
class _ColumnReduce(_Simp):
    @staticmethod
    def draw(rng, sp):
        return dict(inplace=bool(rng.integers(0, 2)), give_out=bool(rng.integers(0, 2)))

    @classmethod
    def apply(cls, qtn, tn, sp, p):
        return _inplace_call(tn, "column_reduce", p["inplace"], _alias=True, **cls.okw(sp, p))


@rewrite("split_simplify", "S")
class _SplitSimplify(_Simp):
    takes_out = False
    loose = True

    @staticmethod
    def draw(rng, sp):
        return dict(inplace=bool(rng.integers(0, 2)), eq=_choice(rng, [False, False, True, 1.0]), method=_choice(rng, [None, "svd", "svd:eig"]))

    @classmethod
    def apply(cls, qtn, tn, sp, p):
        kw = {"method": p["method"]} if p["method"] else {}
        return _inplace_call(tn, "split_simplify", p["inplace"], _alias=True, equalize_norms=p["eq"], **kw)


@rewrite("pair_simplify", "S")
class _PairSimplify(_Simp):
    loose = True

    @staticmethod
    def draw(rng, sp):
        return dict(inplace=bool(rng.integers(0, 2)), eq=_choice(rng, [False, False, True, 1.0]), give_out=bool(rng.integers(0, 2)),
                    cache=bool(rng.integers(0, 2)))

    @classmethod
    def apply(cls, qtn, tn, sp, p):
        kw = dict(cls.okw(sp, p))
        if p["cache"]:
            kw["cache"] = set()
        return _inplace_call(tn, "pair_simplify", p["inplace"], _alias=True, equalize_norms=p["eq"], **kw)


@rewrite("loop_simplify", "S")
class _LoopSimplify(_Simp):
    loose = True

    @staticmethod
    def draw(rng, sp):
        return dict(inplace=bool(rng.integers(0, 2)), eq=_choice(rng, [False, False, True, 1.0]), give_out=bool(rng.integers(0, 2)),
                    max_loop_length=_choice(rng, [None, 3, 4]), cache=bool(rng.integers(0, 2)))

    @classmethod
    def apply(cls, qtn, tn, sp, p):
        kw = dict(cls.okw(sp, p))
        if p["cache"]:
            kw["cache"] = set()
        return _inplace_call(tn, "loop_simplify", p["inplace"], _alias=True, equalize_norms=p["eq"],
                             max_loop_length=p["max_loop_length"], **kw)


@rewrite("full_simplify", "S")
class _FullSimplify(_Simp):
    loose = True

    @staticmethod
    def draw(rng, sp):
        letters = "ADCRSLP"
        if rng.random() < 0.3:
            seq = "ADCR"
        else:
            seq = "".join(letters[int(v)] for v in rng.integers(0, len(letters), size=int(rng.integers(1, 6))))
        # sequences with both S and P can make the fixed-point loop of full_simplify run forever (finding C04-m): they
        # are kept at a low rate and under an 8 s limit, otherwise P is replaced by L
        if "S" in seq and "P" in seq and rng.random() > 0.02:
            seq = seq.replace("P", "L")
        return dict(seq=seq, inplace=bool(rng.integers(0, 2)), eq=_choice(rng, [False, False, True, 1.0]),
                    give_out=bool(rng.integers(0, 2)), split_method=_choice(rng, ["svd", "svd", "svd:eig"]),
                    sp_loop=("S" in seq and "P" in seq))

    @classmethod
    def apply(cls, qtn, tn, sp, p):
        return _inplace_call(tn, "full_simplify", p["inplace"], _alias=True, seq=p["seq"], equalize_norms=p["eq"],
                             split_method=p["split_method"], **cls.okw(sp, p))


@rewrite("hyperinds_resolve", "S")
class _HyperindsResolve(_Simp):
    @staticmethod
    def draw(rng, sp):
        return dict(mode=_choice(rng, ["dense", "mps", "tree"]), sorter=_choice(rng, [None, None, "centrality", "clustering"]),
                    inplace=bool(rng.integers(0, 2)), give_out=bool(rng.integers(0, 2)))

    @classmethod
    def apply(cls, qtn, tn, sp, p):
        return _inplace_call(tn, "hyperinds_resolve", p["inplace"], _alias=True, mode=p["mode"], sorter=p["sorter"],
                             **cls.okw(sp, p))

    @staticmethod
    def post(before, after, p):
        hyper = {x: c for x, c in after.counts.items() if len(after.holders(x)) > 2}
        if hyper:
            return f"labels on more than two tensors after hyperinds_resolve: {hyper}"
        return None


@rewrite("compress_simplify", "S")
class _CompressSimplify(_Simp):
    loose = True

    @staticmethod
    def ok(sp):
        return sp.gauges is None and sp.nt >= 1 and sp.well_scaled

    @staticmethod
    def draw(rng, sp):
        return dict(inplace=bool(rng.integers(0, 2)), give_out=bool(rng.integers(0, 2)), final_resolve=bool(rng.integers(0, 2)),
                    mode=_choice(rng, ["tree", "dense", "mps"]), eq=_choice(rng, [True, False]),
                    sorter=_choice(rng, ["clustering", "clustering", "centrality"]))

    @classmethod
    def apply(cls, qtn, tn, sp, p):
        return _inplace_call(tn, "compress_simplify", p["inplace"], _alias=True, atol=1e-12, final_resolve=p["final_resolve"],
                             hyperind_resolve_mode=p["mode"], hyperind_resolve_sort=p["sorter"], equalize_norms=p["eq"],
                             **cls.okw(sp, p))


# ----------------------------------------------------------------------------------------------
# running one step
# ----------------------------------------------------------------------------------------------


class _time_limit:
    """raise TimeoutError in the (main thread of the) worker if the block consumes more than `seconds` of CPU time of
    this process (ITIMER_PROF: user + system time; wall time would misjudge a slow step on a loaded machine -- e.g. a numba
    compilation taking minutes of wall time -- as non-termination)"""

    def __init__(self, seconds):
        self.seconds = seconds

    def _raise(self, signum, frame):
        raise TimeoutError(f"no return within {self.seconds} s")

    def __enter__(self):
        import signal

        self.old = signal.signal(signal.SIGPROF, self._raise)
        signal.setitimer(signal.ITIMER_PROF, self.seconds)

    def __exit__(self, *exc):
        import signal

        signal.setitimer(signal.ITIMER_PROF, 0)
        signal.signal(signal.SIGPROF, self.old)
        return False


def run_step(qtn, before, name, p, dt):
    """apply rewrite `name` with parameters p to a fresh copy of `before`; -> (after Snap or None, violation or None)"""
    rw = REWRITES[name]
    tn = before.mk(qtn)
    # external bond gauges (simple update style) travel next to the network
    g = None if before.gauges is None else {k: np.array(v) for k, v in before.gauges.items()}
    if rw.group == "X":
        g = {} if g is None else g
        tn._vf_gauges = g
    limit = 15 if p.get("sp_loop") else 150  # seconds of CPU time
    try:
        with _time_limit(limit):
            res = rw.apply(qtn, tn, before, p)
    except TimeoutError:
        return None, f"{name} did not return within {limit} s of CPU time (a step of this size takes milliseconds): non-termination"
    if isinstance(res, str):
        return None, res
    if not isinstance(res, qtn.TensorNetwork):
        return None, f"{name} returned {type(res).__name__}, not a TensorNetwork"
    inplace = p.get("inplace", True)
    if inplace and res is not tn:
        return None, f"in-place {name} did not return the network itself"
    if not inplace:
        if res is tn:
            return None, f"{name}(inplace=False) returned the receiver itself"
        # the receiver still denotes what it denoted
        rec = Snap.of(tn, before.out, before.gauges)
        err = check_step(before, rec, dt, same_tensors=False, same_outer=False)
        if err:
            return None, f"receiver changed by a non-in-place call: {err}"
    if g is not None:
        bad = [k for k, v in g.items() if k in res.ind_map and np.shape(v) != (res.ind_size(k),)]
        if bad:
            return None, f"gauge vectors of {bad} do not match the size of their bond"
        g = {k: v for k, v in g.items()} or None
    after = Snap.of(res, before.out, g)
    if rw.same_tensors:
        # the gauging rewrites keep the tensors: line them up by their unique tag
        if after.nt != before.nt:
            return after, f"{name} changed the number of tensors from {before.nt} to {after.nt}"
        after = after.by_utag()
        if after is None:
            return None, f"{name} changed the tags of the tensors"
    err = check_step(before, after, dt, loose=rw.loose, same_tensors=rw.same_tensors)
    if err:
        return after, err
    return after, rw.post(before, after, p)


def _jsonable(p):
    q = {}
    for k, v in p.items():
        if k == "U":
            q[k] = [[f"{x.real:.3f}{x.imag:+.3f}j" for x in row] for row in v]
        else:
            q[k] = v
    return q


def compose(cx, qtn, rng, base, start, names, nsteps, dt, label, first=None):
    """apply up to nsteps random eligible rewrites in sequence; every step is one contract evaluation, judged against
    the network it received"""
    cur = start
    hist = []
    for step in range(nsteps):
        elig = [n for n in names if REWRITES[n].ok(cur) and (REWRITES[n].zero_ok or not cur.zero)]
        if step == 0 and first is not None:
            elig = [n for n in elig if n == first]
        if not elig:
            break
        name = elig[int(rng.integers(0, len(elig)))]
        p = REWRITES[name].draw(rng, cur)
        if cur.zero and "eq" in p:
            p["eq"] = False     # log10 of a zero norm: outside the documented domain of equalize_norms
        if not cur.double and p.get("unitary") is False:
            p["unitary"] = True  # random non-unitary gauges can be badly conditioned: double precision only
        cell = {}

        def thunk(cur=cur, name=name, p=p, cell=cell):
            after, err = run_step(qtn, cur, name, p, dt)
            cell["after"] = after
            return err

        params = dict(base, step=step, op=name, history=list(hist), plain=cur.plain, tree=cur.is_tree(), nt_now=cur.nt,
                      zero_value=cur.zero, n_bonds=len(cur.edges()), single=not cur.double,
                      shrinkable=cur.shrinkable() if cur.plain else None, gauges=cur.gauges is not None,
                      repeated_label=cur.self_trace,
                      **{"p_" + k: v for k, v in _jsonable(p).items()})
        verdict = cx.check(f"{name}: same dense tensor over the same outer labels before and after; promised form holds "
                           f"({label})", params, thunk)
        if verdict == "violation":
            break
        if "after" not in cell:
            # the evaluation was filtered out (replay of another case): advance the state silently
            # (exactly as the evaluated run does: a violated or crashed step ends the sequence)
            try:
                cell["after"], err = run_step(qtn, cur, name, p, dt)
                if err is not None:
                    cell["after"] = None
            except Exception:
                cell["after"] = None
        if cell["after"] is None:
            break
        hist.append(name)
        cur = cell["after"]


G_NAMES = [n for n, c in REWRITES.items() if c.group == "G"]
X_NAMES = [n for n, c in REWRITES.items() if c.group == "X"]
S_NAMES = [n for n, c in REWRITES.items() if c.group == "S"]


def _exponents(dt):
    return [0.0, 1.5, -1.5, 3.0] if dt in SINGLE else [0.0, 1.5, -1.5, 30.0]


@driver("C04", "gauging-compositions", chunks=4, timeout=300,
        bound="plain networks on random trees / trees with extra edges and multibonds, occasionally disconnected, 1-6 "
              "tensors (thorough 1-8) of rank <= 5, dims {1,2,3}, 0-2 dangling labels per tensor, 4 dtypes, stored exponent "
              "{0,+-1.5,30} (single precision 3); sequences of <= 4 (thorough <= 8) rewrites drawn from canonize_between / "
              "canonize_around / gauge_all_canonize / gauge_all_simple / gauge_all_random / gauge_all(bp) / gauge_local / "
              "insert_gauge (condition number <= 4) / balance_bonds / equalize_norms / strip_exponent+distribute_exponent / "
              "fuse_multibonds / squeeze / compress_between, compress_all, compress_all_tree, compress_all_1d, "
              "compress_all_simple with cutoff=0 and max_bond None or >= the bond; options drawn at random (non-unitary "
              "random gauges and belief-propagation gauging in double precision only; canonize_between prefers tensors "
              "already flagged isometric); rtol 1e-8 "
              "(1e-6 for iterative / inverse based gauges) double, 1e-3 (5e-3) single, of the sum of |terms|; isometry "
              "defect <= 1e-7 (5e-3 single)")
def gauging(cx):
    import quimb.tensor as qtn

    _no_nested_pools()
    rng = cx.rng
    nts = [1, 2, 3, 4, 5, 6] if cx.quick else [1, 2, 3, 4, 5, 6, 7, 8]
    reps = 8 if cx.quick else 80
    nsteps = 4 if cx.quick else 8
    grid = [(nt, loopy, dt, ei, r) for nt in nts for loopy in (False, True) for dt in DTYPES for ei in range(4)
            for r in range(reps)]
    for i, (nt, loopy, dt, ei, r) in enumerate(grid):
        if not cx.mine():
            continue
        if cx.out_of_time():
            cx.inconclusive.append("gauging-compositions: time budget exhausted before the grid was finished")
            return
        e = _exponents(dt)[ei]
        # one generator per case: what happens inside a case never shifts the random stream of the following ones
        crng = np.random.default_rng(int(rng.integers(0, 1 << 62)))
        start = gen_graph(crng, nt, loopy, dt, e, connected=(r % 4 != 3))
        base = dict(i=i, nt=nt, loopy=loopy, dt=dt, e=e)
        compose(cx, qtn, crng, base, start, G_NAMES + (["rank_simplify", "full_simplify"] if r % 3 == 0 else []), nsteps, dt,
                "gauging")


@driver("C04", "simplification-compositions", chunks=4, timeout=300,
        bound="networks of 1-6 tensors (thorough 1-7) of rank 0-4 with labels of multiplicity 1-4, dims mostly equal (2 or "
              "3) with some 1s, tensors with exact zero structure (diagonal, antidiagonal, COPY, single column, rank one, "
              "identity) mixed with dense ones; outputs = labels occurring once, or an arbitrary subset of <= 3 labels "
              "(output labels that are bonds / hyper labels, dangling labels summed) passed as output_inds; sequences of "
              "<= 4 (thorough <= 8) of rank_simplify / diagonal_reduce / antidiag_gauge / column_reduce / split_simplify "
              "/ pair_simplify / loop_simplify / full_simplify (random letter sequences over ADCRSLP) / hyperinds_resolve "
              "(dense, mps, tree; sorters) / compress_simplify(atol=1e-12) and, whenever the current network is plain, "
              "the gauging rewrites; equalize_norms {False, True, 1.0}; in place or not; networks that are identically "
              "zero only get rewrites that do not divide by a norm")
def simplification(cx):
    import quimb.tensor as qtn

    _no_nested_pools()
    rng = cx.rng
    nts = [1, 2, 3, 4, 5, 6] if cx.quick else [1, 2, 3, 4, 5, 6, 7]
    reps = 10 if cx.quick else 120
    nsteps = 4 if cx.quick else 8
    grid = [(nt, hy, dt, ei, r) for nt in nts for hy in (False, True) for dt in DTYPES for ei in range(4)
            for r in range(reps)]
    for i, (nt, hy, dt, ei, r) in enumerate(grid):
        if not cx.mine():
            continue
        if cx.out_of_time():
            cx.inconclusive.append("simplification-compositions: time budget exhausted before the grid was finished")
            return
        e = _exponents(dt)[ei]
        crng = np.random.default_rng(int(rng.integers(0, 1 << 62)))
        start, kinds = gen_structured(crng, nt, dt, e, hy)
        base = dict(i=i, nt=nt, hyper=hy, dt=dt, e=e, kinds=kinds, out=list(start.out),
                    out_is_inferred=set(start.out) == set(start.inferred))
        # (belief propagation gauging only on the random dense networks of the gauging driver: on structured, rank
        # deficient tensors its unconverged messages truncate, see finding C04-f)
        names = S_NAMES + ([n for n in G_NAMES if n != "gauge_all_bp"] if r % 2 == 0 else [])
        compose(cx, qtn, crng, base, start, names, nsteps, dt, "simplification")


@driver("C04", "external-gauges", chunks=2, timeout=300,
        bound="same plain tree / loopy networks, 2-6 tensors; gauge_all_simple_(gauges=g) first, then <= 3 (thorough <= 6) "
              "steps of gauge_all_simple / canonize_between / compress_between(cutoff=0) / gauge_all_canonize / "
              "fuse_multibonds / compress_all_simple(cutoff=0) with gauges=g, gauge_simple_insert(remove=True) / "
              "gauge_insert, insert+remove round trips and the gauge_simple_temp context; the denoted tensor is the "
              "einsum of the tensors together with every stored gauge vector on its label")
def external_gauges(cx):
    import quimb.tensor as qtn

    _no_nested_pools()
    rng = cx.rng
    nts = [2, 3, 4, 5] if cx.quick else [2, 3, 4, 5, 6]
    reps = 5 if cx.quick else 50
    nsteps = 4 if cx.quick else 7
    grid = [(nt, loopy, dt, ei, r) for nt in nts for loopy in (False, True) for dt in DTYPES for ei in range(4)
            for r in range(reps)]
    for i, (nt, loopy, dt, ei, r) in enumerate(grid):
        if not cx.mine():
            continue
        if cx.out_of_time():
            cx.inconclusive.append("external-gauges: time budget exhausted before the grid was finished")
            return
        e = _exponents(dt)[ei]
        crng = np.random.default_rng(int(rng.integers(0, 1 << 62)))
        start = gen_graph(crng, nt, loopy, dt, e)
        base = dict(i=i, nt=nt, loopy=loopy, dt=dt, e=e)
        compose(cx, qtn, crng, base, start, X_NAMES + G_NAMES, nsteps, dt, "external gauges", first="gauge_all_simple(gauges)")


# ----------------------------------------------------------------------------------------------
# the structure detection kernels the simplification passes rely on
# ----------------------------------------------------------------------------------------------


def _ref_diag(x, atol, anti):
    best = None
    idx = np.indices(x.shape)
    for i in range(x.ndim - 1):
        for j in range(i + 1, x.ndim):
            if x.shape[i] != x.shape[j]:
                continue
            off = (idx[i] != (x.shape[j] - 1 - idx[j])) if anti else (idx[i] != idx[j])
            if not np.any(np.abs(x[off]) > atol):
                if best is None:
                    best = (i, j)
    return best


def _ref_column(x, atol):
    idx = np.indices(x.shape)
    for ax in range(x.ndim):
        for k in range(x.shape[ax]):
            if not np.any(np.abs(x[idx[ax] != k]) > atol):
                return (ax, k)
    return None


@driver("C04", "structure-kernels", chunks=1, timeout=200,
        bound="array_ops.find_diag_axes / find_antidiag_axes / find_columns on arrays of rank 1-4, dims 1-3, 4 dtypes, "
              "planted diagonal / antidiagonal / COPY / single-column / rank-one / zero structure and dense data, with "
              "entries just below and just above atol in the off-structure positions, atol {1e-12, 1e-6, 0.1}: the result "
              "is the lexicographically first pair satisfying the defining for-all-entries condition, or None")
def kernels(cx):
    from quimb.tensor.array_ops import find_antidiag_axes, find_columns, find_diag_axes

    rng = cx.rng
    n = 600 if cx.quick else 6000
    kinds = ["dense", "diag", "antidiag", "copy", "column", "lowrank", "identity", "zero"]
    for i in range(n):
        nd = int(rng.integers(1, 5))
        shape = tuple(int(v) for v in rng.integers(1, 4, size=nd))
        if rng.random() < 0.5 and nd >= 2:
            shape = (shape[0],) * nd if rng.random() < 0.5 else shape[:-1] + (shape[0],)
        dt = DTYPES[i % 4]
        kind = kinds[int(rng.integers(0, len(kinds)))]
        x = np.zeros(shape, dtype=dt) if kind == "zero" else _structured_array(rng, shape, dt, kind)
        atol = [1e-12, 1e-6, 0.1][int(rng.integers(0, 3))]
        noise = ["none", "below", "above"][int(rng.integers(0, 3))]
        if noise != "none" and x.size:
            # put an entry of modulus just below / above atol (with either sign / phase) into the zeros
            zeros = np.argwhere(x == 0)
            if len(zeros):
                pos = tuple(zeros[int(rng.integers(0, len(zeros)))])
                mag = atol * (0.5 if noise == "below" else 2.0)
                if dt in SINGLE and mag < 1e-30:
                    mag = 0.0
                x[pos] = -mag if rng.random() < 0.5 else mag
        p = dict(i=i, shape=list(shape), dt=dt, kind=kind, atol=atol, noise=noise)
        cx.check("find_diag_axes == first pair of equal-size axes off which every entry is <= atol", p,
                 lambda x=x, atol=atol: None if find_diag_axes(x, atol=atol) == _ref_diag(x, atol, False) else
                 f"got {find_diag_axes(x, atol=atol)}, reference {_ref_diag(x, atol, False)}", nontrivial=x.ndim >= 2)
        cx.check("find_antidiag_axes == first pair of equal-size axes off whose antidiagonal every entry is <= atol", p,
                 lambda x=x, atol=atol: None if find_antidiag_axes(x, atol=atol) == _ref_diag(x, atol, True) else
                 f"got {find_antidiag_axes(x, atol=atol)}, reference {_ref_diag(x, atol, True)}", nontrivial=x.ndim >= 2)
        cx.check("find_columns == first (axis, index) outside of which every entry is <= atol", p,
                 lambda x=x, atol=atol: None if find_columns(x, atol=atol) == _ref_column(x, atol) else
                 f"got {find_columns(x, atol=atol)}, reference {_ref_column(x, atol)}")


# ----------------------------------------------------------------------------------------------
# pair-level helpers with a user-supplied gauge dictionary (weights NOT normalised)
# ----------------------------------------------------------------------------------------------


@driver("C04", "pair-helpers-with-gauge-dict", chunks=2, timeout=120,
        bound="two tensors sharing 0..3 bonds of sizes 1..3 (at least one size-1 bond in half of the cases) plus 1..2 "
              "private labels each, float64 / complex128, a gauge dictionary with arbitrary positive weights on the shared "
              "bonds (so also a weight != 1 on a size-1 bond, which normalised simple-update gauges never have): "
              "tensor_make_single_bond / tensor_multifuse / tensor_fuse_squeeze(squeeze True/False) keep "
              "sum_bonds t1 * prod(gauges) * t2 unchanged and leave exactly one (or no) shared label whose gauge entry has "
              "the size of that label")
def pair_helpers(cx):
    import quimb.tensor as qtn

    rng = cx.rng
    ncase = 150 if cx.quick else 1500
    for i in range(ncase):
        nsh = int(rng.integers(0, 4))
        sizes = [int(rng.integers(1, 4)) for _ in range(nsh)]
        if nsh and i % 2 == 0:
            sizes[int(rng.integers(0, nsh))] = 1
        if nsh and i % 7 == 0:
            sizes = [1] * nsh
        la = [int(rng.integers(1, 4)) for _ in range(int(rng.integers(1, 3)))]
        lb = [int(rng.integers(1, 4)) for _ in range(int(rng.integers(1, 3)))]
        cplx = bool(rng.integers(0, 2))
        helper = ["tensor_fuse_squeeze", "tensor_fuse_squeeze", "tensor_fuse_squeeze(squeeze=False)", "tensor_make_single_bond",
                  "tensor_multifuse"][int(rng.integers(0, 5))]
        pa = rng.permutation(len(la) + nsh)
        pb = rng.permutation(len(lb) + nsh)
        seed = int(rng.integers(1 << 30))
        if helper == "tensor_multifuse" and nsh < 2:
            helper = "tensor_fuse_squeeze"
        if helper.startswith("tensor_fuse_squeeze") and nsh == 0:
            # precondition from the call sites (contract_compressed, _compress_between_tids, ...): the two tensors are
            # neighbours; only tensor_make_single_bond is written for tensors that share nothing
            helper = "tensor_make_single_bond"
        if not cx.mine():
            continue

        def t(sizes=sizes, la=la, lb=lb, cplx=cplx, helper=helper, pa=pa, pb=pb, seed=seed):
            r = np.random.default_rng(seed)
            sh = [f"b{k}" for k in range(len(sizes))]
            ia = [f"x{k}" for k in range(len(la))] + sh
            ib = [f"y{k}" for k in range(len(lb))] + sh
            A = r.normal(size=la + sizes) + (1j * r.normal(size=la + sizes) if cplx else 0)
            B = r.normal(size=lb + sizes) + (1j * r.normal(size=lb + sizes) if cplx else 0)
            g = {b: r.uniform(0.2, 3.0, size=d) for b, d in zip(sh, sizes)}
            # stored axis order is arbitrary
            ta = qtn.Tensor(A, inds=ia).transpose(*[ia[k] for k in pa])
            tb = qtn.Tensor(B, inds=ib).transpose(*[ib[k] for k in pb])

            def value(ta, tb, g):
                shared = [ix for ix in ta.inds if ix in tb.inds]
                out = [ix for ix in ta.inds if ix not in shared] + [ix for ix in tb.inds if ix not in shared]
                num = {ix: k for k, ix in enumerate(dict.fromkeys(list(ta.inds) + list(tb.inds)))}
                ops = [np.asarray(ta.data), [num[ix] for ix in ta.inds], np.asarray(tb.data), [num[ix] for ix in tb.inds]]
                for ix in shared:
                    if ix in g:
                        ops += [np.asarray(g[ix]), [num[ix]]]
                return np.einsum(*ops, [num[ix] for ix in sorted(out)]), shared

            ref, _ = value(ta, tb, g)
            gg = {k: np.array(v) for k, v in g.items()}
            if helper == "tensor_fuse_squeeze":
                qtn.tensor_core.tensor_fuse_squeeze(ta, tb, gauges=gg)
            elif helper == "tensor_fuse_squeeze(squeeze=False)":
                qtn.tensor_core.tensor_fuse_squeeze(ta, tb, squeeze=False, gauges=gg)
            elif helper == "tensor_make_single_bond":
                qtn.tensor_core.tensor_make_single_bond(ta, tb, gauges=gg)
            else:
                qtn.tensor_core.tensor_multifuse((ta, tb), tuple(sh), gauges=gg)
            got, shared = value(ta, tb, gg)
            if got.shape != ref.shape:
                return f"shape {got.shape} != {ref.shape}"
            scale = max(1.0, float(np.abs(ref).max()))
            if np.abs(got - ref).max() > 1e-10 * scale:
                k = np.unravel_index(np.abs(got - ref).argmax(), ref.shape)
                return (f"sum over the shared bonds of t1 * gauges * t2 changed: max abs diff {np.abs(got - ref).max():.3g} "
                        f"(got/expected = {complex(got[k] / ref[k]):.4g})")
            if len(sizes) and len(shared) > 1:
                return f"{len(shared)} shared labels left {shared}"
            if helper == "tensor_fuse_squeeze" and len(sizes) and int(np.prod(sizes)) == 1 and shared:
                return f"size-1 bond {shared} was not squeezed away"
            for ix in list(gg):
                if ix not in shared:
                    return f"gauge entry {ix!r} left over for a label that is no longer shared"
                if np.asarray(gg[ix]).shape != (ta.ind_size(ix),):
                    return f"gauge entry {ix!r} has shape {np.asarray(gg[ix]).shape}, the label has size {ta.ind_size(ix)}"
            return None

        cx.check("pair helper with a gauge dictionary: sum_bonds t1 * gauges * t2 unchanged, one bond left, gauge entries consistent",
                 dict(i=i, helper=helper, shared_sizes=sizes, cplx=cplx, unit_bond=bool(sizes) and 1 in sizes), t,
                 nontrivial=bool(sizes))
