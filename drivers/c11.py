"""C11 bounded stand-in: local Hamiltonian objects and TEBD against explicit dense product formulas.

Reference semantics (numpy / scipy.linalg only): every term supplied in the H2 / H1 dictionaries is embedded with explicit
Kronecker products; the per-bond terms follow the documented rule (a single-site term is split in equal parts among the
pairs covering its site); gates are scipy.linalg.expm of those terms; a TEBD history is replayed on a dense vector with
the documented sweep order (right = even bonds, left = odd bonds, boundary bond with the right sweep on odd and with the
left sweep on even periodic chains) and the Trotter / Suzuki schedule written out here.
"""

import itertools
import math

import numpy as np

from vf.rtc import driver


def _serial_cotengra():
    try:
        import cotengra.parallel as par

        par._IS_WORKER = True
    except Exception:  # noqa
        pass


# ----------------------------------------------------------------------------------------------
# reference helpers
# ----------------------------------------------------------------------------------------------

def _rand_herm(rng, n, cplx=True, scale=1.0):
    x = rng.normal(size=(n, n))
    if cplx:
        x = x + 1j * rng.normal(size=(n, n))
    return scale * (x + x.conj().T) / 2


def _rand_gen(rng, n, cplx=True):
    x = rng.normal(size=(n, n))
    if cplx:
        x = x + 1j * rng.normal(size=(n, n))
    return x


def _embed(M, d, n, sites):
    """operator M (d^k x d^k, factor j acting on sites[j]) embedded in n sites of local dimension d"""
    sites = list(sites)
    rest = [i for i in range(n) if i not in sites]
    full = np.kron(M, np.eye(d ** len(rest)))
    order = sites + rest
    T = full.reshape([d] * (2 * n))
    inv = [int(k) for k in np.argsort(order)]
    T = T.transpose(inv + [n + j for j in inv])
    return T.reshape(d ** n, d ** n)


def _flip(h, d):
    return h.reshape(d, d, d, d).transpose(1, 0, 3, 2).reshape(d * d, d * d)


def _apply2(psi, G, a, b, n, d):
    """apply the two-site matrix G (first factor on a, second on b) to a dense vector"""
    T = psi.reshape([d] * n)
    T = np.moveaxis(T, (a, b), (0, 1))
    shp = T.shape
    T = (G @ T.reshape(d * d, -1)).reshape(shp)
    return np.moveaxis(T, (0, 1), (a, b)).reshape(-1)


def _schedule(order):
    """(layer, fraction) list of one step for two layers (0 = right / even, 1 = left / odd)"""
    if order == 1:
        return [(0, 1.0), (1, 1.0)]
    s2 = [(0, 0.5), (1, 1.0), (0, 0.5)]
    if order == 2:
        return s2
    s = 1.0 / (4.0 - 4.0 ** (1.0 / 3.0))
    return [(k, fr * f) for f in (s, s, 1 - 4 * s, s, s) for k, fr in s2]


def _close(got, ref, tol, what=""):
    got, ref = np.asarray(got), np.asarray(ref)
    if got.shape != ref.shape:
        return f"{what}: shape {got.shape} != reference {ref.shape}"
    if got.size == 0:
        return None
    if not np.all(np.isfinite(got)):
        return f"{what}: non-finite entries"
    scale = max(float(np.max(np.abs(ref))), float(np.max(np.abs(got))), 1e-300)
    err = float(np.max(np.abs(got - ref)))
    if err > tol * scale:
        return f"{what}: max abs diff {err:.3e} at scale {scale:.3e} (tol {tol:.1e})"
    return None


class _Spec:
    """a randomly drawn specification of a local Hamiltonian on sites 0..n-1 (positions of arbitrary node labels):
    the dictionaries handed to quimb and, independently, the dense Hamiltonian and the per-pair combined terms"""

    def __init__(self, rng, nodes, edges, d, cplx, h2mode, h1mode, reverse_prob, herm=True, default_edges=None, sym_pair=None):
        """sym_pair = (a, b): the total term of that pair (two-site part and the one-site shares) is made symmetric under
        exchange of the two sites (used for the boundary bond of periodic chains)"""
        self.nodes, self.d, self.n = list(nodes), d, len(nodes)
        pos = {s: i for i, s in enumerate(self.nodes)}
        gen0 = (lambda k: _rand_herm(rng, k, cplx)) if herm else (lambda k: _rand_gen(rng, k, cplx))
        if sym_pair is not None and h2mode == "array":
            gen = lambda k: (lambda h: (h + _flip(h, d)) / 2 if k == d * d else h)(gen0(k))  # noqa: E731
        else:
            gen = gen0
        D = d ** self.n
        self.H = np.zeros((D, D), dtype=complex)
        self.pair = {}  # frozenset -> (a, b, matrix with first factor on a) combined two-site part
        self.H2, self.H1 = {}, {}
        default_edges = list(edges if default_edges is None else default_edges)
        explicit = list(edges)

        def add_pair(a, b, h):
            key = frozenset((a, b))
            if key in self.pair:
                a0, b0, m0 = self.pair[key]
                self.pair[key] = (a0, b0, m0 + (h if (a0, b0) == (a, b) else _flip(h, d)))
            else:
                self.pair[key] = (a, b, h.copy())
            self.H += _embed(h, d, self.n, (pos[a], pos[b]))

        if h2mode == "array":
            h = gen(d * d)
            self.H2 = h
            for a, b in default_edges:
                add_pair(a, b, h)
        else:
            if h2mode == "default+override":
                hdef = gen(d * d)
                if sym_pair is not None:
                    hdef = (hdef + _flip(hdef, d)) / 2
                self.H2[None] = hdef
                over = [e for e in explicit if rng.random() < 0.4]
                for a, b in default_edges:
                    if (a, b) not in over and (b, a) not in over:
                        add_pair(a, b, hdef)
                chosen = over
            else:
                chosen = explicit
            for a, b in chosen:
                h = gen(d * d)
                if sym_pair is not None and {a, b} == set(sym_pair):
                    h = (h + _flip(h, d)) / 2
                if rng.random() < reverse_prob:
                    # key given as (b, a): first factor acts on b
                    self.H2[(b, a)] = h
                    add_pair(b, a, h)
                    if rng.random() < 0.3:
                        h2 = gen(d * d)
                        if sym_pair is not None and {a, b} == set(sym_pair):
                            h2 = (h2 + _flip(h2, d)) / 2
                        self.H2[(a, b)] = h2   # both orientations supplied: they add up
                        add_pair(a, b, h2)
                else:
                    self.H2[(a, b)] = h
                    add_pair(a, b, h)
        covered = sorted({s for k in self.pair for s in k}, key=lambda s: pos[s])
        self.h1 = {}
        if h1mode == "array":
            h = gen(d)
            self.H1 = h
            for s in covered:
                self.h1[s] = h
        elif h1mode == "default+some":
            hdef = gen(d)
            self.H1 = {None: hdef}
            for s in covered:
                if rng.random() < 0.4:
                    self.H1[s] = gen(d)
                    self.h1[s] = self.H1[s]
                else:
                    self.h1[s] = hdef
        elif h1mode == "some":
            self.H1 = {}
            for s in covered:
                if rng.random() < 0.5:
                    self.H1[s] = gen(d)
                    self.h1[s] = self.H1[s]
            if not self.H1:
                self.H1 = None
        else:
            self.H1 = None
        if sym_pair is not None and isinstance(self.H1, dict):
            a, b = sym_pair   # equal fields on the two sites (they are covered by the same number of pairs in a ring)
            if a in self.h1:
                self.H1[b] = self.h1[a]
                self.h1[b] = self.h1[a]
            elif b in self.h1:
                self.H1[a] = self.h1[b]
                self.h1[a] = self.h1[b]
        for s, h in self.h1.items():
            self.H += _embed(h, d, self.n, (pos[s],))
        self.pos = pos

    def bond_terms(self):
        """documented rule: the single-site term of a site is merged in equal parts into all pairs covering it;
        returns {(a, b) with pos[a] < pos[b]: matrix with first factor on a}"""
        d, pos = self.d, self.pos
        out = {}
        for key, (a, b, m) in self.pair.items():
            if pos[a] > pos[b]:
                a, b, m = b, a, _flip(m, d)
            out[(a, b)] = m.astype(complex)
        cover = {}
        for (a, b) in out:
            cover.setdefault(a, []).append((a, b))
            cover.setdefault(b, []).append((a, b))
        I = np.eye(d)
        for s, h in self.h1.items():
            for pr in cover[s]:
                out[pr] = out[pr] + (np.kron(h, I) if pr[0] == s else np.kron(I, h)) / len(cover[s])
        return out


def _terms_dense(ham, spec):
    """sum of the embedded terms of a quimb local Hamiltonian (first factor of terms[(a, b)] acts on a)"""
    D = spec.d ** spec.n
    H = np.zeros((D, D), dtype=complex)
    for (a, b), h in ham.terms.items():
        h = np.asarray(h)
        if h.shape != (spec.d ** 2, spec.d ** 2):
            raise AssertionError(f"term {(a, b)} has shape {h.shape}")
        H += _embed(h, spec.d, spec.n, (spec.pos[a], spec.pos[b]))
    return H


def _check_local_ham(ham, spec, x_values, tol=1e-10):
    import scipy.linalg as sla

    keys = list(ham.terms)
    for (a, b) in keys:
        if not (a < b):
            return f"term key {(a, b)} is not ordered"
    if len({frozenset(k) for k in keys}) != len(keys):
        return "two terms for one pair"
    if {frozenset(k) for k in keys} != set(spec.pair):
        return f"pairs with a term {sorted(map(sorted, ({frozenset(k) for k in keys})))} != supplied pairs"
    e = _close(_terms_dense(ham, spec), spec.H, tol, "sum of embedded terms vs dense Hamiltonian from the supplied H2 / H1")
    if e:
        return e
    bt = spec.bond_terms()
    for (a, b), h in ham.terms.items():
        e = _close(np.asarray(h), bt[(a, b)], tol, f"term {(a, b)} vs two-site part + equal shares of the one-site terms")
        if e:
            return e
        g = ham.get_gate((a, b))
        if np.asarray(g).shape != np.asarray(h).shape or np.max(np.abs(np.asarray(g) - np.asarray(h))) > 0:
            return f"get_gate({(a, b)}) is not the stored term"
        for x in x_values:
            U = np.asarray(ham.get_gate_expm((a, b), x))
            e = _close(U, sla.expm(x * bt[(a, b)]), 1e-9, f"get_gate_expm({(a, b)}, {x})")
            if e:
                return e
            U2 = np.asarray(ham.get_gate_expm((a, b), x))
            if np.max(np.abs(U2 - U)) > 0:
                return "cached exponential differs on the second call"
    return None


# ----------------------------------------------------------------------------------------------
# driver 1: LocalHam1D / LocalHamGen / LocalHam2D / LocalHam3D
# ----------------------------------------------------------------------------------------------

@driver("C11", "local-ham-sum-and-expm", chunks=4, timeout=240,
        bound="LocalHam1D L 2..7 open, 3..7 periodic, d 2..3 (dense dimension <= 2187); LocalHamGen on random connected "
              "graphs with 2..6 nodes labelled by ints / strings / tuples; LocalHam2D up to 3x3 (periodic: 3x3), LocalHam3D "
              "2x2x2; H2 as one array, default + overrides, or fully explicit with keys in either or both orientations; H1 "
              "absent, one array, default + overrides, or on some sites only; random complex, non-Hermitian and "
              "non-exchange-symmetric terms; exponents x in {0.3, -0.2j, 0.1-0.4j}")
def local_ham(cx):
    import quimb.tensor as qtn

    _serial_cotengra()
    rng = cx.rng
    reps = 12 if cx.quick else 120
    h2modes = ("array", "default+override", "explicit")
    h1modes = ("none", "array", "default+some", "some")
    xs = (0.3, -0.2j, 0.1 - 0.4j)
    for kind, rep in itertools.product(("1d", "1d-cyclic", "gen", "2d", "2d-cyclic", "3d"), range(reps)):
        for h2mode, h1mode in itertools.product(h2modes, h1modes):
            if not cx.mine():
                continue
            if cx.out_of_time():
                cx.inconclusive.append("local-ham-sum-and-expm: time budget exhausted")
                return
            cplx = bool(rng.integers(2))
            herm = bool(rng.integers(2))
            seed = int(rng.integers(1 << 30))
            p = dict(kind=kind, h2=h2mode, h1=h1mode, cplx=cplx, herm=herm, seed=seed, rep=rep)

            def thunk(kind=kind, h2mode=h2mode, h1mode=h1mode, cplx=cplx, herm=herm, seed=seed):
                r = np.random.default_rng(seed)
                if kind in ("1d", "1d-cyclic"):
                    cyc = kind == "1d-cyclic"
                    d = int(r.integers(2, 4))
                    L = int(r.integers(3 if cyc else 2, (6 if d == 3 else 8) if not cyc else (6 if d == 3 else 8)))
                    nodes = list(range(L))
                    nn = [(i, (i + 1) % L) for i in range(L - 1 + int(cyc))]
                    sub = nn if h2mode != "explicit" else [e for e in nn if r.random() < 0.8] or nn[:1]
                    spec = _Spec(r, nodes, sub, d, cplx, h2mode, h1mode, 0.35, herm, default_edges=nn)
                    ham = qtn.LocalHam1D(L, H2=spec.H2, H1=spec.H1, cyclic=cyc)
                    if ham.L != L or bool(ham.cyclic) != cyc:
                        return "L / cyclic attribute"
                elif kind == "gen":
                    d = 2
                    n = int(r.integers(2, 7))
                    lab = int(r.integers(3))
                    nodes = list(range(n)) if lab == 0 else ([f"s{i}" for i in range(n)] if lab == 1 else [(i // 2, i % 2) for i in range(n)])
                    edges = [(nodes[int(r.integers(0, i))], nodes[i]) for i in range(1, n)]
                    for i in range(n):
                        for j in range(i + 1, n):
                            if r.random() < 0.25 and (nodes[i], nodes[j]) not in edges:
                                edges.append((nodes[i], nodes[j]))
                    mode = "explicit" if h2mode != "explicit" else h2mode
                    spec = _Spec(r, nodes, edges, d, cplx, mode, h1mode, 0.35, herm)
                    ham = qtn.LocalHamGen(H2=spec.H2, H1=spec.H1)
                    if tuple(ham.sites) != tuple(sorted(nodes)) or ham.nsites != n:
                        return f"sites {ham.sites}"
                elif kind in ("2d", "2d-cyclic"):
                    cyc = kind == "2d-cyclic"
                    d = 2
                    Lx, Ly = (3, 3) if cyc else (int(r.integers(1, 4)), int(r.integers(2, 4)))
                    nodes = [(i, j) for i in range(Lx) for j in range(Ly)]
                    nn = []
                    for i in range(Lx):
                        for j in range(Ly):
                            if j + 1 < Ly or cyc:
                                nn.append(((i, j), (i, (j + 1) % Ly)))
                            if i + 1 < Lx or cyc:
                                nn.append(((i, j), ((i + 1) % Lx, j)))
                    sub = nn if h2mode != "explicit" else [e for e in nn if r.random() < 0.8] or nn[:1]
                    spec = _Spec(r, nodes, sub, d, cplx, h2mode, h1mode, 0.35, herm, default_edges=nn)
                    ham = qtn.LocalHam2D(Lx, Ly, H2=spec.H2, H1=spec.H1, cyclic=cyc)
                    if ham.nsites != Lx * Ly:
                        return "nsites"
                else:
                    d = 2
                    nodes = [(i, j, k) for i in range(2) for j in range(2) for k in range(2)]
                    nn = []
                    for (i, j, k) in nodes:
                        if k + 1 < 2:
                            nn.append(((i, j, k), (i, j, k + 1)))
                        if j + 1 < 2:
                            nn.append(((i, j, k), (i, j + 1, k)))
                        if i + 1 < 2:
                            nn.append(((i, j, k), (i + 1, j, k)))
                    sub = nn if h2mode != "explicit" else [e for e in nn if r.random() < 0.8] or nn[:1]
                    spec = _Spec(r, nodes, sub, d, cplx, h2mode, h1mode, 0.35, herm, default_edges=nn)
                    ham = qtn.LocalHam3D(2, 2, 2, H2=spec.H2, H1=spec.H1)
                # every site with a one-site term must be covered (else the constructor documents a rejection)
                e = _check_local_ham(ham, spec, xs)
                if e:
                    return e
                # orderings: every pair exactly once, groups are site-disjoint
                for order in ("sort", None, "random", "random-ungrouped", "smallest_last"):
                    for group in (False, True):
                        o = ham.get_auto_ordering(order, group=group)
                        flat = [pr for g in o for pr in g] if group else list(o)
                        if sorted(map(tuple, flat)) != sorted(ham.terms):
                            return f"get_auto_ordering({order}, group={group}) does not list every pair exactly once"
                        if group and order != "random-ungrouped":
                            for g in o:
                                ss = [s for pr in g for s in pr]
                                if len(ss) != len(set(ss)):
                                    return f"get_auto_ordering({order}): a layer has overlapping pairs {g}"
                return None

            cx.check("LocalHam*: sum of embedded terms == dense H from the supplied dicts; terms = pair part + equal shares; "
                     "get_gate_expm == expm(x term); orderings cover every pair once", p, thunk)


# ----------------------------------------------------------------------------------------------
# driver 2: trotter schedules and gate sequences
# ----------------------------------------------------------------------------------------------

@driver("C11", "trotter-gates", chunks=4, timeout=240,
        bound="trotter_schedule for 0..7 layers, orders 1, 2, 4; LocalHam1D (L 2..6, open / periodic, d=2) and LocalHamGen "
              "(3..5 nodes) get_trotter_gates for orders 1, 2, 4, steps 1..3, fuse / alternate on and off, explicit and "
              "automatic layerings, complex exponents; build_mpo_propagator_trotterized (L <= 5; order 2 periodic L <= 4; order 4 "
              "open L <= 3; larger cases are skipped because the uncompressed MPO bond grows by 4 per gate): product of the embedded "
              "gates == the product formula written out with scipy expm; error vs expm(xH) shrinks by 2^(order+1) per halving")
def trotter(cx):
    import scipy.linalg as sla

    import quimb.tensor as qtn
    from quimb.tensor.tnag.tebd import trotter_schedule

    _serial_cotengra()
    rng = cx.rng
    for n, order in itertools.product(range(0, 8), (1, 2, 4)):
        if not cx.mine():
            continue

        def t_sched(n=n, order=order):
            sch = trotter_schedule(n, order=order)
            ks = [k for k, _ in sch]
            fr = [f for _, f in sch]
            if any(not (0 <= k < n) for k in ks):
                return f"layer index out of range: {ks}"
            for k in range(n):
                tot = sum(f for kk, f in sch if kk == k)
                if abs(tot - 1) > 1e-12:
                    return f"fractions of layer {k} sum to {tot}"
            if order in (2, 4):
                if ks != ks[::-1] or np.max(np.abs(np.array(fr) - np.array(fr[::-1]))) > 1e-15 if fr else False:
                    return "schedule is not palindromic"
            if order == 1 and ks != list(range(n)):
                return f"order 1 schedule {ks}"
            if order == 2 and n > 0 and ks != list(range(n)) + list(range(n - 2, -1, -1)):
                return f"order 2 schedule {ks}"
            if order == 4 and n > 0:
                s = 1 / (4 - 4 ** (1 / 3))
                s2 = [(k, 0.5) for k in range(n - 1)] + [(n - 1, 1.0)] + [(k, 0.5) for k in range(n - 2, -1, -1)]
                ref = [(k, f * g) for g in (s, s, 1 - 4 * s, s, s) for k, f in s2]
                if ks != [k for k, _ in ref] or np.max(np.abs(np.array(fr) - np.array([f for _, f in ref]))) > 1e-14:
                    return "order 4 schedule is not the Suzuki recursion of five order-2 steps"
            return None

        cx.check("trotter_schedule: layer indices valid, per-layer fractions sum to 1, palindromic for orders 2 and 4",
                 dict(nlayers=n, order=order), t_sched, nontrivial=n > 0)

    reps = 16 if cx.quick else 200
    for order, rep in itertools.product((1, 2, 4), range(reps)):
        if not cx.mine():
            continue
        if cx.out_of_time():
            cx.inconclusive.append("trotter-gates: time budget exhausted")
            return
        seed = int(rng.integers(1 << 30))
        steps = int(rng.integers(1, 4))
        fuse = bool(rng.integers(2))
        alt = bool(rng.integers(2))
        ordering = ("sort", None, "explicit", "smallest_last")[int(rng.integers(4))]
        kind = ("1d", "1d-cyclic", "gen")[int(rng.integers(3))]
        x = (0.15, -0.2j, 0.05 - 0.1j)[int(rng.integers(3))]
        Lsz = int(rng.integers(2, 7))
        if kind == "1d-cyclic":
            Lsz = max(Lsz, 3)
        p = dict(order=order, steps=steps, fuse_adjacent=fuse, alternate=alt, ordering=str(ordering), kind=kind, x=str(x), seed=seed,
                 L=Lsz if kind != "gen" else None)

        def build(r, kind, Lsz=Lsz):
            if kind == "gen":
                n = int(r.integers(3, 6))
                nodes = list(range(n))
                edges = [(int(r.integers(0, i)), i) for i in range(1, n)]
                for i in range(n):
                    for j in range(i + 1, n):
                        if r.random() < 0.3 and (i, j) not in edges:
                            edges.append((i, j))
                spec = _Spec(r, nodes, edges, 2, True, "explicit", "some", 0.3)
                return qtn.LocalHamGen(H2=spec.H2, H1=spec.H1), spec
            cyc = kind == "1d-cyclic"
            L = Lsz
            nn = [(i, (i + 1) % L) for i in range(L - 1 + int(cyc))]
            spec = _Spec(r, list(range(L)), nn, 2, True, "explicit", "default+some", 0.3)
            return qtn.LocalHam1D(L, H2=spec.H2, H1=spec.H1, cyclic=cyc), spec

        def t_gates(order=order, steps=steps, fuse=fuse, alt=alt, ordering=ordering, kind=kind, x=x, seed=seed):
            r = np.random.default_rng(seed)
            ham, spec = build(r, kind)
            bt = spec.bond_terms()
            n, d = spec.n, spec.d
            if ordering == "explicit":
                # our own greedy layering of a random permutation of the pairs
                prs = [tuple(pr) for pr in r.permutation(np.array(sorted(bt), dtype=object).reshape(-1, 2)).tolist()]
                layers, cur, cov = [], [], set()
                while prs:
                    for pr in list(prs):
                        if pr[0] not in cov and pr[1] not in cov:
                            cur.append(pr)
                            cov |= set(pr)
                            prs.remove(pr)
                    layers.append(tuple(cur))
                    cur, cov = [], set()
                arg = layers
            else:
                arg = ordering
                layers = ham.get_auto_ordering(ordering, group=True)
                flat = [pr for g in layers for pr in g]
                if sorted(flat) != sorted(bt):
                    return "layering does not cover the pairs"
                for g in layers:
                    ss = [s for pr in g for s in pr]
                    if len(ss) != len(set(ss)):
                        return "a layer has overlapping pairs"
            gates = ham.get_trotter_gates(x, order=order, steps=steps, ordering=arg, fuse_adjacent=fuse, alternate=alt)
            D = d ** n
            got = np.eye(D, dtype=complex)
            for g in gates:
                U, where = g
                U = np.asarray(U)
                e = _close(U, sla.expm(g.frac * x * bt[tuple(sorted(where))]), 1e-9, f"gate at {where} vs expm(frac x term)")
                if e:
                    return e
                got = _embed(U, d, n, [spec.pos[s] for s in where]) @ got
            # reference product formula: layers in the schedule order, gates inside a layer commute
            nl = len(layers)
            if order == 1:
                sch = [(k, 1.0) for k in range(nl)]
            else:
                s2 = [(k, 0.5) for k in range(nl - 1)] + [(nl - 1, 1.0)] + [(k, 0.5) for k in range(nl - 2, -1, -1)]
                if order == 2:
                    sch = s2
                else:
                    s = 1 / (4 - 4 ** (1 / 3))
                    sch = [(k, f * g) for g in (s, s, 1 - 4 * s, s, s) for k, f in s2]
            ref = np.eye(D, dtype=complex)
            for _ in range(steps):
                for k, f in sch:
                    for pr in layers[k]:
                        ref = _embed(sla.expm(f * x * bt[tuple(sorted(pr))]), d, n, [spec.pos[s] for s in sorted(pr)]) @ ref
            e = _close(got, ref, 1e-9, "product of the returned gates vs the written-out product formula")
            if e:
                return e
            # convergence: halving x (same total exponent) improves the error by ~2^order
            errs = []
            for m in (1, 2):
                gs = ham.get_trotter_gates(x / m, order=order, steps=m, ordering=arg, fuse_adjacent=fuse, alternate=alt)
                P = np.eye(D, dtype=complex)
                for U, where in gs:
                    P = _embed(np.asarray(U), d, n, [spec.pos[s] for s in where]) @ P
                errs.append(float(np.linalg.norm(P - sla.expm(x * spec.H), 2)))
            if errs[0] > 1e-9 and nl > 1:
                ratio = errs[0] / max(errs[1], 1e-300)
                lo = {1: 1.5, 2: 3.0, 4: 9.0}[order]
                if ratio < lo:
                    return f"halving the step improves the error only by {ratio:.2f} (order {order}: expected ~{2 ** order}); errors {errs}"
            return None

        cx.check("get_trotter_gates: gates == expm(frac x term), product == written-out product formula, converges at the order",
                 p, t_gates)

        # the uncompressed propagator MPO gains a factor <= 4 in bond dimension per gate on a pair: bounded sizes only
        too_big = (order == 4 and (Lsz > 3 or kind == "1d-cyclic")) or (order == 2 and kind == "1d-cyclic" and Lsz > 4) or Lsz > 5
        if kind != "gen" and not too_big:
            def t_mpo(order=order, kind=kind, x=x, seed=seed):
                r = np.random.default_rng(seed)
                ham, spec = build(r, kind)
                D = spec.d ** spec.n
                errs = []
                for m in (1, 2):
                    mpo = ham.build_mpo_propagator_trotterized(x / m, order=order, cutoff=0.0)
                    M = np.asarray(mpo.to_dense())
                    if M.shape != (D, D):
                        return f"shape {M.shape}"
                    gs = ham.get_trotter_gates(x / m, order=order, ordering="sort")
                    P = np.eye(D, dtype=complex)
                    for U, where in gs:
                        P = _embed(np.asarray(U), spec.d, spec.n, [spec.pos[s] for s in where]) @ P
                    e = _close(M, P, 1e-8, "MPO propagator vs product of its Trotter gates")
                    if e:
                        return e
                    errs.append(float(np.linalg.norm(np.linalg.matrix_power(M, m) - sla.expm(x * spec.H), 2)))
                if errs[0] > 1e-9 and len(spec.pair) > 1:
                    ratio = errs[0] / max(errs[1], 1e-300)
                    lo = {1: 1.5, 2: 3.0, 4: 9.0}[order]
                    if ratio < lo:
                        return f"MPO propagator: halving x improves the error only by {ratio:.2f} (order {order}); {errs}"
                return None

            cx.check("build_mpo_propagator_trotterized(x, order).to_dense() == product of the Trotter gates, converges to expm(xH)",
                     dict(order=order, kind=kind, x=str(x), seed=seed, L=Lsz), t_mpo)


# ----------------------------------------------------------------------------------------------
# driver 3: TEBD (1D) histories vs the explicit product formula
# ----------------------------------------------------------------------------------------------

def _sweep_ref(psi, direction, tau, bt, L, d, cyclic, imag):
    import scipy.linalg as sla

    f = -tau if imag else -1j * tau
    if direction == 0:
        bonds = [(i, i + 1) for i in range(0, L - 1, 2)]
        if L % 2 == 1 and cyclic:
            bonds.append((L - 1, 0))
    else:
        bonds = []
        if cyclic and L % 2 == 0:
            bonds.append((L - 1, 0))
        bonds += [(i, i + 1) for i in reversed(range(1, L - 1, 2))]
    for a, b in bonds:
        h = bt[(a, b)] if (a, b) in bt else _flip(bt[(b, a)], d)
        psi = _apply2(psi, sla.expm(f * h), a, b, L, d)
    return psi


def _evolve_ref(psi, t, T, dt, order, bt, L, d, cyclic, imag, ham_norm):
    """replay of update_to: full steps of dt while more than dt remains, then one step of the remainder"""
    r = (T - t) / dt
    n_full = max(int(math.ceil(r - 1e-9)) - 1, 0)
    err = 0.0
    steps = [dt] * n_full
    steps.append((T - t) - n_full * dt)
    for h in steps:
        for k, fr in _schedule(order):
            psi = _sweep_ref(psi, k, fr * h, bt, L, d, cyclic, imag)
        err += ham_norm * h ** (order + 1)
    if imag:
        psi = psi / np.linalg.norm(psi)
    return psi, err, len(steps)


@driver("C11", "tebd-product-formula", chunks=10, timeout=400,
        bound="TEBD on chains L 2..7 open and 3..6 periodic, d=2 (d=3 for open L<=4), random complex Hermitian site-dependent "
              "non-exchange-symmetric two-site terms + one-site terms (also a single 2-site array), random normalised complex "
              "MPS or product initial states, orders 1, 2, 4, dt in [0.03, 0.2] or a tol giving such a dt, t0 in {0, 0.37}, 2-3 "
              "successive targets (not multiples of dt, and exact multiples) through update_to and at_times, real and "
              "imaginary time, split cutoff 0 or default (no bond cap): t == T (4 ulp), state == written-out product formula "
              "(1e-8 with cutoff 0, 1e-3 with the default cutoff 1e-10 on the discarded weight), norm 1, err bookkeeping, convergence ratio under step halving (odd periodic chains: first order only, "
              "exact formula only for single-step evolutions); periodic chains have no canonical form, so without truncation every "
              "gate doubles the bond: periodic histories are limited to two calls / two steps with orders 1 and 2, order 4 is "
              "covered there at the level of single sweeps")
def tebd(cx):
    import scipy.linalg as sla

    import quimb.tensor as qtn

    _serial_cotengra()
    rng = cx.rng
    reps = 6 if cx.quick else 80
    grid = list(itertools.product((2, 3, 4, 5, 6, 7), (False, True), (1, 2, 4), (False, True), range(reps)))
    for L, cyclic, order, imag, rep in grid:
        if cyclic and (L < 3 or L > 6):
            continue
        if not cx.mine():
            continue
        if cx.out_of_time():
            cx.inconclusive.append("tebd-product-formula: time budget exhausted")
            return
        seed = int(rng.integers(1 << 30))
        d = 3 if (L <= 4 and rng.integers(4) == 0 and not cyclic) else 2   # (periodic: bonds grow by d per gate)
        hmode = ("explicit", "default+override", "array")[int(rng.integers(3))]
        h1mode = ("none", "array", "default+some", "some")[int(rng.integers(4))]
        use_tol = bool(rng.integers(4) == 0) and not cyclic
        dt = float(rng.uniform(0.03, 0.2))
        tol = float(rng.uniform(1e-3, 1e-2))
        t0 = (0.0, 0.37)[int(rng.integers(2))]
        ntar = int(rng.integers(2, 4)) if not cyclic else 2
        api = ("update_to", "at_times")[int(rng.integers(2))]
        cutoff0 = bool(rng.integers(2))
        p0kind = ("rand", "product", "real")[int(rng.integers(3))]
        mult = bool(rng.integers(4) == 0) and not cyclic
        odd_cyclic = cyclic and L % 2 == 1
        symb = bool(cyclic and rng.integers(2))   # periodic: boundary term symmetric under exchange of sites L-1 and 0
        p = dict(L=L, cyclic=cyclic, order=order, imag=imag, d=d, h2=hmode, h1=h1mode, use_tol=use_tol, dt=round(dt, 6),
                 tol=round(tol, 6), t0=t0, ntargets=ntar, api=api, cutoff0=cutoff0, p0=p0kind, multiples=mult, seed=seed, rep=rep,
                 odd_periodic=odd_cyclic, boundary_symmetric=(symb if cyclic else None))

        def setup(L=L, cyclic=cyclic, d=d, hmode=hmode, h1mode=h1mode, seed=seed, p0kind=p0kind, imag=imag, symb=symb):
            r = np.random.default_rng(seed)
            nn = [(i, (i + 1) % L) for i in range(L - 1 + int(cyclic))]
            spec = _Spec(r, list(range(L)), nn, d, True, hmode, h1mode, 0.35, herm=True, default_edges=nn,
                         sym_pair=(L - 1, 0) if symb else None)
            if p0kind == "product":
                p0 = qtn.MPS_product_state([r.normal(size=d) + 1j * r.normal(size=d) for _ in range(L)], cyclic=cyclic)
                p0.normalize()
            else:
                p0 = qtn.MPS_rand_state(L, 2, phys_dim=d, cyclic=cyclic, dtype="float64" if p0kind == "real" else "complex128",
                                        seed=int(r.integers(1 << 30)))
            psi0 = np.asarray(p0.to_dense()).reshape(-1).astype(complex)
            return r, spec, p0, psi0

        def thunk(L=L, cyclic=cyclic, order=order, imag=imag, d=d, hmode=hmode, use_tol=use_tol, dt=dt, tol=tol, t0=t0, ntar=ntar,
                  api=api, cutoff0=cutoff0, mult=mult, odd_cyclic=odd_cyclic, norm_only=False):
            r, spec, p0, psi0 = setup()
            bt = spec.bond_terms()
            if hmode == "array" and spec.H1 is None:
                H = spec.H2   # a raw two-site array is accepted directly
            else:
                H = qtn.LocalHam1D(L, H2=spec.H2, H1=spec.H1, cyclic=cyclic)
            ham_norm = float(np.mean([np.linalg.norm(m) for m in bt.values()]))
            kw = dict(tol=tol) if use_tol else dict(dt=dt)
            if use_tol:
                # the tolerance is chosen so that the documented rule dt = (tol / (T |H|))^(1/order) gives steps of about `dt`
                tol = 0.5 * ham_norm * dt ** order
                kw = dict(tol=tol)
            so = {"cutoff": 0.0} if cutoff0 else None
            tb = qtn.TEBD(p0, H, t0=t0, split_opts=so, progbar=False, imag=imag, **kw)
            if abs(tb.t - t0) > 0:
                return f"initial time {tb.t}"
            # targets
            span = dt * float(r.uniform(1.2, 4.8)) if not use_tol else 0.5
            if cyclic:
                # a periodic MPS has no canonical form: without truncation every gate doubles its bond, so only short
                # histories are affordable (two calls, at most two steps in total)
                span = dt * float(r.uniform(1.1, 1.9))
            if odd_cyclic:
                # exact product formula only without merged sweeps: a single (final) step per call
                span = dt * 0.9 * ntar
            cuts = np.sort(r.uniform(0.05, 1.0, size=ntar))
            cuts[-1] = 1.0
            targets = [t0 + span * float(c) for c in cuts]
            if mult and not use_tol and not odd_cyclic:
                targets = [t0 + dt * (k + 1) * 2 for k in range(ntar)]
            psi, t, err_ref = psi0.copy(), t0, 0.0
            states = []
            if api == "update_to":
                for T in targets:
                    if use_tol:
                        dt_eff = (tol / ((T - t) * ham_norm)) ** (1 / order)
                    else:
                        dt_eff = dt
                    tb.update_to(T, order=order, progbar=False)
                    psi, e, _ = _evolve_ref(psi, t, T, dt_eff, order, bt, L, d, cyclic, imag, ham_norm)
                    err_ref += e
                    t = T
                    states.append((T, np.asarray(tb.pt.to_dense()).reshape(-1), psi.copy(), tb.t, tb.err, err_ref))
            else:
                if use_tol:
                    dt_eff = (tol / ((targets[-1] - t) * ham_norm)) ** (1 / order)
                else:
                    dt_eff = dt
                shuffled = [targets[i] for i in r.permutation(len(targets))]
                for T, pt in zip(sorted(targets), tb.at_times(shuffled, order=order, progbar=False)):
                    psi, e, _ = _evolve_ref(psi, t, T, dt_eff, order, bt, L, d, cyclic, imag, ham_norm)
                    err_ref += e
                    t = T
                    states.append((T, np.asarray(pt.to_dense()).reshape(-1), psi.copy(), tb.t, tb.err, err_ref))
            for T, got, ref, tt, err_got, err_want in states:
                if abs(tt - T) > 4 * np.spacing(max(abs(T), 1.0)):
                    return f"target {T!r}: tebd.t = {tt!r}"
                nrm = float(np.linalg.norm(got))
                if norm_only:
                    if abs(nrm - 1) > 1e-8:
                        return f"target {T}: norm of the returned state {nrm} (imaginary time)"
                    continue
                if not imag and abs(nrm - 1) > (1e-9 if cutoff0 else 1e-6):
                    return f"target {T}: norm of the state {nrm} (real time)"
                if imag:
                    got = got / nrm   # the normalisation itself is the business of the next contract
                e = _close(got, ref, 1e-8 if cutoff0 else 1e-3, f"state at T={T:.4f} vs written-out product formula (order {order})")
                if e:
                    return e
                if abs(err_got - err_want) > 1e-9 * max(err_want, 1e-300) + 1e-15:
                    return f"target {T}: tebd.err = {err_got}, sum of ham_norm * dt^(order+1) = {err_want}"
            return None

        if not (cyclic and order == 4):
            cx.check("TEBD update_to / at_times: t == T, state == written-out product formula (imaginary time: up to "
                     "normalisation), unit norm in real time, err bookkeeping", p, thunk)
            if imag:
                cx.check("TEBD(imag=True) returns a normalised state", dict(p, last_sweep_left=(order == 1)),
                         lambda thunk=thunk: thunk(norm_only=True))

        nsw = int(rng.integers(1, 4))
        seq = [(int(rng.integers(2)), float(rng.uniform(0.2, 1.0))) for _ in range(nsw)]
        queue = bool(rng.integers(2))

        def t_sweeps(L=L, cyclic=cyclic, imag=imag, d=d, dt=dt, seq=seq, queue=queue, cutoff0=cutoff0, norm_only=False):
            r, spec, p0, psi0 = setup()
            bt = spec.bond_terms()
            H = qtn.LocalHam1D(L, H2=spec.H2, H1=spec.H1, cyclic=cyclic)
            tb = qtn.TEBD(p0, H, dt=dt, split_opts={"cutoff": 0.0} if cutoff0 else None, progbar=False, imag=imag)
            tb._dt = dt
            psi = psi0.copy()
            for k, fr in seq:
                tb.sweep(("right", "left")[k], fr, queue=queue)
                psi = _sweep_ref(psi, k, fr * dt, bt, L, d, cyclic, imag)
            if queue:
                # a queued sweep is only applied when a non-queued one drains it: finish with an explicit zero-time sweep
                tb.sweep("right", 0.0, queue=False)
            if imag:
                psi = psi / np.linalg.norm(psi)
            got = np.asarray(tb.pt.to_dense()).reshape(-1)
            if queue and (odd_cyclic and any(seq[i][0] == seq[i + 1][0] == 0 for i in range(len(seq) - 1))):
                return None  # merged right sweeps on an odd periodic chain are not the product of the two sweeps
            nrm = float(np.linalg.norm(got))
            if norm_only:
                return None if abs(nrm - 1) <= 1e-8 else f"norm of the state after the sweeps: {nrm} (imaginary time)"
            if imag:
                got = got / nrm
            elif abs(nrm - 1) > (1e-9 if cutoff0 else 1e-6):
                return f"norm {nrm} (real time)"
            return _close(got, psi, 1e-8 if cutoff0 else 1e-3, f"state after sweeps {seq} (queue={queue})")

        cx.check("TEBD.sweep(direction, dt_frac): right = even bonds (+ boundary bond on odd periodic chains), left = odd bonds "
                 "(+ boundary bond on even periodic chains), each gate = expm(-i dt_frac dt term)",
                 dict(p, sweeps=[[k, round(f, 4)] for k, f in seq], queue=queue), t_sweeps)
        if imag:
            # with queue=True the draining zero-time right sweep comes last
            cx.check("TEBD.sweep with imag=True leaves a normalised state",
                     dict(p, sweeps=[[k, round(f, 4)] for k, f in seq], queue=queue, last_sweep_left=(seq[-1][0] == 1 and not queue)),
                     lambda t_sweeps=t_sweeps: t_sweeps(norm_only=True))

        if rep % 2 == 0 and not imag and not (cyclic and order == 4):
            def t_conv(L=L, cyclic=cyclic, order=order, d=d, odd_cyclic=odd_cyclic):
                r, spec, p0, psi0 = setup()
                H = qtn.LocalHam1D(L, H2=spec.H2, H1=spec.H1, cyclic=cyclic)
                # scale so that the Trotter error is well above round-off and well inside the asymptotic regime
                T = 0.8 if not cyclic else 0.12
                exact = sla.expm(-1j * T * spec.H) @ psi0
                errs = []
                for m in ((4, 8) if not cyclic else (1, 2)):
                    tb = qtn.TEBD(p0, H, dt=T / m, split_opts={"cutoff": 0.0}, progbar=False)
                    tb.update_to(T, order=order, progbar=False)
                    errs.append(float(np.linalg.norm(np.asarray(tb.pt.to_dense()).reshape(-1) - exact)))
                if errs[0] < 1e-10 or len(spec.pair) < 2:
                    return None
                ratio = errs[0] / max(errs[1], 1e-300)
                need = {1: 1.6, 2: 3.2, 4: 10.0}[1 if odd_cyclic else order]
                if ratio < need:
                    return (f"error vs expm(-iHT): {errs[0]:.3e} at dt, {errs[1]:.3e} at dt/2: ratio {ratio:.2f} < {need} "
                            f"(order {1 if odd_cyclic else order} convergence)")
                return None

            cx.check("TEBD: error against exact evolution shrinks by ~2^order when dt is halved (odd periodic: first order)",
                     dict(L=L, cyclic=cyclic, order=order, d=d, h2=hmode, h1=h1mode, seed=seed, p0=p0kind, odd_periodic=odd_cyclic,
                          boundary_symmetric=(symb if cyclic else None)), t_conv)


# ----------------------------------------------------------------------------------------------
# driver 4: arbitrary-geometry TEBD / simple update sweeps vs the explicit product of gates
# ----------------------------------------------------------------------------------------------

@driver("C11", "tebd-gen-sweeps", chunks=4, timeout=300,
        bound="TEBDGen and SimpleUpdateGen (imaginary time; real time is rejected by the library) on random connected graphs "
              "with 3..5 qubits (trees and graphs with one or two loops), random real-symmetric or complex-Hermitian terms + "
              "fields, random initial tensor network states of bond 2, explicit random orderings, second_order_reflect on / off, "
              "1-2 sweeps, bond cap 64 and cutoff 0 (no truncation): state == product of expm(-tau term) in the given order "
              "(simple update: up to the positive normalisation it applies)")
def tebd_gen(cx):
    import scipy.linalg as sla

    import quimb.tensor as qtn

    _serial_cotengra()
    rng = cx.rng
    reps = 30 if cx.quick else 300
    for algo, reflect, rep in itertools.product(("TEBDGen", "SimpleUpdateGen"), (False, True), range(reps)):
        if not cx.mine():
            continue
        if cx.out_of_time():
            cx.inconclusive.append("tebd-gen-sweeps: time budget exhausted")
            return
        seed = int(rng.integers(1 << 30))
        cplx = bool(rng.integers(2))
        nsweeps = int(rng.integers(1, 3))
        tau = float(rng.uniform(0.02, 0.3))
        how = ("sweep", "evolve")[int(rng.integers(2))]
        p = dict(algo=algo, second_order_reflect=reflect, seed=seed, cplx=cplx, nsweeps=nsweeps, tau=round(tau, 5), how=how, rep=rep)

        def thunk(algo=algo, reflect=reflect, seed=seed, cplx=cplx, nsweeps=nsweeps, tau=tau, how=how):
            r = np.random.default_rng(seed)
            n = int(r.integers(3, 6))
            nodes = list(range(n))
            edges = [(int(r.integers(0, i)), i) for i in range(1, n)]
            extra = int(r.integers(0, 3))
            for _ in range(extra):
                a, b = sorted(int(q) for q in r.choice(n, size=2, replace=False))
                if (a, b) not in edges:
                    edges.append((a, b))
            if len(edges) > n - 1 and nsweeps * (2 if reflect else 1) > 2:
                # on a graph with loops the local ranks are not bounded by the Hilbert space: every gate multiplies the bond by 4,
                # so at most two gates per edge stay below the cap of 64 (no truncation)
                nsweeps = 1
            spec = _Spec(r, nodes, edges, 2, cplx, "explicit", ("none", "some", "array")[int(r.integers(3))], 0.3, herm=True)
            ham = qtn.LocalHamGen(H2=spec.H2, H1=spec.H1)
            bt = spec.bond_terms()
            psi0 = qtn.TN_from_edges_rand(edges, D=2, phys_dim=2, dtype="complex128" if cplx else "float64",
                                          seed=int(r.integers(1 << 30)))
            inds = [psi0.site_ind(s) for s in nodes]
            x0 = np.asarray(psi0.to_dense(inds)).reshape(-1).astype(complex)
            ordering = [tuple(pr) for pr in r.permutation(np.array(sorted(bt), dtype=object).reshape(-1, 2)).tolist()]
            cls = getattr(qtn, algo)
            kw = dict(tau=tau, D=64, cutoff=0.0, ordering=ordering, second_order_reflect=reflect, compute_energy_final=False,
                      progbar=False)
            tb = cls(psi0, ham, **kw)
            if how == "sweep":
                for _ in range(nsweeps):
                    tb.sweep(tau)
            else:
                tb.evolve(nsweeps, tau=tau, progbar=False)
                if tb.n != nsweeps:
                    return f"n = {tb.n} after {nsweeps} steps"
            got = np.asarray(tb.state.to_dense(inds)).reshape(-1).astype(complex)
            ref = x0.copy()
            seq = ordering + ordering[::-1] if reflect else ordering
            f = 2.0 if reflect else 1.0
            for _ in range(nsweeps):
                for (a, b) in seq:
                    ref = _apply2(ref, sla.expm(-tau / f * bt[(a, b)]), a, b, n, 2)
            if sorted(tb.state.outer_inds()) != sorted(inds):
                return "outer labels changed"
            if algo == "SimpleUpdateGen" or how == "evolve":
                # simple update renormalises with its gauges (a positive factor): compare directions
                got = got / np.linalg.norm(got)
                ref = ref / np.linalg.norm(ref)
                # fix a possible overall sign / phase-free positive factor only: no phase freedom is allowed
            return _close(got, ref, 1e-5, f"{algo} state after {nsweeps} sweep(s) vs ordered product of expm(-tau term)")

        cx.check("TEBDGen / SimpleUpdateGen sweep == ordered product of expm(-tau term) (reflected: palindromic with tau/2)", p, thunk)
