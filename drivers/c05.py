"""C05 bounded stand-in: tensor decomposition -- exact when untruncated, optimal and honest when truncated.

Every contract compares the factors returned by the real quimb entry points (array_split, tensor_split,
Tensor.split, TensorNetwork.split and the generic ``_default_fn`` implementations of the split drivers) with
plain numpy linear algebra on the dense input: numpy.linalg.svd of the input gives the reference singular
values, the documented cutoff rule is re-implemented here (``_rule_k``), the renormalisation factor, the optimal
(Eckart-Young) error and the isometry defects are computed with numpy only.
"""

import itertools
import warnings

import numpy as np

from vf.rtc import driver

DTYPES = ("float64", "complex128", "float32", "complex64")
# numeric codes of the cutoff modes as documented in the docstring of decomp.svd_truncated
MODE_CODE = {"abs": 1, "rel": 2, "sum2": 3, "rsum2": 4, "sum1": 5, "rsum1": 6}
MODE_POW = {"sum2": 2, "rsum2": 2, "sum1": 1, "rsum1": 1}
MODES = tuple(MODE_CODE)

# requested form for every documented spelling of ``absorb`` (docstrings of array_split / tensor_split /
# svd_truncated: -1 left, 0 both, 1 right)
FORM = {None: "full", "U,s,VH": "full", "s": "s", "lsqrt": "Usq", "VH": "VH", "rorthog": "VH", "Us": "Us",
        "lfactor": "Us", "Us,VH": "left", "left": "left", "Usq,sqVH": "both", "both": "both", "U,sVH": "right",
        "right": "right", "U": "U", "lorthog": "U", "sVH": "sVH", "rfactor": "sVH", "sqVH": "sqVH", "rsqrt": "sqVH",
        -1: "left", 0: "both", 1: "right"}
CANON = {"full": None, "s": "s", "Usq": "lsqrt", "VH": "VH", "Us": "Us", "left": "left", "both": "both",
         "right": "right", "U": "U", "sVH": "sVH", "sqVH": "rsqrt"}
ALL_SPELLINGS = ("auto",) + tuple(FORM)
CANON_SPELLINGS = ("auto", None, "s", "lsqrt", "VH", "Us", "left", "both", "right", "U", "sVH", "rsqrt")
# name of the numeric constant in quimb.tensor.decomp for each form (needed to call the generic drivers directly)
CODE_NAME = {"full": "get_U_s_VH", "s": "get_s", "Usq": "get_Usq", "VH": "get_VH", "Us": "get_Us", "left": "get_Us_VH",
             "both": "get_Usq_sqVH", "right": "get_U_sVH", "U": "get_U", "sVH": "get_sVH", "sqVH": "get_sqVH"}
# which of (left, s, right) a form returns; which factor the documentation calls isometric
PRESENT = {"full": (1, 1, 1), "s": (0, 1, 0), "Usq": (1, 0, 0), "VH": (0, 0, 1), "Us": (1, 0, 0), "left": (1, 0, 1),
           "both": (1, 0, 1), "right": (1, 0, 1), "U": (1, 0, 0), "sVH": (0, 0, 1), "sqVH": (0, 0, 1)}
ISO_L = {"full", "right", "U"}
ISO_R = {"full", "left", "VH"}
# documented default form per method ("auto")
AUTO_FORM = {"svd": "both", "svd:eig": "both", "eig": "both", "svd:rand": "both", "eigh": "both", "auto": "both",
             "svds": "both", "isvd": "both", "rsvd": "both", "eigsh": "both", "qr": "right", "lq": "left",
             "qr:cholesky": "right", "lq:cholesky": "left", "cholesky": "both", "lu": "both", "polar_right": "right",
             "polar_left": "left"}
SVD_TYPE = {"svd", "svd:eig", "eig", "svd:rand", "eigh", "auto", "svds", "isvd", "rsvd", "eigsh"}
GRAM_BASED = {"svd:eig", "eig", "qr:cholesky", "lq:cholesky"}
HERMITIAN = {"eigh", "eigsh"}
QR_FORMS = {"right", "U", "sVH", "left", "Us", "VH"}
# (method, form) combinations the documentation promises: these must not be rejected
MUST_ACCEPT = {m: set(PRESENT) for m in ("svd", "svd:eig", "eig", "svd:rand", "eigh", "auto", "svds", "isvd", "rsvd", "eigsh")}
MUST_ACCEPT.update({m: set(QR_FORMS) for m in ("qr", "lq", "qr:cholesky", "lq:cholesky")})
MUST_ACCEPT.update({"cholesky": {"both", "Usq", "sqVH"}, "lu": {"both"}, "polar_right": {"right"}, "polar_left": {"left"}})


def _form(method, absorb):
    return AUTO_FORM[method] if (isinstance(absorb, str) and absorb == "auto") else FORM[absorb]


# ----------------------------------------------------------------------------------------------
# tolerances
# ----------------------------------------------------------------------------------------------


def _tols(method, dtype):
    single = dtype in ("float32", "complex64")
    if method in ("svds", "isvd", "rsvd", "eigsh"):
        return dict(rec=2e-3 if single else 1e-6, iso=2e-3 if single else 1e-6, val=2e-3 if single else 1e-6)
    if method in GRAM_BASED:
        return dict(rec=2e-3 if single else 1e-9, iso=5e-3 if single else 1e-7, val=5e-3 if single else 1e-6)
    return dict(rec=2e-4 if single else 1e-10, iso=2e-4 if single else 1e-10, val=1e-4 if single else 1e-10)


# ----------------------------------------------------------------------------------------------
# inputs
# ----------------------------------------------------------------------------------------------


def _unitary(rng, n, cplx):
    a = rng.normal(size=(n, n))
    if cplx:
        a = a + 1j * rng.normal(size=(n, n))
    q, r = np.linalg.qr(a)
    d = np.diagonal(r).copy()
    d[d == 0] = 1.0
    return q * (d / np.abs(d))


def _spectrum(rng, d, kind):
    """descending non-negative values with a stated structure"""
    j = np.arange(d)
    if kind == "spec":  # distinct, condition number <= 7, gaps >= 0.25/d
        s = 0.15 + 0.85 * (j + rng.uniform(0.25, 0.75, size=d)) / d
    elif kind == "degen":  # every value twice
        h = (d + 1) // 2
        s = np.repeat(0.15 + 0.85 * (np.arange(h) + rng.uniform(0.25, 0.75, size=h)) / h, 2)[:d]
    elif kind == "rankdef":  # rank max(1, d // 2), exact zeros
        s = 0.15 + 0.85 * (j + rng.uniform(0.25, 0.75, size=d)) / d
        s = np.sort(s)[::-1]
        s[max(1, d // 2):] = 0.0
    elif kind == "decay":
        s = 2.0 ** (-j) * rng.uniform(0.9, 1.0, size=d)
    else:
        raise ValueError(kind)
    return np.sort(s)[::-1]


def _matrix(rng, m, n, dtype, kind, scale=1.0):
    """general m x n matrix; kind in gauss / spec / degen / rankdef / decay"""
    cplx = dtype.startswith("complex")
    if kind == "gauss":
        x = rng.normal(size=(m, n))
        if cplx:
            x = x + 1j * rng.normal(size=(m, n))
    else:
        d = min(m, n)
        s = _spectrum(rng, d, kind)
        u = _unitary(rng, m, cplx)[:, :d]
        v = _unitary(rng, n, cplx)[:, :d]
        x = (u * s) @ v.conj().T
    return np.ascontiguousarray((scale * x).astype(dtype))


def _hermitian(rng, m, dtype, kind, scale=1.0):
    """kind in psd / psd-rankdef / indef / pd"""
    cplx = dtype.startswith("complex")
    if kind == "pd":
        s = rng.uniform(0.3, 1.0, size=m)
    elif kind == "psd-rankdef":
        s = _spectrum(rng, m, "rankdef")
    else:
        s = _spectrum(rng, m, "spec")
    if kind == "indef":
        sign = np.where(np.arange(m) % 2 == 0, 1.0, -1.0)
        rng.shuffle(sign)
        s = s * sign
    u = _unitary(rng, m, cplx)
    x = (u * s) @ u.conj().T
    x = (x + x.conj().T) / 2
    return np.ascontiguousarray((scale * x).astype(dtype))


def _input(rng, method, m, n, dtype, kind, scale=1.0):
    if method in HERMITIAN:
        hk = {"gauss": "psd", "spec": "psd", "degen": "indef", "decay": "indef", "rankdef": "psd-rankdef"}.get(kind, kind)
        return _hermitian(rng, m, dtype, hk, scale), hk
    if method == "cholesky":
        return _hermitian(rng, m, dtype, "pd", scale), "pd"
    return _matrix(rng, m, n, dtype, kind, scale), kind


def _up(a):
    if a is None:
        return None
    a = np.asarray(a)
    return a.astype(np.complex128 if np.iscomplexobj(a) else np.float64)


# ----------------------------------------------------------------------------------------------
# reference semantics
# ----------------------------------------------------------------------------------------------


def _tails(s, p):
    return np.concatenate([np.cumsum((s ** p)[::-1])[::-1], [0.0]])


def _rule_once(s, sref, cutoff, mode, slack):
    """least k satisfying the documented rule for the (perturbed) values s; thresholds from the reference values"""
    if mode == "abs":
        return int(np.count_nonzero(s > cutoff))
    if mode == "rel":
        return int(np.count_nonzero(s > cutoff * sref[0]))
    p = MODE_POW[mode]
    target = cutoff * (np.sum(sref ** p) if mode.startswith("r") else 1.0) * slack
    return int(np.nonzero(_tails(s, p) <= target)[0][0])


def _rule_k(sref, cutoff, mode, max_bond, delta):
    """interval [k_lo, k_hi] of kept ranks allowed by the documented rule: values discarded while they are below the
    cutoff (abs / rel) resp. while the discarded tail sum stays below the target (sum modes); never zero; capped by
    max_bond.  Values within ``delta * s0`` of a threshold (ties, rounding of the method) are left unconstrained."""
    d = len(sref)
    if cutoff is None or cutoff < 0:
        lo = hi = d
    else:
        eps = delta * (sref[0] if d else 0.0)
        if cutoff == 0:
            hi = d
            lo = int(np.count_nonzero(sref - eps > 0))
        else:
            lo = _rule_once(np.clip(sref - eps, 0.0, None), sref, cutoff, mode, 1 + 1e-9)
            hi = _rule_once(sref + eps, sref, cutoff, mode, 1 - 1e-9)
    lo, hi = max(lo, 1), max(hi, 1)
    if max_bond is not None and max_bond > 0:
        lo, hi = min(lo, max_bond), min(hi, max_bond)
    return lo, hi


def _renorm_factor(sref, k, p):
    if not p or k >= len(sref):
        return 1.0
    keep = np.sum(sref[:k] ** p)
    if keep <= 0:
        return 1.0
    return float((np.sum(sref ** p) / keep) ** (1.0 / p))


def _proj(F, rcond):
    """orthogonal projector on the numerically significant column space of F"""
    if F.shape[1] == 0:
        return np.zeros((F.shape[0], F.shape[0]), dtype=F.dtype)
    u, s, _ = np.linalg.svd(F, full_matrices=False)
    if s.size == 0 or s[0] == 0:
        return np.zeros((F.shape[0], F.shape[0]), dtype=F.dtype)
    u = u[:, s > rcond * s[0]]
    return u @ u.conj().T


def _iso_defect(F):
    """min(||F^H F - 1||, ||F F^H - 1||): F is an isometry or a co-isometry"""
    a = np.linalg.norm(F.conj().T @ F - np.eye(F.shape[1]))
    b = np.linalg.norm(F @ F.conj().T - np.eye(F.shape[0]))
    return min(a, b)


def _svals(a):
    if a.size == 0:
        return np.zeros(0)
    return np.linalg.svd(a, compute_uv=False)


class Res:
    """normalised output of one decomposition of one matrix"""

    def __init__(self, L, s, R, error=None, lflag=None, rflag=None):
        self.L, self.s, self.R = _up(L), _up(s), _up(R)
        self.error = error
        self.lflag, self.rflag = lflag, rflag  # None: not a labelled call; else bool "flagged isometric"

    @property
    def k(self):
        for a, ax in ((self.L, 1), (self.s, 0), (self.R, 0)):
            if a is not None:
                return a.shape[ax]
        return None

    @property
    def eff(self):
        """what was actually returned"""
        pres = (self.L is not None, self.s is not None, self.R is not None)
        return {(True, True, True): "full", (True, False, True): "LR", (True, False, False): "Lonly",
                (False, False, True): "Ronly", (False, True, False): "s"}.get(pres, "none")


def c_form(r, form, m, n):
    want = tuple(bool(v) for v in PRESENT[form])
    got = (r.L is not None, r.s is not None, r.R is not None)
    if got != want:
        return f"form {form}: returned (left, s, right) present = {got}, requested form needs {want}"
    ks = []
    if r.L is not None:
        if r.L.ndim != 2 or r.L.shape[0] != m:
            return f"left factor shape {r.L.shape}, expected ({m}, k)"
        ks.append(r.L.shape[1])
    if r.s is not None:
        if r.s.ndim != 1:
            return f"values shape {r.s.shape}, expected (k,)"
        ks.append(r.s.shape[0])
    if r.R is not None:
        if r.R.ndim != 2 or r.R.shape[1] != n:
            return f"right factor shape {r.R.shape}, expected (k, {n})"
        ks.append(r.R.shape[0])
    if len(set(ks)) != 1:
        return f"inconsistent bond sizes {ks}"
    for nm, a in (("left", r.L), ("s", r.s), ("right", r.R)):
        if a is not None and not np.all(np.isfinite(a)):
            return f"{nm} contains non-finite entries"
    return None


def _usable(r, m, n):
    """consistent shapes and finite entries (whatever parts were returned)"""
    ks = []
    for a, ax, other, size in ((r.L, 1, 0, m), (r.s, 0, None, None), (r.R, 0, 1, n)):
        if a is None:
            continue
        if a.ndim != (1 if other is None else 2) or (other is not None and a.shape[other] != size):
            return False
        ks.append(a.shape[ax])
    return len(set(ks)) == 1 and _finite(r)


def c_bond(r, max_bond, d=None):
    k = r.k
    if k is None:
        return "nothing returned"
    if k < 1:
        return f"bond of size {k}"
    if max_bond is not None and max_bond > 0 and k > max_bond:
        return f"bond {k} above max_bond {max_bond}"
    if d is not None and k > d:
        return f"bond {k} above min(m, n) = {d}"
    return None


def c_rank(r, sref, cutoff, mode, max_bond, delta):
    lo, hi = _rule_k(sref, cutoff, mode, max_bond, delta)
    k = r.k
    if not (lo <= k <= hi):
        return (f"kept {k} values, the documented rule (cutoff={cutoff}, mode={mode}, max_bond={max_bond}) gives "
                f"{lo if lo == hi else (lo, hi)}; reference values {np.array2string(sref, precision=5)}")
    return None


def _finite(r):
    for a in (r.L, r.s, r.R):
        if a is not None and not np.all(np.isfinite(a)):
            return False
    return True


def c_approx(r, x, sref, form, ps, tol, rcond):
    """untruncated: the factors multiply back to x; truncated to k values: the result is (f times) a best rank-k
    approximation: ||x - A/f|| equals sqrt(sum of the discarded reference values squared) (Eckart-Young); for
    single-factor forms the factor spans an optimal subspace and its Gram matrix is that of x restricted to it.
    ps: admissible renormalisation powers (0 = none)."""
    if not _finite(r):
        return "non-finite entries in the factors"
    k = r.k
    nx = max(np.linalg.norm(x), 1e-300)
    Ek = float(np.sqrt(np.sum(sref[k:] ** 2)))
    out = None
    for p in ps:
        f = _renorm_factor(sref, k, p)
        out = _approx_one(r, x, form, f, Ek, nx, tol, rcond)
        if out is None:
            return None
    return out


def _approx_one(r, x, form, f, Ek, nx, tol, rcond):
    eff = r.eff
    if eff in ("full", "LR"):
        A = (r.L * r.s) @ r.R if eff == "full" else r.L @ r.R
        if A.shape != x.shape:
            return f"product shape {A.shape} != input shape {x.shape}"
        err = np.linalg.norm(x - A / f)
        if abs(err - Ek) > tol * nx:
            return (f"||x - LR/f|| = {err:.6e} but the optimal rank-{r.k} error is {Ek:.6e} "
                    f"(renorm factor {f:.6g}, ||x|| = {nx:.3e})")
        return None
    if eff == "Lonly":
        F = r.L
        P = _proj(F, rcond)
        err = np.linalg.norm(x - P @ x)
        if abs(err - Ek) > tol * nx:
            return f"column space of the left factor: ||x - P x|| = {err:.6e}, optimal rank-{r.k} error {Ek:.6e}"
        G = f * f * (P @ (x @ x.conj().T) @ P)
        M = F @ F.conj().T
        if form == "Us":
            lhs = M
        elif form == "Usq":
            lhs = M @ M
        else:
            return None
        dd = np.linalg.norm(lhs - G)
        if dd > tol * nx * nx * max(f * f, 1.0):
            return f"Gram matrix of the left factor ({form}) differs from that of the input by {dd:.3e} (||x||^2 = {nx * nx:.3e})"
        return None
    if eff == "Ronly":
        F = r.R.conj().T
        P = _proj(F, rcond)
        err = np.linalg.norm(x - x @ P)
        if abs(err - Ek) > tol * nx:
            return f"row space of the right factor: ||x - x P|| = {err:.6e}, optimal rank-{r.k} error {Ek:.6e}"
        G = f * f * (P @ (x.conj().T @ x) @ P)
        M = F @ F.conj().T
        if form == "sVH":
            lhs = M
        elif form == "sqVH":
            lhs = M @ M
        else:
            return None
        dd = np.linalg.norm(lhs - G)
        if dd > tol * nx * nx * max(f * f, 1.0):
            return f"Gram matrix of the right factor ({form}) differs from that of the input by {dd:.3e} (||x||^2 = {nx * nx:.3e})"
        return None
    return None


def c_values(r, sref, form, ps, delta):
    """kept values are f * (largest k reference values), f preserving sum s^p; the values sit where the form says"""
    if not _finite(r):
        return "non-finite entries in the factors"
    k = r.k
    s0 = sref[0] if len(sref) else 0.0
    out = None
    for p in ps:
        f = _renorm_factor(sref, k, p)
        want = np.zeros(k)
        kk = min(k, len(sref))
        want[:kk] = f * sref[:kk]
        out = _values_one(r, form, want, delta * max(s0, 1e-300) * max(f, 1.0), p)
        if out is None:
            return None
    return out


def _values_one(r, form, want, atol, p):
    def cmp(got, what, sq=False):
        got = np.sort(np.abs(got))[::-1]
        if sq:
            got = got ** 2
        if got.shape != want.shape:
            return f"{what}: {got.shape[0]} values, bond is {want.shape[0]}"
        if got.size and np.max(np.abs(got - want)) > atol:
            return (f"{what} = {np.array2string(got, precision=6)} but f * s_ref[:k] = "
                    f"{np.array2string(want, precision=6)} (renorm power {p})")
        return None

    eff = r.eff
    k = len(want)
    if eff == "s":
        return cmp(r.s, "returned values")
    if eff == "full":
        e = cmp(r.s, "returned values")
        if e:
            return e
        return cmp(_svals((r.L * r.s) @ r.R)[:k], "singular values of U s VH")
    if eff == "LR":
        e = cmp(_svals(r.L @ r.R)[:k], "singular values of the product")
        if e:
            return e
        if form == "left":
            return cmp(_svals(r.L)[:k], "singular values of the left factor (absorb left)")
        if form == "right":
            return cmp(_svals(r.R)[:k], "singular values of the right factor (absorb right)")
        if form == "both":
            e = cmp(_svals(r.L)[:k], "squared singular values of the left factor (absorb both)", sq=True)
            return e or cmp(_svals(r.R)[:k], "squared singular values of the right factor (absorb both)", sq=True)
        return None
    if eff == "Lonly":
        if form == "Us":
            return cmp(_svals(r.L)[:k], "singular values of the left factor")
        if form == "Usq":
            return cmp(_svals(r.L)[:k], "squared singular values of the left factor", sq=True)
        return None
    if eff == "Ronly":
        if form == "sVH":
            return cmp(_svals(r.R)[:k], "singular values of the right factor")
        if form == "sqVH":
            return cmp(_svals(r.R)[:k], "squared singular values of the right factor", sq=True)
        return None
    return None


def c_iso_form(r, form, tol):
    """array level: the factor the documentation of the requested form calls isometric is isometric"""
    if not _finite(r):
        return "non-finite entries in the factors"
    if form in ISO_L and r.L is not None:
        dl = _iso_defect(r.L)
        if dl > tol:
            return f"left factor of form {form} is documented isometric, defect {dl:.3e}"
    if form in ISO_R and r.R is not None:
        dr = _iso_defect(r.R)
        if dr > tol:
            return f"right factor of form {form} is documented isometric, defect {dr:.3e}"
    return None


def c_error(r, x, sref, ps, tol):
    """info['error'] = sqrt(sum of discarded reference values squared) = ||x - (product)/f||"""
    e = r.error
    if e is None:
        return "info['error'] not filled"
    e = np.asarray(e)
    if e.shape != () or not np.isfinite(e):
        return f"info['error'] = {e!r}"
    e = float(e)
    k = r.k
    nx = max(np.linalg.norm(x), 1e-300)
    Ek = float(np.sqrt(np.sum(sref[k:] ** 2)))
    if abs(e - Ek) > tol * nx:
        return f"info['error'] = {e:.6e}, sqrt(sum of the discarded values squared) = {Ek:.6e} (kept {k})"
    if r.eff in ("full", "LR") and _finite(r):
        A = (r.L * r.s) @ r.R if r.eff == "full" else r.L @ r.R
        best = None
        for p in ps:
            f = _renorm_factor(sref, k, p)
            dist = np.linalg.norm(x - A / f)
            if abs(e - dist) <= tol * nx:
                return None
            best = dist
        return f"info['error'] = {e:.6e}, actual Frobenius distance {best:.6e}"
    return None


class Lazy:
    def __init__(self, fn):
        self.fn = fn
        self.done = False
        self.val = None
        self.exc = None

    def get(self):
        if not self.done:
            self.done = True
            try:
                self.val = self.fn()
            except Exception as e:  # re-raised in whichever contract asks first
                self.exc = e
        if self.exc is not None:
            raise self.exc
        return self.val

    @property
    def failed(self):
        return self.done and self.exc is not None


def _powers(renorm, mode):
    """admissible renormalisation powers for a requested ``renorm``"""
    if renorm is True:
        if mode in MODE_POW:
            return (MODE_POW[mode],)
        return (0, 1, 2)  # 'automatic' power is not defined by the documentation for abs / rel: unconstrained
    if renorm in (None, False, 0, "default"):
        return (0,)
    return (int(renorm),)


def _clear(qd):
    # the option parsers are memoised; results must not depend on the calls made by earlier cases
    # (call-history dependence is the subject of the driver 'memoised-options')
    qd.parse_split_opts.cache_clear()


def _opts(cutoff, mode, max_bond, renorm):
    kw = {}
    if cutoff != "default":
        kw["cutoff"] = cutoff
    if mode != "default":
        kw["cutoff_mode"] = mode
    if max_bond != "default":
        kw["max_bond"] = max_bond
    if renorm != "default":
        kw["renorm"] = renorm
    return kw


def _eff_opts(entry_default_mode, cutoff, mode, max_bond, renorm):
    return (1e-10 if cutoff == "default" else cutoff, entry_default_mode if mode == "default" else mode,
            None if max_bond == "default" else max_bond, None if renorm == "default" else renorm)


def _split3(out, b=None):
    L, s, R = out
    if b is not None:
        L, s, R = (None if a is None else a[b] for a in (L, s, R))
    return L, s, R


# ----------------------------------------------------------------------------------------------
# driver 1: the method x form x cutoff-mode table, untruncated, array level
# ----------------------------------------------------------------------------------------------

TABLE_METHODS = ("svd", "svd:eig", "eig", "svd:rand", "eigh", "auto", "qr", "lq", "qr:cholesky", "lq:cholesky",
                 "cholesky", "lu", "polar_right", "polar_left")
SHAPES_Q = ((1, 1), (1, 4), (3, 1), (2, 2), (5, 5), (7, 3), (3, 8), (6, 5))
SHAPES_T = SHAPES_Q + ((4, 1), (2, 3), (3, 2), (12, 12), (12, 9), (9, 12), (4, 11))


def _shape_ok(method, form, m, n):
    if method in HERMITIAN or method == "cholesky":
        return m == n
    if method in ("qr:cholesky", "lq:cholesky"):
        # the Gram matrix must be positive definite: QR-like forms need m >= n, LQ-like forms m <= n
        return m >= n if form in ("right", "U", "sVH") else m <= n
    return True


def _kinds(method):
    if method in HERMITIAN:
        return ("psd", "indef", "psd-rankdef")
    if method == "cholesky":
        return ("pd",)
    if method in ("qr:cholesky", "lq:cholesky"):
        return ("spec", "degen")
    if method in GRAM_BASED or method == "svd:rand":
        # svd:rand: two power iterations without re-orthogonalisation lose directions with (s_i / s_0)^5 < eps
        return ("spec", "degen", "rankdef")
    return ("gauss", "spec", "degen", "rankdef", "decay")


def _herm_kind_ok(kind, form):
    # square-root forms of an eigen-decomposition need non-negative eigenvalues
    return not (kind == "indef" and form in ("both", "Usq", "sqVH"))


@driver("C05", "table-untruncated", chunks=6, timeout=300,
        bound="array_split with cutoff=0 (and None), no max_bond: 14 method names (svd, svd:eig, eig, svd:rand, eigh, auto, "
              "qr, lq, qr:cholesky, lq:cholesky, cholesky, lu, polar_right, polar_left) x 24 absorb spellings x 6 cutoff modes "
              "x 4 dtypes x shapes up to 12x12 incl. dimension 1, tall, wide x kinds {gaussian, prescribed spectrum cond<=7, "
              "degenerate values, rank-deficient, 2^-i decay}; 2-d input and batches of 1 or 2; Gram-based methods "
              "(svd:eig, qr:cholesky) only on prescribed spectra (cond<=7 or exactly rank-deficient); eigh on Hermitian "
              "(psd / indefinite / rank-deficient psd), cholesky on positive definite (cond<=4) input; qr:cholesky only "
              "in its well-defined orientation")
def table(cx):
    warnings.simplefilter("ignore")
    import quimb.tensor.decomp as qd

    rng = cx.rng
    shapes = SHAPES_Q if cx.quick else SHAPES_T
    spellings = ALL_SPELLINGS
    idx = 0
    nall = 0
    for method, absorb in itertools.product(TABLE_METHODS, spellings):
        form = _form(method, absorb)
        must = form in MUST_ACCEPT[method]
        for dtype, (m, n) in itertools.product(DTYPES, shapes):
            idx += 1
            if not _shape_ok(method, form, m, n):
                continue
            kinds = _kinds(method)
            # cycle the remaining dimensions deterministically (quick) or enumerate them (thorough)
            if cx.quick:
                combos = [(kinds[idx % len(kinds)], MODES[idx % 6], ("2d", "2d", "batch1", "batch2")[(idx // 7) % 4],
                           (0.0, None)[(idx // 3) % 2])]
            else:
                combos = [(kd, MODES[(idx + j) % 6], ("2d", "batch1", "2d", "batch2")[(idx + j) % 4], (0.0, None)[(idx + j // 2) % 2])
                          for j, kd in enumerate(kinds)]
                combos += [(kinds[idx % len(kinds)], md, "2d", 0.0) for md in MODES]
            for kind, mode, path, cutoff in combos:
                nall += 1
                if _costly(cx, method, dtype, path, nall):
                    continue
                if not cx.mine():
                    continue
                if cx.out_of_time():
                    cx.inconclusive.append("table-untruncated: time budget exhausted")
                    return
                scale = (1.0, 2.5, 0.2)[idx % 3]
                x, kind_eff = _input(rng, method, m, n, dtype, kind, scale)
                x2, _ = _input(rng, method, m, n, dtype, kind, scale)
                if method in HERMITIAN and not _herm_kind_ok(kind_eff, form):
                    continue
                if path != "2d" and method in ("polar_right", "polar_left", "lu"):
                    path = "2d"
                if method == "lu" and mode not in ("abs", "rel"):
                    lu_mode_ok = False
                else:
                    lu_mode_ok = True
                params = dict(method=method, absorb=absorb, form=form, dtype=dtype, shape=[m, n], kind=kind_eff, mode=mode,
                              path=path, cutoff=cutoff, scale=scale)
                xs = [x] if path != "batch2" else [x, x2]
                kw = dict(method=method, absorb=absorb, cutoff=cutoff, cutoff_mode=mode)
                if method == "svd:rand":
                    kw["max_bond"] = None
                    kw["seed"] = 1234

                def call(xs=xs, kw=kw, path=path):
                    _clear(qd)
                    arr = xs[0] if path == "2d" else np.stack(xs)
                    out = qd.array_split(arr, **kw)
                    if path == "2d":
                        return [Res(*_split3(out))]
                    return [Res(*_split3(out, b)) for b in range(len(xs))]

                _array_contracts(cx, "array_split", params, Lazy(call), xs, method, form, dtype, cutoff=cutoff, mode=mode,
                                 max_bond=None, renorm=None, allow_reject=(not must) or (not lu_mode_ok), dynamic=False)


def _array_contracts(cx, entry, params, lz, xs, method, form, dtype, cutoff, mode, max_bond, renorm, allow_reject, dynamic,
                     want_error=False):
    """evaluate all array-level contracts of one case; ``lz.get()`` returns a list of Res (one per batch element)"""
    tl = _tols(method, dtype)
    x64 = [_up(x) for x in xs]
    srefs = [_svals(x) for x in x64]
    ps = _powers(renorm, mode)
    m, n = x64[0].shape
    svdtype = method in SVD_TYPE

    def t_form():
        rs = lz.get()
        for b, r in enumerate(rs):
            e = c_form(r, form, m, n)
            if e:
                return f"[element {b}] {e}" if len(rs) > 1 else e
        return None

    st = cx.check(f"{entry}: an accepted (method, absorb) call returns finite factors in the requested form", params, t_form,
                  allow_reject=allow_reject)
    if st == "rejected" or lz.failed:
        return
    if st == "violation" and not all(_usable(r, m, n) for r in lz.get()):
        return  # non-finite / inconsistently shaped output is reported once; the numerical contracts are meaningless on it

    def each(fn):
        def thunk():
            rs = lz.get()
            for b, r in enumerate(rs):
                e = fn(r, x64[b], srefs[b])
                if e:
                    return f"[element {b}] {e}" if len(rs) > 1 else e
            return None
        return thunk

    cx.check(f"{entry}: bond size never zero, never above max_bond", params,
             each(lambda r, x, s: c_bond(r, max_bond, min(m, n) if svdtype else None)))
    if svdtype and method != "svd:rand":
        def t_rank():
            rs = lz.get()
            los, his = zip(*[_rule_k(s, cutoff, mode, max_bond, tl["val"]) for s in srefs])
            lo, hi = max(los), max(his)  # a batch keeps the largest rank needed by any element
            k = rs[0].k
            if not (lo <= k <= hi):
                return (f"kept {k} values, the documented rule (cutoff={cutoff}, mode={mode}, max_bond={max_bond}) gives "
                        f"{lo if lo == hi else (lo, hi)}; reference values {np.array2string(srefs[0], precision=5)}")
            return None

        cx.check(f"{entry}: number of kept values is the least satisfying the documented cutoff rule", params, t_rank)
    def tol_a(r, s):
        return 10 * tl["rec"] + 10 * tl["val"] * (r.k < len(s))

    if svdtype:
        # (a batch is truncated to a common rank: optimality is per element at that rank)
        cx.check(f"{entry}: factors contract to the input when untruncated, to a best rank-k approximation (Eckart-Young) "
                 "when truncated", params, each(lambda r, x, s: c_approx(r, x, s, form, ps, tol_a(r, s), tl["rec"])))
        cx.check(f"{entry}: kept singular values are the largest reference values, renormalised to preserve sum s^renorm, "
                 "absorbed where the form says", params, each(lambda r, x, s: c_values(r, s, form, ps, 10 * tl["val"])))
    else:
        cx.check(f"{entry}: factors contract to the input (no truncation possible)", params,
                 each(lambda r, x, s: c_approx(r, x, _pad(s, r.k), form, (0,), 10 * tl["rec"], tl["rec"])))
        if method in ("qr", "lq", "qr:cholesky", "lq:cholesky", "cholesky"):
            cx.check(f"{entry}: singular values of the non-isometric factor are those of the input", params,
                     each(lambda r, x, s: c_values(r, _pad(s, r.k), form, (0,), 10 * tl["val"])))
    cx.check(f"{entry}: the factor documented isometric for the requested form is isometric", params,
             each(lambda r, x, s: c_iso_form(r, form, tl["iso"] * 10)))
    if want_error:
        cx.check(f"{entry}: info['error'] equals the Frobenius distance to the (un-renormalised) truncated product", params,
                 each(lambda r, x, s: c_error(r, x, s, ps, tol_a(r, s))))


def _pad(s, k):
    """reference values padded with zeros to length >= k (methods whose bond may exceed min(m, n))"""
    if k is None or k <= len(s):
        return s
    return np.concatenate([s, np.zeros(k - len(s))])


def _costly(cx, method, dtype, path, counter):
    """svd:eig on single precision through the accelerated path currently fails inside numba type inference (a failed
    compilation per call, ~0.2 s): these cases are subsampled 1:3 (quick) / 1:12 (thorough), deterministically"""
    if method in ("svd:eig", "eig") and dtype in ("float32", "complex64") and path in ("api", "2d"):
        return counter % (3 if cx.quick else 12) != 0
    return False


def _selector(cx, salt):
    """selection generator shared by all chunks (so that every chunk enumerates the same grid)"""
    return np.random.default_rng([cx.seed, salt])


# ----------------------------------------------------------------------------------------------
# driver 2: truncation -- cutoff modes x cutoffs x max_bond x renorm, accelerated / generic / batched paths
# ----------------------------------------------------------------------------------------------

TRUNC_PATHS = (("svd", "api"), ("svd", "generic"), ("svd", "batch1"), ("svd", "batch2"),
               ("svd:eig", "api"), ("svd:eig", "generic"), ("svd:eig", "batch1"), ("svd:eig", "batch2"),
               ("eig", "api"), ("eigh", "api"), ("eigh", "generic"), ("eigh", "batch1"), ("auto", "api"), ("auto", "batch2"))
CUTOFFS = (0.0, 1e-10, 0.05, 0.3, 0.9)
MAX_BONDS = (None, 1, 2, 5)
RENORMS = (0, 1, 2, True)
TRUNC_SHAPES = ((1, 1), (1, 4), (3, 1), (2, 2), (4, 4), (7, 3), (3, 8), (6, 5), (8, 8), (12, 12), (12, 9), (9, 12))


def _generic_call(qd, method, x, form, cutoff, mode, max_bond, renorm, info):
    fn = qd._SPLIT_FNS[{"eig": "svd:eig", "auto": "svd"}.get(method, method)]._default_fn
    kw = dict(cutoff=-1.0 if cutoff is None else cutoff, cutoff_mode=MODE_CODE[mode],
              max_bond=-1 if max_bond is None else max_bond, absorb=getattr(qd, CODE_NAME[form]), renorm=int(renorm or 0))
    if info is not None:
        kw["info"] = info
    return fn(x, **kw)


def _err_b(info, b, nb):
    if info is None or "error" not in info or info["error"] is None:
        return None
    e = np.asarray(info["error"])
    if e.ndim == 0:
        return e
    if e.shape != (nb,):
        return e
    return e[b]


@driver("C05", "truncation", chunks=8, timeout=400,
        bound="array_split and the generic _default_fn drivers of svd / svd:eig (and alias eig) / eigh / auto: 6 cutoff modes "
              "(+ default) x cutoffs {0,1e-10,0.05,0.3,0.9,None,default} x max_bond {None,1,2,5,default} x renorm "
              "{0,1,2,True,default} x paths {accelerated 2-d, generic _default_fn, batch of 1, batch of 2} x 12 absorb forms "
              "(24 spellings) x 4 dtypes x shapes up to 12x12 (dimension 1, tall, wide, square) x kinds {gaussian, "
              "prescribed spectrum, degenerate, rank-deficient, decaying}; info['error'] for svd / svd:eig; svd:eig only on "
              "prescribed spectra (cond<=7 or exactly rank-deficient); eigh on Hermitian input (square-root forms on psd "
              "input only); values within 1e-10 (double) / 1e-4 (single) / 1e-6 resp. 5e-3 (Gram-based) of a threshold are "
              "unconstrained")
def truncation(cx):
    warnings.simplefilter("ignore")
    import quimb.tensor.decomp as qd

    rng = cx.rng
    sel = _selector(cx, 502)
    nsamp = 1 if cx.quick else 36
    grid = list(itertools.product(TRUNC_PATHS, MODES, CUTOFFS, MAX_BONDS, RENORMS))
    # cases using the defaults of the signature / None
    extra = []
    for (method, path) in TRUNC_PATHS:
        if path == "generic":
            continue
        for j in range(12 if cx.quick else 60):
            extra.append(((method, path), ("default", "rel", "rsum2", "sum1")[j % 4], ("default", None, 0.3, "default")[(j // 4) % 4],
                          ("default", 2, None)[j % 3], ("default", True, None, 2)[(j // 2) % 4]))
    for (method, path), mode, cutoff, max_bond, renorm in grid + extra:
        for j in range(nsamp):
            # selection of the remaining dimensions: drawn for every enumerated case (chunk independent)
            a_i, d_i, s_i, k_i, sc_i, inf_i = (int(v) for v in sel.integers(0, 1 << 30, size=6))
            if _costly(cx, method, DTYPES[d_i % 4], path, a_i):
                continue
            if not cx.mine():
                continue
            if cx.out_of_time():
                cx.inconclusive.append("truncation: time budget exhausted")
                return
            if path == "generic" and renorm is True:
                continue
            absorb = ALL_SPELLINGS[a_i % len(ALL_SPELLINGS)] if (j % 2) else CANON_SPELLINGS[a_i % len(CANON_SPELLINGS)]
            form = _form(method, absorb)
            dtype = DTYPES[d_i % 4]
            m, n = TRUNC_SHAPES[s_i % len(TRUNC_SHAPES)]
            if method in HERMITIAN:
                n = m
            kinds = _kinds(method)
            kind = kinds[k_i % len(kinds)]
            scale = (1.0, 2.5, 0.2)[sc_i % 3]
            x, kind_eff = _input(rng, method, m, n, dtype, kind, scale)
            x2, _ = _input(rng, method, m, n, dtype, kind, scale)
            if method in HERMITIAN and not _herm_kind_ok(kind_eff, form):
                continue
            with_info = method in ("svd", "svd:eig", "eig") and (inf_i % 3 != 0)
            info_kind = ("empty", "key")[inf_i % 2] if with_info else None
            params = dict(method=method, path=path, absorb=absorb, form=form, mode=mode, cutoff=cutoff, max_bond=max_bond,
                          renorm=renorm, dtype=dtype, shape=[m, n], kind=kind_eff, scale=scale, info=info_kind)
            ecut, emode, emb, ern = _eff_opts("rsum2", cutoff, mode, max_bond, renorm)
            xs = [x, x2] if path == "batch2" else [x]

            def mkinfo(info_kind=info_kind):
                return None if info_kind is None else ({} if info_kind == "empty" else {"error": None})

            def call(xs=xs, path=path, method=method, absorb=absorb, form=form, cutoff=cutoff, mode=mode, max_bond=max_bond,
                     renorm=renorm, ecut=ecut, emode=emode, emb=emb, ern=ern):
                _clear(qd)
                info = mkinfo()
                if path == "generic":
                    out = _generic_call(qd, method, xs[0], form, ecut, emode, emb, ern, info)
                    return [Res(*_split3(out), error=_err_b(info, 0, 1))]
                kw = dict(method=method, absorb=absorb, **_opts(cutoff, mode, max_bond, renorm))
                if info is not None:
                    kw["info"] = info
                if path == "api":
                    out = qd.array_split(xs[0], **kw)
                    return [Res(*_split3(out), error=_err_b(info, 0, 1))]
                out = qd.array_split(np.stack(xs), **kw)
                return [Res(*_split3(out, b), error=_err_b(info, b, len(xs))) for b in range(len(xs))]

            entry = "array_split" if path != "generic" else "generic split driver (_default_fn)"
            _array_contracts(cx, entry, params, Lazy(call), xs, method, form, dtype, cutoff=ecut, mode=emode, max_bond=emb,
                             renorm=ern, allow_reject=False, dynamic=True, want_error=with_info)

            # relational: the accelerated and the generic implementation of the same method agree
            if path == "api" and method in ("svd", "svd:eig", "eigh") and not (ern is True and emode not in MODE_POW):
                rn = MODE_POW[emode] if ern is True else ern

                def t_rel(x=x, method=method, absorb=absorb, form=form, cutoff=cutoff, mode=mode, max_bond=max_bond, renorm=renorm,
                          ecut=ecut, emode=emode, emb=emb, rn=rn, dtype=dtype):
                    _clear(qd)
                    ia, ig = mkinfo(), mkinfo()
                    kw = dict(method=method, absorb=absorb, **_opts(cutoff, mode, max_bond, renorm))
                    if ia is not None:
                        kw["info"] = ia
                    ra = Res(*_split3(qd.array_split(x, **kw)), error=_err_b(ia, 0, 1))
                    rg = Res(*_split3(_generic_call(qd, method, x, form, ecut, emode, emb, rn, ig)), error=_err_b(ig, 0, 1))
                    tl = _tols(method, dtype)
                    return _agree(ra, rg, _up(x), tl, _rule_k(_svals(_up(x)), ecut, emode, emb, tl["val"]), form)

                cx.check("accelerated (numba) and generic implementation of the same split driver agree on rank, kept "
                         "values, error and product", dict(params, path="api-vs-generic"), t_rel)


@driver("C05", "svd-eig-shortcuts", chunks=2, timeout=300,
        bound="svd:eig without dynamic truncation (cutoff 0 / None, renorm 0, no info: the one-step route with its per-form "
              "shortcuts), max_bond in {None,1,2,3}: accelerated and generic implementation x 11 forms x 4 dtypes x tall / wide / "
              "square shapes up to 7x7 on prescribed spectra (cond<=7, degenerate, rank-deficient)")
def svd_eig_shortcuts(cx):
    warnings.simplefilter("ignore")
    import quimb.tensor.decomp as qd

    rng = cx.rng
    idx = 0
    shapes = ((5, 3), (3, 5), (4, 4), (7, 2), (2, 6), (1, 3), (3, 1), (7, 7))
    for path, absorb, dtype, (m, n), max_bond, cutoff in itertools.product(("api", "generic"), CANON_SPELLINGS[1:], DTYPES, shapes,
                                                                         (None, 1, 2, 3), (0.0, None)):
        idx += 1
        if cx.quick and (idx % 3):
            continue
        if _costly(cx, "svd:eig", dtype, path, idx // 3):
            continue
        if not cx.mine():
            continue
        form = FORM[absorb]
        kind = _kinds("svd:eig")[(idx // 7) % 3]
        x = _matrix(rng, m, n, dtype, kind, (1.0, 2.5)[(idx // 5) % 2])
        params = dict(method="svd:eig", path=path, absorb=absorb, form=form, dtype=dtype, shape=[m, n], kind=kind, max_bond=max_bond,
                      cutoff=cutoff, mode="rsum2", renorm=0, info=None)

        def call(x=x, path=path, absorb=absorb, form=form, max_bond=max_bond, cutoff=cutoff):
            _clear(qd)
            if path == "generic":
                return [Res(*_split3(_generic_call(qd, "svd:eig", x, form, cutoff, "rsum2", max_bond, 0, None)))]
            return [Res(*_split3(qd.array_split(x, method="svd:eig", absorb=absorb, max_bond=max_bond, cutoff=cutoff)))]

        entry = "array_split" if path == "api" else "generic split driver (_default_fn)"
        _array_contracts(cx, entry, params, Lazy(call), [x], "svd:eig", form, dtype, cutoff=cutoff, mode="rsum2", max_bond=max_bond,
                         renorm=0, allow_reject=False, dynamic=False)


def _agree(ra, rg, x, tl, interval, form=None):
    if ra.eff != rg.eff:
        return f"returned parts differ: {ra.eff} vs {rg.eff}"
    if ra.k != rg.k:
        lo, hi = interval
        if lo <= ra.k <= hi and lo <= rg.k <= hi:
            return None  # a tie of the cutoff rule (values at the threshold within rounding): unconstrained
        return f"kept rank differs: accelerated {ra.k}, generic {rg.k}"
    fa, fg = _finite(ra), _finite(rg)
    if not fa and not fg:
        return None  # reported by the contract on finite factors
    if fa != fg:
        return f"non-finite entries in the output of one implementation only (accelerated finite: {fa}, generic finite: {fg})"
    sref = _svals(x)
    nx = max(np.linalg.norm(x), 1e-300)
    s0 = sref[0] if len(sref) else 0.0
    k = ra.k
    vt = 20 * tl["val"] * max(s0, 1e-300)

    def vals(r):
        if r.eff == "full":
            return np.sort(np.abs(r.s))[::-1]
        if r.eff == "s":
            return np.sort(np.abs(r.s))[::-1]
        if r.eff == "LR":
            return _svals(r.L @ r.R)[:k]
        v = _svals(r.L if r.eff == "Lonly" else r.R)[:k]
        # square-root forms carry sqrt(s): compare s (the fourth root of Gram-matrix rounding noise is not small)
        return v ** 2 if form in ("Usq", "sqVH") else v

    va, vg = vals(ra), vals(rg)
    if va.shape != vg.shape or (va.size and np.max(np.abs(va - vg)) > vt * max(1.0, np.max(va) / max(s0, 1e-300))):
        return f"kept values differ: accelerated {np.array2string(va, precision=6)}, generic {np.array2string(vg, precision=6)}"
    if (ra.error is None) != (rg.error is None):
        return f"info['error'] filled by one implementation only: {ra.error} vs {rg.error}"
    if ra.error is not None and abs(float(ra.error) - float(rg.error)) > 20 * (tl["rec"] + tl["val"]) * nx:
        return f"info['error'] differs: accelerated {float(ra.error):.6e}, generic {float(rg.error):.6e}"
    gap_ok = k >= len(sref) or (sref[k - 1] - sref[k]) > 0.05 * s0
    if gap_ok and ra.eff in ("full", "LR"):
        A = (ra.L * ra.s) @ ra.R if ra.eff == "full" else ra.L @ ra.R
        G = (rg.L * rg.s) @ rg.R if rg.eff == "full" else rg.L @ rg.R
        dd = np.linalg.norm(A - G)
        if dd > 20 * (tl["rec"] + tl["val"]) * nx * max(1.0, np.max(va, initial=0.0) / max(s0, 1e-300)) / max(0.05, 0.0 if k >= len(sref) else (sref[k - 1] - sref[k]) / s0):
            return f"products differ by {dd:.3e} (||x|| = {nx:.3e})"
    return None


# ----------------------------------------------------------------------------------------------
# driver 3: randomised SVD (static truncation only), LU, iterative drivers
# ----------------------------------------------------------------------------------------------


@driver("C05", "svd-rand-and-lu", chunks=2, timeout=300,
        bound="svd:rand (static truncation only, as documented): max_bond {None,1,2,5} x 12 forms x 4 dtypes x shapes up to "
              "12x12 (sketch spans the whole space: exact) and exactly rank-2 inputs of 16x14 / 14x18 with max_bond {2,3} "
              "(sketch regime, exact recovery); lu: cutoff modes abs / rel x cutoffs {0,1e-10,0.05,0.3,0.9} x 4 dtypes: "
              "bond never zero, exact when cutoff=0")
def svd_rand_lu(cx):
    warnings.simplefilter("ignore")
    import quimb.tensor.decomp as qd

    rng = cx.rng
    shapes = ((1, 1), (1, 4), (3, 1), (4, 4), (7, 3), (3, 8), (12, 9)) if cx.quick else TRUNC_SHAPES
    idx = 0
    for absorb, dtype, (m, n), max_bond in itertools.product(CANON_SPELLINGS, DTYPES, shapes, MAX_BONDS):
        idx += 1
        if not cx.mine():
            continue
        form = _form("svd:rand", absorb)
        kind = _kinds("svd:rand")[idx % 3]
        x = _matrix(rng, m, n, dtype, kind, (1.0, 2.5)[idx % 2])
        params = dict(method="svd:rand", absorb=absorb, form=form, dtype=dtype, shape=[m, n], kind=kind, max_bond=max_bond,
                      cutoff=0.0, regime="full-sketch")

        def call(x=x, absorb=absorb, max_bond=max_bond, idx=idx):
            _clear(qd)
            return [Res(*_split3(qd.array_split(x, method="svd:rand", absorb=absorb, max_bond=max_bond, cutoff=0.0, seed=idx)))]

        _array_contracts(cx, "array_split", params, Lazy(call), [x], "svd:rand", form, dtype, cutoff=0.0, mode="rsum2",
                         max_bond=max_bond, renorm=None, allow_reject=False, dynamic=False)
    for absorb, dtype, (m, n), max_bond in itertools.product(CANON_SPELLINGS, DTYPES, ((16, 14), (14, 18)), (2, 3)):
        idx += 1
        if not cx.mine():
            continue
        form = _form("svd:rand", absorb)
        cplx = dtype.startswith("complex")
        s = np.array([1.0, 0.6])
        x = ((_unitary(rng, m, cplx)[:, :2] * s) @ _unitary(rng, n, cplx)[:, :2].conj().T).astype(dtype)
        params = dict(method="svd:rand", absorb=absorb, form=form, dtype=dtype, shape=[m, n], kind="rank2", max_bond=max_bond,
                      cutoff=0.0, regime="sketch")

        def call(x=x, absorb=absorb, max_bond=max_bond, idx=idx):
            _clear(qd)
            return [Res(*_split3(qd.array_split(x, method="svd:rand", absorb=absorb, max_bond=max_bond, cutoff=0.0, seed=idx)))]

        _array_contracts(cx, "array_split", params, Lazy(call), [x], "svd:rand", form, dtype, cutoff=0.0, mode="rsum2",
                         max_bond=max_bond, renorm=None, allow_reject=False, dynamic=False)
    # LU: truncation by row / column weights; only 'never zero' and exactness without cutoff are in the statement
    for dtype, (m, n), mode, cutoff in itertools.product(DTYPES, shapes, ("abs", "rel"), CUTOFFS):
        idx += 1
        if not cx.mine():
            continue
        kind = ("gauss", "spec", "rankdef")[idx % 3]
        x = _matrix(rng, m, n, dtype, kind, 1.0)
        params = dict(method="lu", absorb="both", form="both", dtype=dtype, shape=[m, n], kind=kind, mode=mode, cutoff=cutoff)
        lz = Lazy(lambda x=x, mode=mode, cutoff=cutoff: (_clear(qd), [Res(*qd.array_split(x, method="lu", absorb="both",
                                                                                          cutoff=cutoff, cutoff_mode=mode))])[1])
        st = cx.check("array_split(method='lu'): returns two finite factors", params,
                      lambda lz=lz, m=m, n=n: c_form(lz.get()[0], "both", m, n))
        if lz.failed:
            continue
        cx.check("array_split(method='lu'): bond size never zero", params, lambda lz=lz: c_bond(lz.get()[0], None))
        if cutoff == 0.0:
            tl = _tols("lu", dtype)
            cx.check("array_split(method='lu'): factors contract to the input when cutoff=0", params,
                     lambda lz=lz, x=x, tl=tl: c_approx(lz.get()[0], _up(x), _pad(_svals(_up(x)), lz.get()[0].k), "both", (0,),
                                                        10 * tl["rec"], tl["rec"]))


ITER_METHODS = ("svds", "isvd", "rsvd", "eigsh")


@driver("C05", "iterative-methods", chunks=4, timeout=400,
        bound="svds / isvd / rsvd / eigsh through array_split on double precision 12x12, 12x9, 20x16, 24x24 inputs "
              "(Hermitian psd for eigsh): no truncation requested (cutoff=0, no max_bond) and default cutoff on full-rank "
              "input -> exact; static truncation max_bond in {1,2,5} with cutoff=0: bond <= cap, Eckart-Young optimal for the "
              "Krylov methods (svds, eigsh) on prescribed spectra, exact for every method when max_bond >= rank; dynamic "
              "truncation only in mode 'rel' on spectra with a gap at the threshold; renorm in {0,2}; tolerance 1e-6. Other "
              "cutoff modes of the iterative drivers (which estimate the rank relative to the largest value) are not covered")
def iterative(cx):
    warnings.simplefilter("ignore")
    import quimb.tensor.decomp as qd

    rng = cx.rng
    shapes = ((12, 12), (20, 16)) if cx.quick else ((12, 12), (12, 9), (20, 16), (24, 24), (9, 14))
    forms = ("both", None, "left", "right") if cx.quick else (None, "both", "left", "right", "U", "VH", "Us", "sVH", "s", "lsqrt", "rsqrt")
    scen = [("none", 0.0, None, "rsum2"), ("default", "default", None, "default"), ("static", 0.0, 1, "rsum2"),
            ("static", 0.0, 2, "rsum2"), ("static", 0.0, 5, "rel"), ("lowrank", 0.0, 5, "rsum2"), ("lowrank", 1e-10, None, "rel"),
            ("gap", 0.05, None, "rel"), ("gap", 0.05, 5, "rel")]
    idx = 0
    for method, (m, n), absorb, (sc, cutoff, max_bond, mode), dtype, renorm in itertools.product(
            ITER_METHODS, shapes, forms, scen, ("float64", "complex128"), (0, 2)):
        idx += 1
        if not cx.mine():
            continue
        if cx.out_of_time():
            cx.inconclusive.append("iterative-methods: time budget exhausted")
            return
        if method == "eigsh":
            n = m
        if renorm and sc in ("none", "default"):
            continue
        form = _form(method, absorb)
        cplx = dtype.startswith("complex")
        d = min(m, n)
        if sc in ("none", "default", "static"):
            s = _spectrum(rng, d, "spec")
        elif sc == "lowrank":
            s = np.zeros(d)
            s[:3] = (1.0, 0.7, 0.4)
        else:  # gap: three values well above, the rest well below 0.05 * s0
            s = np.full(d, 1e-3) * rng.uniform(0.5, 1.0, size=d)
            s[:3] = (1.0, 0.7, 0.4)
        s = np.sort(s)[::-1]
        if method == "eigsh":
            u = _unitary(rng, m, cplx)
            x = (u * s) @ u.conj().T
            x = ((x + x.conj().T) / 2).astype(dtype)
        else:
            x = ((_unitary(rng, m, cplx)[:, :d] * s) @ _unitary(rng, n, cplx)[:, :d].conj().T).astype(dtype)
        x = np.ascontiguousarray(x)
        params = dict(method=method, absorb=absorb, form=form, dtype=dtype, shape=[m, n], scenario=sc, cutoff=cutoff,
                      max_bond=max_bond, mode=mode, renorm=renorm)
        ecut, emode, emb, ern = _eff_opts("rsum2", cutoff, mode, max_bond, renorm)

        def call(x=x, method=method, absorb=absorb, cutoff=cutoff, mode=mode, max_bond=max_bond, renorm=renorm):
            _clear(qd)
            np.random.seed(12345)  # scipy's ARPACK start vector
            return [Res(*_split3(qd.array_split(x, method=method, absorb=absorb, **_opts(cutoff, mode, max_bond, renorm))))]

        lz = Lazy(call)
        tl = _tols(method, dtype)
        x64, sref = _up(x), _svals(_up(x))
        st = cx.check("array_split (iterative driver): returns finite factors in the requested form", params,
                      lambda lz=lz, form=form, m=m, n=n: c_form(lz.get()[0], form, m, n))
        if lz.failed or (st == "violation" and not _usable(lz.get()[0], m, n)):
            continue
        cx.check("array_split (iterative driver): bond size never zero, never above max_bond", params,
                 lambda lz=lz, emb=emb, d=d: c_bond(lz.get()[0], emb, d))
        if sc != "static":
            cx.check("array_split (iterative driver): number of kept values is the least satisfying the documented cutoff rule",
                     params, lambda lz=lz, sref=sref, ecut=ecut, emode=emode, emb=emb: c_rank(lz.get()[0], sref, ecut, emode, emb, 1e-5))
        else:
            cx.check("array_split (iterative driver): number of kept values is the least satisfying the documented cutoff rule",
                     params, lambda lz=lz, emb=emb, d=d: None if lz.get()[0].k == min(d, emb) else f"kept {lz.get()[0].k}, expected {min(d, emb)}")
        ps = _powers(ern, emode)
        # randomised drivers are only near-optimal when they truncate inside the spectrum: optimality is claimed for the
        # Krylov drivers, for rsvd (two power iterations) across a gap of 400, and wherever the kept rank covers the input
        if (sc != "static" or method in ("svds", "eigsh")) and not (method == "isvd" and sc == "gap"):
            cx.check("array_split (iterative driver): factors contract to the input when untruncated, to a best rank-k "
                     "approximation (Eckart-Young) when truncated", params,
                     lambda lz=lz, x64=x64, sref=sref, form=form, ps=ps, tl=tl: c_approx(lz.get()[0], x64, sref, form, ps, 10 * tl["rec"], 1e-4))
            cx.check("array_split (iterative driver): kept singular values are the largest reference values, renormalised "
                     "to preserve sum s^renorm", params,
                     lambda lz=lz, sref=sref, form=form, ps=ps, tl=tl: c_values(lz.get()[0], sref, form, ps, 10 * tl["val"]))
        cx.check("array_split (iterative driver): the factor documented isometric for the requested form is isometric", params,
                 lambda lz=lz, form=form, tl=tl: c_iso_form(lz.get()[0], form, 10 * tl["iso"]))


# ----------------------------------------------------------------------------------------------
# driver 4: labelled entry points -- Tensor.split / tensor_split / TensorNetwork.split
# ----------------------------------------------------------------------------------------------

LABEL_METHODS = ("svd", "svd", "svd:eig", "eig", "svd:rand", "eigh", "auto", "auto", "qr", "lq", "qr:cholesky", "lq:cholesky",
                 "cholesky", "lu", "polar_right", "polar_left")
DIMSETS = ((1,), (2,), (3,), (4,), (6,), (1, 2), (2, 2), (2, 3), (3, 1), (1, 1), (2, 1, 2), (3, 2), (2, 2, 2), (5,), ())


def _mat_of(T_data, T_inds, linds, rinds):
    perm = [T_inds.index(i) for i in (*linds, *rinds)]
    a = np.transpose(T_data, perm)
    m = int(np.prod([a.shape[i] for i in range(len(linds))], dtype=int))
    n = int(np.prod([a.shape[i] for i in range(len(linds), a.ndim)], dtype=int))
    return a.reshape(m, n)


def _fused(t_data, t_inds, flagged):
    perm = [t_inds.index(i) for i in flagged] + [j for j, i in enumerate(t_inds) if i not in flagged]
    a = np.transpose(t_data, perm)
    m = int(np.prod(a.shape[:len(flagged)], dtype=int))
    return a.reshape(m, -1)


@driver("C05", "labelled-entry-points", chunks=6, timeout=400,
        bound="Tensor.split / tensor_split on tensors with 0..3 labels per side (dimensions 1..6, fused sides up to 8), labels "
              "permuted at random (non-contiguous, reversed), empty sides, left_inds / right_inds / both given; 16 method "
              "names x 24 absorb spellings x get in {None, tensors, arrays} x matrix_svals x bond_ind / ltags / rtags / stags "
              "x options {untruncated, default cutoff, cutoff 0.3 in every mode, max_bond 1..2, renorm, info}; 4 dtypes; "
              "TensorNetwork.split on two- and three-tensor networks without stored exponent; get='values' for svd, svd:eig "
              "and the default method")
def labelled(cx):
    warnings.simplefilter("ignore")
    import quimb.tensor as qtn
    import quimb.tensor.decomp as qd

    rng = cx.rng
    sel = _selector(cx, 504)
    ncase = 2600 if cx.quick else 90000
    for i in range(ncase):
        draws = [int(v) for v in sel.integers(0, 1 << 30, size=16)]
        if _costly(cx, LABEL_METHODS[draws[0] % len(LABEL_METHODS)], DTYPES[draws[2] % 4], "api", draws[1]):
            continue
        if not cx.mine():
            continue
        if cx.out_of_time():
            cx.inconclusive.append("labelled-entry-points: time budget exhausted")
            return
        method = LABEL_METHODS[draws[0] % len(LABEL_METHODS)]
        absorb = ALL_SPELLINGS[draws[1] % len(ALL_SPELLINGS)] if draws[1] % 3 else CANON_SPELLINGS[(draws[1] // 3) % len(CANON_SPELLINGS)]
        form = _form(method, absorb)
        dtype = DTYPES[draws[2] % 4]
        ldims = DIMSETS[draws[3] % len(DIMSETS)]
        rdims = DIMSETS[draws[4] % len(DIMSETS)]
        m = int(np.prod(ldims, dtype=int))
        n = int(np.prod(rdims, dtype=int))
        if method in HERMITIAN or method == "cholesky":
            rdims = tuple(reversed(ldims)) if draws[4] % 2 else ldims
            n = m
        if not _shape_ok(method, form, m, n):
            ldims, rdims, m, n = rdims, ldims, n, m
        kinds = _kinds(method)
        kind = kinds[draws[5] % len(kinds)]
        x, kind_eff = _input(rng, method, m, n, dtype, kind, (1.0, 2.5, 0.2)[draws[6] % 3])
        if method in HERMITIAN and not _herm_kind_ok(kind_eff, form):
            continue
        # options
        oi = draws[7] % 8
        mode = ("default",) + MODES
        if oi == 0:
            cutoff, cmode, max_bond, renorm = 0.0, "default", "default", "default"
        elif oi == 1:
            cutoff, cmode, max_bond, renorm = "default", "default", "default", "default"
        elif oi == 2:
            cutoff, cmode, max_bond, renorm = 0.3, mode[draws[8] % 7], "default", (0, 1, 2, True)[draws[9] % 4]
        elif oi == 3:
            cutoff, cmode, max_bond, renorm = 0.0, "default", 1 + draws[8] % 2, "default"
        elif oi == 4:
            cutoff, cmode, max_bond, renorm = 0.05, mode[draws[8] % 7], 2, (0, True)[draws[9] % 2]
        elif oi == 5:
            cutoff, cmode, max_bond, renorm = None, "default", None, None
        else:
            cutoff, cmode, max_bond, renorm = 0.0, MODES[draws[8] % 6], None, 0
        truncating = method in ("svd", "svd:eig", "eig", "eigh", "auto")
        if not truncating:
            if method == "svd:rand":
                cutoff, cmode, renorm = 0.0, "default", "default"
            else:
                # methods without truncation: the default cutoff is passed by tensor_split and is documented to be ignored
                max_bond, renorm = "default", "default"
                if method == "lu":
                    cutoff, cmode = 0.0, ("abs", "rel")[draws[8] % 2]
                elif oi not in (0, 1, 5):
                    cutoff = 0.0
        ecut, emode, emb, ern = _eff_opts("rel", cutoff, cmode, max_bond, renorm)
        if not truncating and method != "svd:rand":
            ecut, emb, ern = 0.0, None, None
        # the tensor: labels in group order, then permuted
        labels = ["a", "b", "c", "d", "e", "f"]
        linds = tuple(labels[:len(ldims)])
        rinds = tuple(labels[len(ldims):len(ldims) + len(rdims)])
        inds0 = linds + rinds
        perm = list(rng.permutation(len(inds0))) if len(inds0) else []
        if not ldims and not rdims:
            continue  # a tensor without labels has no bipartition
        data0 = np.asarray(x).reshape((*ldims, *rdims))
        data = np.ascontiguousarray(np.transpose(data0, perm)) if perm else data0
        inds = tuple(inds0[p] for p in perm)
        tags = ("T0", "X")
        how = draws[10] % 4  # how the bipartition is given
        if method in HERMITIAN or method == "cholesky" or method in ("qr:cholesky", "lq:cholesky"):
            how = 1 + how % 2 if len(rinds) else 1
        r_worked = tuple(ix for ix in inds if ix not in linds)
        if how == 0:  # left only: the right labels are worked out in the order of the tensor
            given = dict(left_inds=list(linds))
            r_eff = r_worked
        elif how == 1:
            given = dict(left_inds=list(linds), right_inds=list(rinds))
            r_eff = rinds
        elif how == 2:
            l_worked = tuple(ix for ix in inds if ix not in rinds)
            given = dict(left_inds=None, right_inds=list(rinds))
            if method in HERMITIAN or method == "cholesky" or method in ("qr:cholesky", "lq:cholesky"):
                given = dict(left_inds=list(linds), right_inds=list(rinds))
                l_worked = linds
            r_eff = rinds
            linds = l_worked
        else:
            given = dict(left_inds=linds[0] if len(linds) == 1 else list(linds))
            r_eff = r_worked
        get = (None, "tensors", "arrays", None)[draws[11] % 4]
        msv = bool(draws[12] % 3 == 0) and form == "full"
        bond = None
        if draws[13] % 2:
            bond = ("bl", "br") if msv else "bnd"
        ltags, rtags, stags = (("L",), ("R", "RR"), "S") if draws[14] % 2 else (None, None, None)
        entry = ("Tensor.split", "tensor_split")[draws[15] % 2]
        with_info = method in ("svd", "svd:eig", "eig") and draws[15] % 3 == 0
        params = dict(entry=entry, method=method, path="api", absorb=absorb, form=form, dtype=dtype, ldims=list(ldims), rdims=list(rdims),
                      kind=kind_eff, cutoff=cutoff, mode=cmode, max_bond=max_bond, renorm=renorm, given=how, get=get,
                      matrix_svals=msv, bond=bond is not None, i=i, info=with_info)
        xm = _mat_of(data, inds, linds, r_eff)
        must = form in MUST_ACCEPT[method]
        single = sum(PRESENT[form]) == 1 or form == "s"

        def call(data=data, inds=inds, given=given, method=method, absorb=absorb, cutoff=cutoff, cmode=cmode, max_bond=max_bond,
                 renorm=renorm, get=get, msv=msv, bond=bond, ltags=ltags, rtags=rtags, stags=stags, entry=entry, linds=linds,
                 r_eff=r_eff, with_info=with_info, xm=xm, form=form):
            _clear(qd)
            T = qtn.Tensor(data.copy(), inds=inds, tags=tags)
            kw = dict(method=method, absorb=absorb, **_opts(cutoff, cmode, max_bond, renorm))
            if method == "svd:rand":
                kw["seed"] = 99
            kw.update(given)
            if get is not None:
                kw["get"] = get
            if msv:
                kw["matrix_svals"] = True
            if bond is not None:
                kw["bond_ind"] = bond
            if ltags is not None:
                kw.update(ltags=ltags, rtags=rtags, stags=stags)
            info = {} if with_info else None
            if info is not None:
                kw["info"] = info
            li = kw.pop("left_inds")
            out = T.split(li, **kw) if entry == "Tensor.split" else qtn.tensor_split(T, li, **kw)
            problems = []
            if not np.array_equal(T.data, data) or T.inds != inds:
                problems.append("the input tensor was modified")
            size = dict(zip(inds, data.shape))
            return _normalise_labelled(out, get, form, absorb, msv, bond, linds, r_eff, xm.shape, tags, ltags, rtags, stags, inds,
                                       info, problems, lshape=[size[ix] for ix in linds], rshape=[size[ix] for ix in r_eff])

        lz = Lazy(call)
        st = cx.check(f"{entry}: accepted call returns factors over the requested labels joined by one new bond (labels, "
                      "shapes, tags, bond name)", params, lambda lz=lz: "; ".join(lz.get()[1]) or None,
                      allow_reject=(not must) or (single and get is None))
        if st == "rejected" or lz.failed:
            continue
        lz_res = Lazy(lambda lz=lz: [lz.get()[0]])
        _array_contracts(cx, entry, params, lz_res, [xm], method, form, dtype, cutoff=ecut, mode=emode, max_bond=emb, renorm=ern,
                         allow_reject=False, dynamic=True, want_error=with_info)
        if get != "arrays":
            tl = _tols(method, dtype)
            cx.check(f"{entry}: every returned tensor flagged isometric (left_inds) is isometric over the flagged labels", params,
                     lambda lz=lz, tl=tl: _flag_check(lz.get()[2], 10 * tl["iso"]))
            if method in ("svd", "svd:eig", "eig", "svd:rand", "auto", "qr", "lq", "eigh"):
                cx.check(f"{entry}: the factor documented isometric for the form carries the left_inds flag over its outer labels",
                         params, lambda lz=lz, form=form, linds=linds, r_eff=r_eff: _flag_complete(lz.get()[2], form, linds, r_eff))

    # get='values'
    for i in range(60 if cx.quick else 600):
        draws = [int(v) for v in sel.integers(0, 1 << 30, size=6)]
        if not cx.mine():
            continue
        method = ("svd", "svd:eig", "default", "eig")[draws[0] % 4]
        dtype = DTYPES[draws[1] % 4]
        ldims, rdims = DIMSETS[draws[2] % len(DIMSETS)], DIMSETS[draws[3] % len(DIMSETS)]
        m, n = int(np.prod(ldims, dtype=int)), int(np.prod(rdims, dtype=int))
        x = _matrix(rng, m, n, dtype, ("gauss", "spec", "rankdef")[draws[4] % 3])
        labels = ["a", "b", "c", "d", "e", "f"]
        linds, rinds = tuple(labels[:len(ldims)]), tuple(labels[len(ldims):len(ldims) + len(rdims)])
        perm = list(rng.permutation(len(linds + rinds)))
        if not perm:
            continue
        data = np.ascontiguousarray(np.transpose(x.reshape((*ldims, *rdims)), perm))
        inds = tuple((linds + rinds)[p] for p in perm)
        msv = bool(draws[5] % 2)
        params = dict(entry="Tensor.split", get="values", method=method, dtype=dtype, ldims=list(ldims), rdims=list(rdims),
                      matrix_svals=msv, i=i)

        def t_vals(data=data, inds=inds, linds=linds, rinds=rinds, method=method, msv=msv, dtype=dtype):
            T = qtn.Tensor(data, inds=inds)
            kw = {} if method == "default" else dict(method=method)
            s = T.split(list(linds), right_inds=list(rinds), get="values", matrix_svals=msv, **kw)
            s = _up(s)
            sref = _svals(_up(_mat_of(data, inds, linds, rinds)))
            if msv:
                if s.ndim != 2 or np.linalg.norm(s - np.diag(np.diagonal(s))) > 0:
                    return f"matrix_svals: not a diagonal matrix, shape {s.shape}"
                s = np.diagonal(s)
            if s.shape != sref.shape:
                return f"shape {s.shape} != {sref.shape}"
            tol = 10 * _tols("svd:eig" if method in ("svd:eig", "eig") else "svd", dtype)["val"] * max(sref[0] if sref.size else 0, 1e-300)
            if np.max(np.abs(s - sref), initial=0.0) > tol:
                return f"values {np.array2string(s, precision=6)} != reference (descending) {np.array2string(sref, precision=6)}"
            return None

        cx.check("Tensor.split(get='values'): the singular values of the fused matrix, descending", params, t_vals)

    # TensorNetwork.split: a small network seen as an operator left_inds -> right_inds
    for i in range(80 if cx.quick else 800):
        draws = [int(v) for v in sel.integers(0, 1 << 30, size=8)]
        if not cx.mine():
            continue
        method = ("svd", "svd:eig", "qr", "lq", "svd", "eigh_skip", "polar_right", "auto")[draws[0] % 8]
        if method == "eigh_skip":
            method = "svd"
        absorb = CANON_SPELLINGS[draws[1] % len(CANON_SPELLINGS)]
        form = _form(method, absorb)
        dtype = DTYPES[draws[2] % 2]  # double precision (the operator route contracts with the default backend)
        cplx = dtype.startswith("complex")
        da, db, dc, dd_, dx = (1 + draws[3] % 3, 1 + draws[4] % 3, 1 + draws[5] % 2, 1 + (draws[5] // 2) % 3, 1 + draws[6] % 4)

        def rnd(*shape):
            a = rng.normal(size=shape)
            return (a + 1j * rng.normal(size=shape)).astype(dtype) if cplx else a.astype(dtype)

        A, B = rnd(da, db, dx), rnd(dx, dc, dd_)
        dense = np.einsum("abx,xcd->abcd", A, B)
        split_i = draws[7] % 3
        linds, rinds = ((("a", "c"), ("b", "d")), (("d", "a"), ("c", "b")), (("b",), ("a", "c", "d")))[split_i]
        xm = _mat_of(dense, ("a", "b", "c", "d"), linds, rinds)
        oi = draws[6] % 3
        cutoff, max_bond = ((0.0, None), (0.3, None), (0.0, 2))[oi]
        if method not in ("svd", "svd:eig", "auto"):
            cutoff, max_bond = 0.0, None
        # the operator has rank <= the bond dimension: exactly rank-deficient whenever the bond is the smallest dimension
        tn_kind = "rankdef" if dx < min(xm.shape) else "gauss"
        params = dict(entry="TensorNetwork.split", method=method, path="api", absorb=absorb, form=form, dtype=dtype,
                      dims=[da, db, dc, dd_, dx], split=split_i, cutoff=cutoff, max_bond=max_bond, kind=tn_kind, i=i)
        must = form in MUST_ACCEPT[method]
        single = sum(PRESENT[form]) == 1

        def call(A=A, B=B, linds=linds, rinds=rinds, method=method, absorb=absorb, cutoff=cutoff, max_bond=max_bond, xm=xm, form=form):
            _clear(qd)
            tn = qtn.TensorNetwork([qtn.Tensor(A, "abx", tags="A"), qtn.Tensor(B, "xcd", tags="B")])
            out = tn.split(list(linds), right_inds=list(rinds), method=method, absorb=absorb, cutoff=cutoff, cutoff_mode="rel",
                           max_bond=max_bond, get="tensors")
            size = dict(a=A.shape[0], b=A.shape[1], c=B.shape[1], d=B.shape[2])
            return _normalise_labelled(out, "tensors", form, absorb, False, None, linds, rinds, xm.shape, ("A", "B"), None, None,
                                       None, ("a", "b", "c", "d"), None, [], lshape=[size[ix] for ix in linds],
                                       rshape=[size[ix] for ix in rinds])

        lz = Lazy(call)
        st = cx.check("TensorNetwork.split: accepted call returns factors over the requested labels joined by one new bond",
                      params, lambda lz=lz: "; ".join(lz.get()[1]) or None, allow_reject=not must)
        if st == "rejected" or lz.failed:
            continue
        lz_res = Lazy(lambda lz=lz: [lz.get()[0]])
        _array_contracts(cx, "TensorNetwork.split", params, lz_res, [xm], method, form, dtype, cutoff=cutoff, mode="rel",
                         max_bond=max_bond, renorm=None, allow_reject=False, dynamic=True)
        cx.check("TensorNetwork.split: every returned tensor flagged isometric (left_inds) is isometric over the flagged labels",
                 params, lambda lz=lz, dtype=dtype, method=method: _flag_check(lz.get()[2], 10 * _tols(method, dtype)["iso"]))


def _normalise_labelled(out, get, form, absorb, msv, bond, linds, rinds, mn, tags, ltags, rtags, stags, in_inds, info, problems,
                        lshape=None, rshape=None):
    """-> (Res, list of label problems, list of returned tensors (data, inds, left_inds))"""
    m, n = mn
    # (left, s, right) is returned when the singular values are part of the requested form: ``absorb=None``, its
    # documented alias 'U,s,VH' and the values-only form 's' (whose two factors are None); every other form returns
    # (left, right).  [the count for 's' used to be modelled as 2, which contradicted the sibling contract "form s
    # returns the values": a pair (None, None) has no slot for them]
    three = form in ("full", "s")
    if get is None:
        seq = tuple(out.tensors) if hasattr(out, "tensors") else tuple(out)
    else:
        seq = tuple(out)
    want_n = 3 if three else 2
    if get is None:
        # a network holds only the factors that exist
        want_n = sum(PRESENT[form])
        if form == "s":
            want_n = 1
    if len(seq) != want_n:
        problems.append(f"{len(seq)} objects returned, form {form} with get={get!r} needs {want_n}")
    L = s = R = None
    tens = []
    if get is None:
        items = list(seq)
        pres = PRESENT[form]
        slots = [nm for nm, p in zip(("L", "s", "R"), pres) if p]
        named = dict(zip(slots, items)) if len(items) == len(slots) else {}
        if not named and len(items) == 2:
            named = {"L": items[0], "R": items[1]}
        tL, ts, tR = named.get("L"), named.get("s"), named.get("R")
    else:
        if len(seq) == 3:
            tL, ts, tR = seq
        elif len(seq) == 2:
            tL, ts, tR = seq[0], None, seq[1]
        else:
            tL = ts = tR = None
    if get == "arrays":
        aL, as_, aR = tL, ts, tR
        bl = br = None
    else:
        def unpack(t):
            return (None, None, None) if t is None else (np.asarray(t.data), tuple(t.inds), t.left_inds)
        (aL, iL, fL), (as_, iS, _), (aR, iR, fR) = unpack(tL), unpack(ts), unpack(tR)
        bl = br = None
        if tL is not None:
            tens.append((aL, iL, fL, "left"))
            if len(iL) != len(linds) + 1 or iL[:-1] != tuple(linds):
                problems.append(f"left tensor labels {iL}, expected {(*linds, '<bond>')}")
            bl = iL[-1] if iL else None
            want_tags = set(tags) | set(ltags or ())
            if set(tL.tags) != want_tags:
                problems.append(f"left tensor tags {sorted(tL.tags)}, expected {sorted(want_tags)}")
        if tR is not None:
            tens.append((aR, iR, fR, "right"))
            if len(iR) != len(rinds) + 1 or iR[1:] != tuple(rinds):
                problems.append(f"right tensor labels {iR}, expected {('<bond>', *rinds)}")
            br = iR[0] if iR else None
            want_tags = set(tags) | set(rtags or ())
            if set(tR.tags) != want_tags:
                problems.append(f"right tensor tags {sorted(tR.tags)}, expected {sorted(want_tags)}")
        if ts is not None:
            want_tags = set(tags) | ({stags} if isinstance(stags, str) else set(stags or ()))
            if set(ts.tags) != want_tags:
                problems.append(f"values tensor tags {sorted(ts.tags)}, expected {sorted(want_tags)}")
            if msv:
                if iS != (bl, br):
                    problems.append(f"values tensor labels {iS}, expected the two bonds {(bl, br)}")
            else:
                # the values carry the one new bond: the bond of whichever factor is present (form 's' has neither)
                present = [b for b in (bl, br) if b is not None]
                if len(iS) != 1 or any(iS != (b,) for b in present):
                    problems.append(f"values tensor labels {iS}, bonds {bl}, {br}")
        if not msv and bl is not None and br is not None and bl != br:
            problems.append(f"two different bond labels {bl}, {br}")
        if msv and bl is not None and bl == br:
            problems.append("matrix_svals: the two bonds carry the same label")
        for b_ in (bl, br):
            if b_ is not None and b_ in in_inds:
                problems.append(f"bond label {b_} clashes with a label of the input")
        if bond is not None:
            wantb = tuple(bond) if msv else (bond, bond)
            if (bl is not None and bl != wantb[0]) or (br is not None and br != wantb[1]):
                problems.append(f"bond labels {(bl, br)}, requested {bond}")
    if aL is not None:
        aL = np.asarray(aL)
        if aL.ndim != len(linds) + 1:
            problems.append(f"left factor has {aL.ndim} axes, expected {len(linds) + 1}")
        elif lshape is not None and tuple(aL.shape[:-1]) != tuple(lshape):
            problems.append(f"left factor shape {aL.shape}, expected {(*lshape, 'k')} (one axis per left label, in order)")
        else:
            L = aL.reshape(m, aL.shape[-1]) if int(np.prod(aL.shape[:-1], dtype=int)) == m else None
            if L is None:
                problems.append(f"left factor shape {aL.shape} does not match the left dimensions (fused {m})")
    if aR is not None:
        aR = np.asarray(aR)
        if aR.ndim != len(rinds) + 1:
            problems.append(f"right factor has {aR.ndim} axes, expected {len(rinds) + 1}")
        elif rshape is not None and tuple(aR.shape[1:]) != tuple(rshape):
            problems.append(f"right factor shape {aR.shape}, expected {('k', *rshape)} (one axis per right label, in order)")
        else:
            R = aR.reshape(aR.shape[0], n) if int(np.prod(aR.shape[1:], dtype=int)) == n else None
            if R is None:
                problems.append(f"right factor shape {aR.shape} does not match the right dimensions (fused {n})")
    if as_ is not None:
        s = np.asarray(as_)
        if msv:
            if s.ndim != 2 or np.linalg.norm(s - np.diag(np.diagonal(s))) > 0:
                problems.append(f"matrix_svals: values are not a diagonal matrix (shape {s.shape})")
            else:
                s = np.diagonal(s)
    err = None
    if info is not None:
        err = info.get("error")
    return Res(L, s, R, error=err), problems, tens


def _flag_check(tens, tol):
    for data, inds, flagged, which in tens:
        if flagged is None:
            continue
        if not set(flagged) <= set(inds):
            return f"{which} tensor: left_inds {flagged} not among its labels {inds}"
        if not np.all(np.isfinite(data)):
            return f"{which} tensor has non-finite entries"
        F = _up(_fused(data, inds, tuple(flagged)))
        dfc = _iso_defect(F)
        if dfc > tol:
            return f"{which} tensor is flagged isometric over {flagged} but min(||F^H F - 1||, ||F F^H - 1||) = {dfc:.3e}"
    return None


def _flag_complete(tens, form, linds, rinds):
    for data, inds, flagged, which in tens:
        if which == "left" and form in ISO_L and (flagged is None or tuple(flagged) != tuple(linds)):
            return f"left tensor of form {form}: left_inds = {flagged}, expected {tuple(linds)}"
        if which == "right" and form in ISO_R and (flagged is None or tuple(flagged) != tuple(rinds)):
            return f"right tensor of form {form}: left_inds = {flagged}, expected {tuple(rinds)}"
    return None


# ----------------------------------------------------------------------------------------------
# driver 5: memoised option parsing -- the meaning of a call must not depend on earlier calls
# ----------------------------------------------------------------------------------------------


@driver("C05", "memoised-options", chunks=1, timeout=200,
        bound="array_split / Tensor.split with renorm=True and renorm=1 (resp. 2) called in both orders after clearing the "
              "parser caches, cutoff modes rsum2 / sum2 / rsum1, 4 dtypes, 3 shapes: the kept values are those of the "
              "documented meaning of each call regardless of the call history")
def memo(cx):
    warnings.simplefilter("ignore")
    import quimb.tensor as qtn
    import quimb.tensor.decomp as qd

    rng = cx.rng
    for dtype, (m, n), mode, entry, first in itertools.product(DTYPES, ((6, 5), (4, 7), (8, 8)), ("rsum2", "sum2", "rsum1"),
                                                               ("array_split", "Tensor.split"), ("True-first", "int-first")):
        x = _matrix(rng, m, n, dtype, "spec", 1.0)
        other = 1 if MODE_POW[mode] == 2 else 2  # an explicit power that differs from the automatic one
        # only True == 1 collide as dictionary keys; for rsum1 the automatic power is 1: renorm=True and renorm=1 coincide
        other = 1
        params = dict(entry=entry, dtype=dtype, shape=[m, n], mode=mode, order=first, explicit=other)

        def run(renorm, x=x, mode=mode, entry=entry):
            if entry == "array_split":
                return _up(qd.array_split(x, method="svd", absorb=None, cutoff=0.3, cutoff_mode=mode, renorm=renorm)[1])
            T = qtn.Tensor(x, inds=("a", "b"))
            return _up(T.split(["a"], method="svd", absorb=None, cutoff=0.3, cutoff_mode=mode, renorm=renorm, get="arrays")[1])

        def t(run=run, x=x, mode=mode, first=first, other=other, dtype=dtype):
            for c in (qd.parse_split_opts, qd.parse_method_absorb, qd.parse_split_left_right_isom):
                c.cache_clear()
            order = (True, other) if first == "True-first" else (other, True)
            got = [run(rn) for rn in order]  # a list: True and 1 are the same dictionary key
            sref = _svals(_up(x))
            tl = _tols("svd", dtype)
            for rn, s in zip(order, got):
                k = len(s)
                p = MODE_POW[mode] if rn is True else rn
                want = _renorm_factor(sref, k, p) * sref[:k]
                if np.max(np.abs(s - want)) > 10 * tl["val"] * sref[0]:
                    alt = {q: _renorm_factor(sref, k, q) * sref[:k] for q in (0, 1, 2)}
                    which = [q for q, w in alt.items() if np.max(np.abs(s - w)) <= 10 * tl["val"] * sref[0]]
                    return (f"call order renorm={order}: the call with renorm={rn!r} (documented power {p}) returned values "
                            f"renormalised with power {which}")
            return None

        cx.check("array_split / Tensor.split: renorm=True picks the power of the cutoff mode and an explicit power is honoured, "
                 "whatever calls were made before (memoised option parsing)", params, t)
