"""C10 bounded stand-in: DMRG1 / DMRG2 / DMRGX against dense exact diagonalisation.

Reference semantics (numpy only): H = ham.to_dense() (rows = upper labels), psi = dmrg.state.to_dense(); energies are
Rayleigh quotients psi^dag H psi / psi^dag psi, the spectrum comes from numpy.linalg.eigh, fidelities from vdot.
"""

import itertools

import numpy as np

from vf.rtc import driver


def _serial_cotengra():
    try:
        import cotengra.parallel as par

        par._IS_WORKER = True
    except Exception:  # noqa
        pass


def _rand_herm(rng, n, cplx):
    x = rng.normal(size=(n, n))
    if cplx:
        x = x + 1j * rng.normal(size=(n, n))
    return (x + x.conj().T) / 2


def _embed(M, d, n, sites):
    sites = list(sites)
    rest = [i for i in range(n) if i not in sites]
    full = np.kron(M, np.eye(d ** len(rest)))
    order = sites + rest
    T = full.reshape([d] * (2 * n))
    inv = [int(k) for k in np.argsort(order)]
    T = T.transpose(inv + [n + j for j in inv])
    return T.reshape(d ** n, d ** n)


HAM_KINDS_REAL = ("heis", "ising", "XY", "dense-real", "spinham-real")
HAM_KINDS_CPLX = ("dense-complex", "spinham-complex", "dense-full-complex")


def _build_ham(qtn, r, kind, L, d, cyclic=False):
    """an MPO Hamiltonian of the requested family with random couplings and a small random field against degeneracy"""
    S = (d - 1) / 2
    if kind == "heis":
        j = tuple(float(x) for x in r.uniform(0.5, 1.5, size=3)) if r.random() < 0.6 else float(r.uniform(0.5, 1.5))
        return qtn.MPO_ham_heis(L, j=j, bz=float(r.uniform(0.1, 0.6)), S=S, cyclic=cyclic)
    if kind == "ising":
        return qtn.MPO_ham_ising(L, j=float(r.uniform(0.5, 1.5)) * (1 if r.random() < 0.5 else -1), bx=float(r.uniform(0.2, 1.2)), S=S,
                                 cyclic=cyclic)
    if kind == "XY":
        j = tuple(float(x) for x in r.uniform(0.5, 1.5, size=2))
        return qtn.MPO_ham_XY(L, j=j, bz=float(r.uniform(0.1, 0.6)), S=S, cyclic=cyclic)
    if kind in ("dense-real", "dense-complex"):
        cplx = kind == "dense-complex"
        D = d ** L
        H = np.zeros((D, D), dtype=complex if cplx else float)
        for i in range(L - 1):
            H = H + _embed(_rand_herm(r, d * d, cplx), d, L, (i, i + 1))
        for i in range(L):
            H = H + 0.3 * _embed(_rand_herm(r, d, cplx), d, L, (i,))
        if L == 1:
            H = _rand_herm(r, d, cplx)
        return qtn.MatrixProductOperator.from_dense(H, dims=[d] * L, cutoff=1e-14)
    if kind == "dense-full-complex":
        H = _rand_herm(r, d ** L, True)
        return qtn.MatrixProductOperator.from_dense(H, dims=[d] * L, cutoff=1e-14)
    if kind in ("spinham-real", "spinham-complex"):
        b = qtn.SpinHam1D(S=S, cyclic=cyclic)
        b += float(r.uniform(0.5, 1.5)), "X", "X"
        b += float(r.uniform(0.5, 1.5)), "Z", "Z"
        b -= float(r.uniform(0.1, 0.5)), "Z"
        if kind == "spinham-complex":
            dm = float(r.uniform(0.4, 1.2))
            b += dm, "X", "Y"       # Dzyaloshinskii-Moriya type term: purely imaginary matrix
            b += -dm, "Y", "X"
            b += float(r.uniform(0.2, 0.8)), "Y", "Z"
            b += float(r.uniform(0.1, 0.5)), "Y"
        for i in range(L - 1):
            if r.random() < 0.4:   # site-specific couplings replace the default ones on that bond
                b[i, i + 1] += float(r.uniform(0.5, 1.5)), "X", "X"
                b[i, i + 1] += float(r.uniform(0.5, 1.5)), "Z", "Z"
                if kind == "spinham-complex":
                    b[i, i + 1] += float(r.uniform(0.4, 1.2)), "X", "Y"
        for i in range(L):
            if r.random() < 0.5:
                b[i] += float(r.uniform(-0.5, 0.5)), "Z"
                b[i] += float(r.uniform(-0.5, 0.5)), "X"
        return b.build_mpo(L)
    raise ValueError(kind)


def _analyse(dm, Hd, d, L, cyclic=False):
    """dense quantities of a finished run"""
    st = dm.state
    psi = np.asarray(st.to_dense()).reshape(-1).astype(complex)
    if psi.shape != (d ** L,):
        raise AssertionError(f"state has dense shape {psi.shape}")
    n2 = float(np.vdot(psi, psi).real)
    # quadratic forms of the state exactly as returned (no division by the norm: unit norm is a contract of its own)
    e_psi = float(np.vdot(psi, Hd @ psi).real)
    e_conj = float(np.vdot(psi.conj(), Hd @ psi.conj()).real)
    return st, psi, n2, e_psi, e_conj


@driver("C10", "dmrg-open", chunks=12, timeout=400,
        bound="DMRG1 / DMRG2 on open Hermitian MPO Hamiltonians, L 2..8 (spin-1/2) and 2..5 (spin-1): real-symmetric "
              "(MPO_ham_heis with anisotropic couplings and field, MPO_ham_ising, MPO_ham_XY, SpinHam1D with site-dependent "
              "couplings and fields, from_dense of random real two-site terms + fields, L <= 6 / 4) and genuinely complex "
              "Hermitian (SpinHam1D with XY-YX, YZ and Y terms, from_dense of random complex two-site terms + fields, "
              "from_dense of a full random complex Hermitian matrix L <= 4); which in {SA, LA}; bond caps {full = d^(L/2), "
              "schedule [2, 4, full], 3, 2, 1}; cutoffs {0, 1e-10, [1e-4, 1e-8, 1e-12]}; sweep sequences {R, L, RL, LR, RRL}; "
              "3..8 sweeps, tol 1e-10; initial state {library default (seeded), random MPS real / complex, Neel-type "
              "product}; energies compared to 1e-8 (consistency), 1e-6 (exactness), fidelity >= 1 - 1e-5 for gaps >= "
              "1e-2 of the band width")
def dmrg_open(cx):
    import quimb as qu
    import quimb.tensor as qtn

    _serial_cotengra()
    rng = cx.rng
    reps = 4 if cx.quick else 120
    kinds = HAM_KINDS_REAL + HAM_KINDS_CPLX
    # "warmup-down": a schedule whose last entry is not its maximum (warm up wide, then compress down), run for more
    # sweeps than it has entries: the last entry is the cap that keeps applying
    caps = ("full", "schedule", "three", "two", "one", "warmup-down")
    for kind, bsz, capk, rep in itertools.product(kinds, (1, 2), caps, range(reps)):
        if not cx.mine():
            continue
        if cx.out_of_time():
            cx.inconclusive.append("dmrg-open: time budget exhausted")
            return
        cplxH = kind in HAM_KINDS_CPLX
        d = 3 if rng.random() < 0.25 else 2
        if kind == "dense-full-complex":
            L = int(rng.integers(2, 5 if d == 2 else 4))
        elif kind.startswith("dense"):
            L = int(rng.integers(2, 7 if d == 2 else 5))
        else:
            L = int(rng.integers(2, 9 if d == 2 else 6))
        seed = int(rng.integers(1 << 30))
        seq = ("R", "L", "RL", "LR", "RRL")[int(rng.integers(5))]
        cut = (0.0, 1e-10, "schedule")[int(rng.integers(3))]
        nsw = int(rng.integers(3, 9))
        p0k = ("default", "rand-real", "rand-complex", "product")[int(rng.integers(4))]
        which = "LA" if rng.random() < 0.15 else "SA"
        p = dict(ham=kind, complex_hermitian=cplxH, bsz=bsz, cap=capk, L=L, d=d, seed=seed, sweep_sequence=seq,
                 cutoffs=str(cut), max_sweeps=nsw, p0=p0k, which=which, rep=rep,
                 # classes of inputs singled out so that known defects can be matched narrowly
                 p0_bond_exceeds_cap=(capk == "one" and p0k.startswith("rand")),
                 decreasing_schedule=(capk == "warmup-down"),
                 cap_below_phys_dim=(capk == "one" or (capk in ("two", "warmup-down") and d == 3)),
                 L_equals_bsz_with_left_sweep=(L == bsz and "L" in seq))
        cache = {}

        def run(kind=kind, bsz=bsz, capk=capk, L=L, d=d, seed=seed, seq=seq, cut=cut, nsw=nsw, p0k=p0k, which=which, cache=cache):
            if "out" in cache:
                return cache["out"]
            r = np.random.default_rng(seed)
            ham = _build_ham(qtn, r, kind, L, d)
            Hd = np.asarray(ham.to_dense()).astype(complex)
            if Hd.shape != (d ** L, d ** L):
                raise AssertionError(f"Hamiltonian dense shape {Hd.shape}")
            herm_defect = float(np.max(np.abs(Hd - Hd.conj().T)))
            ev, evec = np.linalg.eigh((Hd + Hd.conj().T) / 2)
            full = d ** (L // 2)
            bds = {"full": full, "schedule": [2, 4, max(full, 1)], "three": 3, "two": 2, "one": 1,
                   "warmup-down": [max(full, 4), 2]}[capk]
            cuts = [1e-4, 1e-8, 1e-12] if cut == "schedule" else cut
            qu.seed_rand(seed % (1 << 31))
            if p0k == "default":
                p0 = None
            elif p0k == "product":
                vecs = []
                for i in range(L):
                    v = np.zeros(d)
                    v[(i % 2) * (d - 1)] = 1.0
                    vecs.append(v + 0.05 * r.normal(size=d))
                p0 = qtn.MPS_product_state(vecs)
                p0.normalize()
            else:
                p0 = qtn.MPS_rand_state(L, 2, phys_dim=d, dtype="float64" if p0k == "rand-real" else "complex128",
                                        seed=int(r.integers(1 << 30)))
            base = qtn.DMRG1 if bsz == 1 else qtn.DMRG2
            record = []

            class Rec(base):
                # documented plug-in point: called after every sweep
                def _compute_post_sweep(self):
                    record.append((self._k.max_bond(), list(self._k.bond_sizes()) if self.L > 1 else []))

            dm = Rec(ham, which=which, bond_dims=bds, cutoffs=cuts, p0=p0)
            conv = dm.solve(tol=1e-10, sweep_sequence=seq, max_sweeps=nsw)
            st, psi, n2, e_psi, e_conj = _analyse(dm, Hd, d, L)
            lib = complex(st.H @ ham.apply(st))
            out = dict(ham=ham, Hd=Hd, herm_defect=herm_defect, ev=ev, evec=evec, full=full, bds=bds, dm=dm, conv=conv, st=st,
                       psi=psi, n2=n2, e_psi=e_psi, e_conj=e_conj, lib=lib, record=record,
                       scale=max(float(ev[-1] - ev[0]), 1.0))
            cache["out"] = out
            return out

        def t_consistent():
            o = run()
            if o["herm_defect"] > 1e-9 * o["scale"]:
                return f"the Hamiltonian MPO is not Hermitian (defect {o['herm_defect']:.2e}): out of domain"
            E = float(np.real(o["dm"].energy))
            tol = 1e-8 * o["scale"]
            if min(abs(E - o["e_psi"]), abs(E - o["e_conj"])) > tol:
                return (f"reported energy {E} is neither <psi|H|psi> = {o['e_psi']} nor the value for the conjugated state "
                        f"{o['e_conj']}")
            if abs(o["lib"].real - o["e_psi"]) > tol or abs(o["lib"].imag) > tol:
                return f"state.H @ ham.apply(state) = {o['lib']} but dense <psi|H|psi> = {o['e_psi']}"
            dm = o["dm"]
            if abs(dm.energy - dm.energies[-1]) > 0:
                return "energy is not the last entry of energies"
            nup = max(o["st"].L - dm.bsz + 1, 1)
            for k, (tot, loc) in enumerate(zip(dm.total_energies, dm.local_energies)):
                if len(tot) != nup or len(loc) != nup:
                    return f"sweep {k}: {len(tot)} total / {len(loc)} local energies for {nup} local updates"
                if abs(tot[-1] - dm.energies[k]) > 0:
                    return f"energies[{k}] is not the total energy after the last update of sweep {k}"
            if len(dm.energies) > o_nsw():
                return f"{len(dm.energies)} sweeps for max_sweeps"
            return None

        def o_nsw(nsw=nsw):
            return nsw

        cx.check("DMRG: reported energy == psi^dag H psi of the returned state up to complex conjugation of the state; "
                 "library expectation == dense; bookkeeping of energies", p, t_consistent)

        def t_norm():
            o = run()
            if abs(o["n2"] - 1) > 1e-8:
                E = float(np.real(o["dm"].energy))
                return (f"returned state has norm^2 {o['n2']:.8f}: the reported energy {E:.8f} is the unnormalised psi^dag H psi, "
                        f"the energy of the normalised state is {o['e_psi'] / o['n2']:.8f}")
            return None

        cx.check("DMRG: the returned state is normalised (so the reported energy is the expectation value in it)", p, t_norm)

        if cplxH:
            def t_orient():
                o = run()
                E = float(np.real(o["dm"].energy))
                tol = 1e-8 * o["scale"]
                if abs(E - o["e_psi"]) > tol:
                    return (f"reported energy {E} != <psi|H|psi> = {o['e_psi']} of the returned state (dense, and "
                            f"state.H @ ham.apply(state) = {o['lib'].real}); it equals the energy of the complex-conjugated state "
                            f"{o['e_conj']}" if abs(E - o["e_conj"]) <= tol else f"reported energy {E} != <psi|H|psi> = {o['e_psi']}")
                return None

            cx.check("DMRG (complex Hermitian H): reported energy is that of the returned state, not of its complex conjugate",
                     p, t_orient)

        def t_variational():
            o = run()
            E = float(np.real(o["dm"].energy))
            tol = 1e-8 * o["scale"]
            if which == "SA" and E < o["ev"][0] - tol:
                return f"reported energy {E} below the exact ground energy {o['ev'][0]}"
            if which == "LA" and E > o["ev"][-1] + tol:
                return f"reported energy {E} above the largest eigenvalue {o['ev'][-1]}"
            for k, tot in enumerate(o["dm"].total_energies):
                for x in tot:
                    x = float(np.real(x))
                    if x < o["ev"][0] - tol or x > o["ev"][-1] + tol:
                        return f"sweep {k}: a total energy {x} lies outside the spectrum [{o['ev'][0]}, {o['ev'][-1]}]"
            return None

        cx.check("DMRG: every reported total energy lies inside the spectrum (variational bound)", p, t_variational)

        def t_cap():
            o = run()
            bds = o["bds"]
            sched = [bds] if isinstance(bds, int) else list(bds)
            for k, (mb, sizes) in enumerate(o["record"]):
                cap = sched[min(k, len(sched) - 1)]
                if mb is not None and mb > cap:
                    return f"after sweep {k}: bond sizes {sizes} exceed the scheduled cap {cap}"
            if len(o["record"]) != len(o["dm"].energies):
                return "post-sweep hook not called once per sweep"
            mb = o["st"].max_bond()
            cap = sched[min(len(o["record"]) - 1, len(sched) - 1)]
            if mb is not None and mb > cap:
                return f"returned state has max_bond {mb} > {cap}"
            return None

        cx.check("DMRG: bond dimension of the state <= the scheduled cap after every sweep", p, t_cap, nontrivial=L > 1)

        untrunc = capk == "full" and cut == 0.0
        if untrunc:
            def t_monotone():
                o = run()
                sgn = 1.0 if which == "SA" else -1.0
                tol_in = 1e-8 * o["scale"]
                # DMRG1 enlarges the bonds with noise of relative strength 1e-6 before a sweep
                tol_between = (1e-5 if bsz == 1 else 1e-8) * o["scale"]
                prev = None
                for k, tot in enumerate(o["dm"].total_energies):
                    for jx, x in enumerate(tot):
                        x = sgn * float(np.real(x))
                        if prev is not None:
                            lim = tol_between if jx == 0 else tol_in
                            if x > prev + lim:
                                return (f"sweep {k}, update {jx}: energy moved the wrong way by {x - prev:.3e} "
                                        f"(untruncated local update, tolerance {lim:.1e})")
                        prev = x
                return None

            cx.check("DMRG without truncation: the total energy never moves away from the target from one local update to the next",
                     p, t_monotone, nontrivial=L > 1)

        admits = capk in ("full", "schedule") and cut != "schedule"

        def t_exact(orient=False):
            o = run()
            ev, evec = o["ev"], o["evec"]
            idx = 0 if which == "SA" else -1
            gap = (ev[1] - ev[0]) if which == "SA" else (ev[-1] - ev[-2])
            if len(ev) < 2 or gap < 1e-2 * o["scale"]:
                return None  # (near-)degenerate target: the eigenvector is not defined well enough
            dm = o["dm"]
            E = float(np.real(dm.energy))
            settled = len(dm.energies) >= 2 and abs(dm.energies[-1] - dm.energies[-2]) < 1e-9 * o["scale"]
            if not (o["conv"] or settled):
                return None  # not converged within max_sweeps: nothing is promised
            if abs(E - ev[idx]) > 1e-6 * o["scale"]:
                return f"converged with a cap that admits the exact state, but energy {E} != exact {ev[idx]}"
            g = evec[:, idx]
            psi = o["psi"] / np.sqrt(o["n2"])
            f_direct = abs(np.vdot(g, psi)) ** 2
            f_conj = abs(np.vdot(g, psi.conj())) ** 2
            if orient:
                if f_direct < 1 - 1e-5:
                    return (f"fidelity of the returned state with the exact eigenvector is {f_direct:.6f} "
                            f"(with its complex conjugate: {f_conj:.6f})")
                return None
            if max(f_direct, f_conj) < 1 - 1e-5:
                return f"fidelity with the exact eigenvector {f_direct:.6f} (conjugate {f_conj:.6f})"
            return None

        if admits:
            cx.check("DMRG converged with a cap that admits the exact state: energy == exact, state == eigenvector up to phase "
                     "(and up to complex conjugation)", p, t_exact, nontrivial=L > 1)
            if cplxH:
                cx.check("DMRG (complex Hermitian H) converged: the returned state is the eigenvector, not its complex conjugate",
                         p, lambda t_exact=t_exact: t_exact(orient=True), nontrivial=L > 1)


@driver("C10", "dmrgx-and-periodic", chunks=6, timeout=400,
        bound="DMRGX (bsz 1) from a product or low-bond initial state on the same real / complex Hamiltonian families, L 3..7, "
              "caps {4, 8}: energy / variance == dense values of the returned normalised state (up to conjugation), variance "
              ">= 0, cap; periodic MPO Hamiltonians (MPO_ham_heis / ising / XY / SpinHam1D cyclic, L 4..7, spin-1/2, caps 4 / 8, "
              "DMRG1 and DMRG2, with the documented small-ring options periodic_segment_size = 1, nullspace fudge 1e-6): reported energy "
              "vs dense <psi|H|psi>/<psi|psi> within 1e-4 of the band width, norm within 1e-3, energy >= E0 - 1e-3")
def dmrgx_pbc(cx):
    import resource

    import quimb as qu
    import quimb.tensor as qtn

    _serial_cotengra()
    # periodic DMRG2 on very small rings asks for tens of GiB (a known defect, see known_findings.d): make such a request fail at once
    # with MemoryError inside this worker process instead of thrashing the machine
    try:
        resource.setrlimit(resource.RLIMIT_AS, (8 << 30, 8 << 30))
    except Exception:  # noqa
        pass
    rng = cx.rng
    reps = 2 if cx.quick else 30
    for kind, rep in itertools.product(HAM_KINDS_REAL + HAM_KINDS_CPLX[:2], range(4 * reps)):
        if not cx.mine():
            continue
        if cx.out_of_time():
            cx.inconclusive.append("dmrgx-and-periodic: time budget exhausted")
            return
        cplxH = kind in HAM_KINDS_CPLX
        L = int(rng.integers(3, 7 if kind.startswith("dense") else 8))
        seed = int(rng.integers(1 << 30))
        cap = (4, 8)[int(rng.integers(2))]
        p0k = ("product", "rand")[int(rng.integers(2))]
        nsw = int(rng.integers(2, 6))
        p = dict(ham=kind, complex_hermitian=cplxH, L=L, seed=seed, cap=cap, p0=p0k, max_sweeps=nsw, rep=rep)

        def t_x(kind=kind, L=L, seed=seed, cap=cap, p0k=p0k, nsw=nsw, orient=False):
            r = np.random.default_rng(seed)
            ham = _build_ham(qtn, r, kind, L, 2)
            Hd = np.asarray(ham.to_dense()).astype(complex)
            qu.seed_rand(seed % (1 << 31))
            if p0k == "product":
                p0 = qtn.MPS_computational_state("".join(str(int(b)) for b in r.integers(0, 2, size=L)))
            else:
                p0 = qtn.MPS_rand_state(L, 2, seed=int(r.integers(1 << 30)))
            dm = qtn.DMRGX(ham, p0, bond_dims=cap, cutoffs=1e-10)
            dm.solve(tol=1e-9, max_sweeps=nsw)
            st, psi, n2, e_psi, e_conj = _analyse(dm, Hd, 2, L)
            scale = max(float(np.ptp(np.linalg.eigvalsh((Hd + Hd.conj().T) / 2))), 1.0)
            tol = 1e-7 * scale
            E = float(np.real(dm.energy))
            if abs(n2 - 1) > 1e-7:
                return f"norm^2 {n2}"
            if st.max_bond() is not None and st.max_bond() > cap:
                return f"max_bond {st.max_bond()} > {cap}"
            e_psi, e_conj = e_psi / n2, e_conj / n2
            if orient:
                return None if abs(E - e_psi) <= tol else f"energy {E} != <psi|H|psi> {e_psi} (conjugate state: {e_conj})"
            if min(abs(E - e_psi), abs(E - e_conj)) > tol:
                return f"energy {E} vs <psi|H|psi> {e_psi} / conjugate {e_conj}"
            v = float(np.real(dm.variance))
            v_psi = float(np.vdot(Hd @ psi, Hd @ psi).real) / n2 - e_psi ** 2
            v_conj = float(np.vdot(Hd @ psi.conj(), Hd @ psi.conj()).real) / n2 - e_conj ** 2
            if min(abs(v - v_psi), abs(v - v_conj)) > 1e-6 * scale ** 2:
                return f"variance {v} vs dense {v_psi} / conjugate {v_conj}"
            if v < -1e-7 * scale ** 2:
                return f"negative variance {v}"
            return None

        cx.check("DMRGX: energy and variance == dense values of the returned normalised state (up to conjugation), cap respected",
                 p, t_x)
        if cplxH:
            cx.check("DMRGX (complex Hermitian H): reported energy is that of the returned state, not of its conjugate", p,
                     lambda t_x=t_x: t_x(orient=True))

    for kind, bsz, rep in itertools.product(("heis", "ising", "XY", "spinham-real"), (1, 2), range(reps)):
        if not cx.mine():
            continue
        if cx.out_of_time():
            cx.inconclusive.append("dmrgx-and-periodic: time budget exhausted")
            return
        L = int(rng.integers(4, 8))
        seed = int(rng.integers(1 << 30))
        cap = (4, 8)[int(rng.integers(2))]
        p = dict(ham=kind, periodic=True, bsz=bsz, L=L, seed=seed, cap=cap, rep=rep, ring_of_at_most_5_sites=(L <= 5))

        def t_pbc(kind=kind, bsz=bsz, L=L, seed=seed, cap=cap):
            r = np.random.default_rng(seed)
            ham = _build_ham(qtn, r, kind, L, 2, cyclic=True)
            if not ham.cyclic:
                return "cyclic Hamiltonian builder returned an open MPO"
            Hd = np.asarray(ham.to_dense()).astype(complex)
            ev = np.linalg.eigvalsh((Hd + Hd.conj().T) / 2)
            scale = max(float(ev[-1] - ev[0]), 1.0)
            qu.seed_rand(seed % (1 << 31))
            dm = (qtn.DMRG1 if bsz == 1 else qtn.DMRG2)(ham, bond_dims=cap, cutoffs=1e-10)
            # documented setting for small rings: no segmentation of the 'long way round' (segment size >= 1)
            dm.opts["periodic_segment_size"] = 1.0
            dm.opts["periodic_nullspace_fudge_factor"] = 1e-6
            dm.solve(tol=1e-7, max_sweeps=6)
            st, psi, n2, e_psi, e_conj = _analyse(dm, Hd, 2, L)
            E = float(np.real(dm.energy))
            e_psi = e_psi / n2
            if abs(n2 - 1) > 1e-3:
                return f"norm^2 of the returned state {n2}"
            if abs(E - e_psi) > 1e-4 * scale:
                return f"reported energy {E} vs dense <psi|H|psi>/<psi|psi> {e_psi}"
            if E < ev[0] - 1e-3 * scale:
                return f"reported energy {E} below the exact ground energy {ev[0]}"
            if st.max_bond() > cap:
                return f"max_bond {st.max_bond()} > {cap}"
            return None

        cx.check("DMRG on a periodic MPO: reported energy consistent with the returned state (loose tolerance), cap respected",
                 p, t_pbc)
