"""C20 bounded stand-in: every matrix-side entanglement / information measure of quimb/calc.py against its textbook
definition evaluated with plain numpy (eigvalsh / svd on explicit reshapes), plus invariances, bounds, ket-vs-projector,
dense-vs-sparse and exact-vs-shortcut agreement.

Conventions of the reference: a state on subsystems of dimensions `dims` is indexed in Kronecker (row-major) order;
entropies in bits (log2); negativity N = (||rho^T_A||_1 - 1)/2; logarithmic negativity log2 ||rho^T_A||_1; fidelity
F = tr sqrt(sqrt(rho) sigma sqrt(rho)) (squared option F^2); trace distance ||rho - sigma||_1 / 2; concurrence by
Wootters; discord D(A|B) = I(A:B) - max over projective measurements on B of [S(A) - sum_j p_j S(rho_A|j)].
"""

import itertools
import math

import numpy as np

from vf.rtc import driver

# ----------------------------------------------------------------------------------------------
# plain-numpy reference library (shares no code with quimb)
# ----------------------------------------------------------------------------------------------

PX = np.array([[0, 1], [1, 0]], dtype=complex)
PY = np.array([[0, -1j], [1j, 0]], dtype=complex)
PZ = np.array([[1, 0], [0, -1]], dtype=complex)
PI2 = np.eye(2, dtype=complex)
PAULI = {"I": PI2, "X": PX, "Y": PY, "Z": PZ}


def dm(x):
    """density operator of a ket (any shape with d entries) or pass an operator through"""
    x = np.asarray(x.toarray() if hasattr(x, "toarray") else x, dtype=complex)
    if x.ndim == 2 and x.shape[0] == x.shape[1] and x.shape[0] > 1:
        return x
    v = x.reshape(-1)
    return np.outer(v, v.conj())


def ptrace(rho, dims, keep):
    """partial trace keeping subsystems `keep` (result ordered by increasing subsystem index)"""
    dims = list(dims)
    n = len(dims)
    keep = sorted(set(int(k) for k in keep))
    t = dm(rho).reshape(dims + dims)
    # trace the unwanted axes one by one from the back
    cur = list(range(n))
    for q in reversed(range(n)):
        if q not in keep:
            a = cur.index(q)
            t = np.trace(t, axis1=a, axis2=a + len(cur))
            cur.pop(a)
    d = int(np.prod([dims[k] for k in keep])) if keep else 1
    return t.reshape(d, d)


def permute_sys(x, dims, perm):
    """re-order subsystems: new subsystem q is old subsystem perm[q] (kets and operators)"""
    dims = list(dims)
    n = len(dims)
    x = np.asarray(x, dtype=complex)
    if x.ndim == 2 and x.shape[0] == x.shape[1] and x.shape[0] > 1:
        t = x.reshape(dims + dims).transpose(list(perm) + [n + p for p in perm])
        return t.reshape(x.shape)
    return x.reshape(dims).transpose(perm).reshape(-1, 1)


def ptranspose(rho, dims, sysa):
    dims = list(dims)
    n = len(dims)
    t = dm(rho).reshape(dims + dims)
    axes = list(range(2 * n))
    for a in sysa:
        axes[a], axes[n + a] = axes[n + a], axes[a]
    D = int(np.prod(dims))
    return t.transpose(axes).reshape(D, D)


def evals_psd(rho):
    return np.linalg.eigvalsh((rho + rho.conj().T) / 2)


def vn_entropy(rho):
    lam = evals_psd(dm(rho))
    lam = lam[lam > 1e-300]
    return float(-(lam * np.log2(lam)).sum())


def trace_norm(M):
    return float(np.linalg.svd(M, compute_uv=False).sum())


def sqrtm_psd(rho):
    lam, v = np.linalg.eigh((rho + rho.conj().T) / 2)
    return (v * np.sqrt(np.clip(lam, 0, None))) @ v.conj().T


def fidelity_ref(a, b):
    """unsquared Uhlmann fidelity ||sqrt(a) sqrt(b)||_1"""
    return trace_norm(sqrtm_psd(dm(a)) @ sqrtm_psd(dm(b)))


def negativity_ref(rho, dims, sysa):
    return max(0.0, (trace_norm(ptranspose(rho, dims, sysa)) - 1) / 2)


def logneg_ref(rho, dims, sysa):
    return max(0.0, math.log2(trace_norm(ptranspose(rho, dims, sysa))))


def concurrence_ref(rho):
    rho = dm(rho)
    yy = np.kron(PY, PY)
    R = rho @ yy @ rho.conj() @ yy
    lam = np.sqrt(np.clip(np.sort(np.linalg.eigvals(R).real)[::-1], 0, None))
    return max(0.0, float(lam[0] - lam[1] - lam[2] - lam[3]))


def cond_entropy_after_measurement(rho_ab, theta, phi):
    """sum_j p_j S(rho_A|j) for the projective measurement of qubit B along (theta, phi)"""
    n = np.array([math.sin(theta) * math.cos(phi), math.sin(theta) * math.sin(phi), math.cos(theta)])
    P0 = (PI2 + n[0] * PX + n[1] * PY + n[2] * PZ) / 2
    tot = 0.0
    for P in (P0, PI2 - P0):
        M = np.kron(PI2, P)
        r = M @ rho_ab @ M
        p = float(np.trace(r).real)
        if p > 1e-14:
            tot += p * vn_entropy(ptrace(r / p, [2, 2], [0]))
    return tot


def discord_ref(rho_ab):
    """D(A|B), measurement on the second qubit: grid search + local refinement"""
    from scipy.optimize import minimize

    rho_ab = dm(rho_ab)
    iab = vn_entropy(ptrace(rho_ab, [2, 2], [0])) + vn_entropy(ptrace(rho_ab, [2, 2], [1])) - vn_entropy(rho_ab)
    sa = vn_entropy(ptrace(rho_ab, [2, 2], [0]))
    best = []
    for th in np.linspace(0, math.pi, 13):
        for ph in np.linspace(0, 2 * math.pi, 24, endpoint=False):
            best.append((cond_entropy_after_measurement(rho_ab, th, ph), th, ph))
    best.sort()
    vals = []
    for v, th, ph in best[:4]:
        r = minimize(lambda a: cond_entropy_after_measurement(rho_ab, a[0], a[1]), (th, ph), method="Nelder-Mead",
                     options=dict(xatol=1e-10, fatol=1e-13, maxiter=2000))
        vals.append(min(v, r.fun))
    return iab - (sa - min(vals))


def embed_op(op, dims, where):
    """operator `op` acting on subsystems `where` (tensor factors of op in that order) embedded into dims"""
    dims = list(dims)
    n = len(dims)
    where = list(where)
    rest = [q for q in range(n) if q not in where]
    dw = int(np.prod([dims[q] for q in where]))
    dr = int(np.prod([dims[q] for q in rest])) if rest else 1
    full = np.kron(np.asarray(op, dtype=complex).reshape(dw, dw), np.eye(dr))
    cur = where + rest
    t = full.reshape([dims[q] for q in cur] * 2)
    perm = [cur.index(q) for q in range(n)]
    D = int(np.prod(dims))
    return t.transpose(perm + [n + p for p in perm]).reshape(D, D)


def rand_unitary(rng, d):
    g = rng.normal(size=(d, d)) + 1j * rng.normal(size=(d, d))
    q, r = np.linalg.qr(g)
    return q * (np.diag(r) / np.abs(np.diag(r)))


def local_unitary(rng, dims):
    U = np.ones((1, 1), dtype=complex)
    for d in dims:
        U = np.kron(U, rand_unitary(rng, d))
    return U


# ----------------------------------------------------------------------------------------------
# states
# ----------------------------------------------------------------------------------------------

DIMS_QUICK = [[2, 2], [2, 3], [3, 2], [2, 2, 2], [2, 3, 2], [3, 3], [1, 4], [4, 1], [2, 1, 2], [2, 2, 3], [2, 2, 2, 2],
              [4, 3], [6], [2, 4, 2], [1, 1, 2], [5, 2]]
DIMS_MORE = [[3, 4], [2, 2, 3, 3], [6, 6], [2, 3, 6], [3, 3, 4], [2, 2, 2, 2, 2], [1, 3, 1, 3], [4, 2, 4], [3, 2, 3, 2],
             [7, 5], [2, 9, 2], [3, 3, 3], [1], [2], [36], [2, 2, 9]]


def rand_ket(rng, d, kind="complex"):
    if kind == "real":
        v = rng.normal(size=d).astype(complex)
    elif kind == "sparse":
        v = np.zeros(d, dtype=complex)
        k = int(rng.integers(1, min(d, 3) + 1))
        idx = rng.choice(d, size=k, replace=False)
        v[idx] = rng.normal(size=k) + 1j * rng.normal(size=k)
    else:
        v = rng.normal(size=d) + 1j * rng.normal(size=d)
    return (v / np.linalg.norm(v)).reshape(-1, 1)


def product_ket(rng, dims):
    v = np.ones(1, dtype=complex)
    for d in dims:
        v = np.kron(v, rand_ket(rng, d).reshape(-1))
    return v.reshape(-1, 1)


def rand_rho(rng, d, rank, kind="wishart"):
    """density operator of exact rank `rank`"""
    rank = max(1, min(rank, d))
    if kind == "diag":
        p = np.zeros(d)
        p[rng.choice(d, size=rank, replace=False)] = rng.dirichlet(np.ones(rank))
        return np.diag(p).astype(complex)
    if kind == "eig":
        # prescribed spectrum in a random basis
        U = rand_unitary(rng, d)
        p = np.zeros(d)
        p[:rank] = rng.dirichlet(np.ones(rank))
        return (U * p) @ U.conj().T
    g = rng.normal(size=(d, rank)) + 1j * rng.normal(size=(d, rank))
    rho = g @ g.conj().T
    return rho / np.trace(rho).real


def make_state(rng, dims, kind):
    """kind in ket / ket-real / ket-sparse / ket-product / rho-r1 / rho-low / rho-full / rho-diag / rho-eig / rho-sep / mixed-max"""
    D = int(np.prod(dims))
    if kind == "ket":
        return rand_ket(rng, D)
    if kind == "ket-real":
        return rand_ket(rng, D, "real")
    if kind == "ket-sparse":
        return rand_ket(rng, D, "sparse")
    if kind == "ket-product":
        return product_ket(rng, dims)
    if kind == "rho-r1":
        return rand_rho(rng, D, 1)
    if kind == "rho-low":
        return rand_rho(rng, D, int(rng.integers(2, max(3, D // 2 + 1))))
    if kind == "rho-full":
        return rand_rho(rng, D, D)
    if kind == "rho-diag":
        return rand_rho(rng, D, int(rng.integers(1, D + 1)), "diag")
    if kind == "rho-eig":
        return rand_rho(rng, D, int(rng.integers(1, D + 1)), "eig")
    if kind == "rho-sep":
        k = int(rng.integers(1, 4))
        p = rng.dirichlet(np.ones(k))
        return sum(pi * dm(product_ket(rng, dims)) for pi in p)
    if kind == "mixed-max":
        return np.eye(D, dtype=complex) / D
    raise ValueError(kind)


KET_KINDS = ("ket", "ket-real", "ket-sparse", "ket-product")
RHO_KINDS = ("rho-r1", "rho-low", "rho-full", "rho-diag", "rho-eig", "rho-sep", "mixed-max")
REPS = ("qarray", "ndarray", "sparse")


def as_rep(qu, sp, x, rep):
    """hand the state to quimb as a qarray, a plain ndarray or a scipy csr matrix (sparse: kets only -- sparse density
    operators have their own driver 'sparse-operators')"""
    if rep == "sparse" and not is_ket(np.asarray(x)):
        rep = "qarray"
    if rep == "qarray":
        return qu.qarray(np.array(x))
    if rep == "ndarray":
        return np.array(x)
    if rep == "sparse":
        return sp.csr_matrix(np.array(x))
    raise ValueError(rep)


def is_ket(x):
    return x.ndim == 2 and x.shape[1] == 1


def subsets(n, include_empty=False, include_full=False):
    lo = 0 if include_empty else 1
    hi = n if include_full else n - 1
    for k in range(lo, hi + 1):
        for c in itertools.combinations(range(n), k):
            yield c


def sz(dims, sys_):
    return int(np.prod([dims[q] for q in sys_])) if len(sys_) else 1


def scalar_close(got, ref, what, tol=1e-9, rel=True):
    try:
        g = complex(np.asarray(got).reshape(-1)[0]) if np.size(got) == 1 else None
    except Exception:  # noqa
        g = None
    if g is None:
        return f"{what}: not a scalar: {type(got)} shape {np.shape(got)}"
    if not np.isfinite(g):
        return f"{what}: non-finite {g}"
    if abs(g.imag) > tol:
        return f"{what}: imaginary part {g.imag:.2e}"
    t = tol * (max(1.0, abs(ref)) if rel else 1.0)
    if abs(g.real - ref) > t:
        return f"{what}: got {g.real:.12g} reference {ref:.12g} (diff {abs(g.real - ref):.2e}, tol {t:.1e})"
    return None


def mat_close(got, ref, what, tol=1e-10):
    if hasattr(got, "toarray") and not isinstance(got, np.ndarray):
        got = got.toarray()
    got = np.asarray(got)
    ref = np.asarray(ref)
    if got.shape != ref.shape:
        return f"{what}: shape {got.shape} != reference {ref.shape}"
    if got.size == 0:
        return None
    if not np.all(np.isfinite(got)):
        return f"{what}: non-finite entries"
    t = tol * max(1.0, float(np.abs(ref).max()))
    d = float(np.abs(got - ref).max())
    if d > t:
        return f"{what}: max abs diff {d:.3e} (tol {t:.1e})"
    return None


def first(*errs):
    for e in errs:
        if e:
            return e
    return None


def pick_reorder(rng, sys_):
    """the same subsystem set in a random order (tuple) or as an int when it is a single index"""
    sys_ = list(sys_)
    if len(sys_) == 1 and rng.integers(0, 2):
        return int(sys_[0]), "int"
    if len(sys_) > 1 and rng.integers(0, 2):
        p = [sys_[int(q)] for q in rng.permutation(len(sys_))]
        return tuple(p), "reordered" if p != sorted(p) else "tuple"
    return tuple(sys_), "tuple"


# ----------------------------------------------------------------------------------------------
# driver 1: entropies, mutual information, Schmidt gap, tr_sqrt
# ----------------------------------------------------------------------------------------------

@driver("C20", "entropies", chunks=6, timeout=200,
        bound="32 dimension lists with product <= 36 (incl. dims of 1, single subsystem), 4 kinds of kets and 7 kinds of mixed "
              "states of rank 1..full, every bipartition / every disjoint pair of subsystem sets (non-contiguous, reordered, "
              "int or tuple), inputs as qarray / ndarray / sparse: entropy, entropy_subsys, mutinf, mutinf_subsys, schmidt_gap, "
              "tr_sqrt, tr_sqrt_subsys vs eigvalsh formulas (tol 1e-9), bounds, pure-state identities, local-unitary and "
              "relabelling invariance, approx_thresh in {default, None, huge}")
def entropies(cx):
    import scipy.sparse as sp

    import quimb as qu

    rng = cx.rng
    dims_list = DIMS_QUICK if cx.quick else DIMS_QUICK + DIMS_MORE
    kinds = KET_KINDS + RHO_KINDS
    reps_per = 2 if cx.quick else 6
    for di, dims in enumerate(dims_list):
        for ki, kind in enumerate(kinds):
            for rep_i in range(reps_per):
                if not cx.mine():
                    continue
                if cx.out_of_time():
                    cx.inconclusive.append("entropies: time budget exhausted")
                    return
                n = len(dims)
                D = int(np.prod(dims))
                x = make_state(rng, dims, kind)
                ket = is_ket(x)
                rho = dm(x)
                rep = REPS[(di + ki + rep_i) % 3]
                if rep == "sparse" and not ket:
                    rep = "qarray"
                base = dict(dims=dims, has_dim1=bool(1 in dims), state=kind, rep=rep, r=rep_i,
                            input=("sparse-" if rep == "sparse" else "") + ("ket" if ket else "op"))
                xq = lambda x=x, rep=rep: as_rep(qu, sp, x, rep)  # noqa: E731
                U = local_unitary(rng, dims)
                perm = [int(q) for q in rng.permutation(n)]
                true_rank = int((evals_psd(rho) > 1e-12).sum())

                # ---- entropy of the whole state
                if not ket:
                    def t_ent(xq=xq, rho=rho, D=D, true_rank=true_rank, U=U):
                        S = vn_entropy(rho)
                        e = scalar_close(qu.entropy(xq()), S, "entropy(rho)")
                        if e:
                            return e
                        if not (-1e-9 <= S <= math.log2(D) + 1e-9):
                            return "reference entropy outside [0, log2 d]"
                        e = scalar_close(qu.entropy(evals_psd(rho)), S, "entropy(eigenvalues)")
                        if e:
                            return e
                        return scalar_close(qu.entropy(qu.qarray(U @ rho @ U.conj().T)), S, "entropy(U rho U+)")

                    cx.check("entropy(rho) == -sum l log2 l, unitary invariant, eigenvalue-list input", base, t_ent)
                    if D >= 3 and true_rank < D - 1 and rep != "sparse":
                        cx.check("entropy(rho, rank=true rank) == entropy(rho)", dict(base, rank=true_rank),
                                 lambda xq=xq, rho=rho, true_rank=true_rank: scalar_close(
                                     qu.entropy(xq(), rank=true_rank), vn_entropy(rho), "entropy(rank=)", tol=1e-8))

                    def t_trs(xq=xq, rho=rho):
                        ref = float(np.sqrt(np.clip(evals_psd(rho), 0, None)).sum())
                        return scalar_close(qu.tr_sqrt(xq()), ref, "tr_sqrt", tol=1e-6, rel=False)

                    cx.check("tr_sqrt(rho) == sum sqrt(eigenvalues)", base, t_trs)

                # ---- bipartitions
                for sysa in subsets(n, include_full=(n == 1 or di % 2 == 0), include_empty=False):
                    sysb = tuple(q for q in range(n) if q not in sysa)
                    sa_arg, sa_form = pick_reorder(rng, sysa)
                    p = dict(base, sysa=list(sysa), form=sa_form, dimA_is_1=bool(sz(dims, sysa) == 1 and sz(dims, sysb) > 1),
                             trivial_subsystem=bool(sz(dims, sysa) == 1 or sz(dims, sysb) == 1))
                    thr = (2 ** 13, None, 10 ** 9)[(di + len(sysa)) % 3]

                    def t_mi(xq=xq, rho=rho, dims=dims, sysa=sysa, sysb=sysb, sa_arg=sa_arg, ket=ket, U=U, perm=perm, x=x):
                        SA, SB, SAB = (vn_entropy(ptrace(rho, dims, sysa)), vn_entropy(ptrace(rho, dims, sysb)), vn_entropy(rho))
                        ref = SA + SB - SAB
                        e = scalar_close(qu.mutinf(xq(), dims, sa_arg), ref, "mutinf")
                        if e:
                            return e
                        if ref < -1e-9 or ref > 2 * min(math.log2(sz(dims, sysa)), math.log2(sz(dims, sysb))) + 1e-9:
                            return f"reference mutual information {ref} outside [0, 2 log2 min(dA, dB)]"
                        if ket and abs(ref - 2 * SA) > 1e-9:
                            return "reference: pure state with I != 2 S(A)"
                        # symmetry under A <-> B
                        if sysb:
                            e = scalar_close(qu.mutinf(xq(), dims, sysb), ref, "mutinf(A<->B)")
                            if e:
                                return e
                        # ket vs projector
                        if ket:
                            e = scalar_close(qu.mutinf(qu.qarray(rho), dims, sa_arg), ref, "mutinf(projector of the ket)", tol=1e-7)
                            if e:
                                return e
                        # local unitaries
                        y = U @ np.asarray(x) if ket else U @ rho @ U.conj().T
                        e = scalar_close(qu.mutinf(qu.qarray(y), dims, sa_arg), ref, "mutinf(local unitaries)", tol=1e-8)
                        if e:
                            return e
                        # relabelling of the subsystems
                        nd = [dims[q] for q in perm]
                        ns = tuple(perm.index(q) for q in sysa)
                        return scalar_close(qu.mutual_information(qu.qarray(permute_sys(x, dims, perm)), nd, ns), ref,
                                            "mutual_information(relabelled subsystems)", tol=1e-8)

                    cx.check("mutinf == S(A)+S(B)-S(AB); symmetric; invariant under local unitaries / relabelling; ket == projector",
                             p, t_mi)
                    if not ket and D >= 3 and true_rank < D - 1:
                        def t_mir(xq=xq, rho=rho, dims=dims, sysa=sysa, sysb=sysb, sa_arg=sa_arg, true_rank=true_rank):
                            ref = vn_entropy(ptrace(rho, dims, sysa)) + vn_entropy(ptrace(rho, dims, sysb)) - vn_entropy(rho)
                            return scalar_close(qu.mutinf(xq(), dims, sa_arg, rank=true_rank), ref, "mutinf(rank=)", tol=1e-8)

                        cx.check("mutinf(rho, rank=true rank of rho) == mutinf(rho)", dict(p, rank=true_rank), t_mir)
                    if ket:
                        def t_es(xq=xq, rho=rho, dims=dims, sysa=sysa, sysb=sysb, sa_arg=sa_arg, thr=thr):
                            SA = vn_entropy(ptrace(rho, dims, sysa))
                            lam = np.clip(evals_psd(ptrace(rho, dims, sysa)), 0, None)
                            e = first(
                                scalar_close(qu.entropy_subsys(xq(), dims, sa_arg, approx_thresh=thr), SA, "entropy_subsys"),
                                scalar_close(qu.entropy_subsys(xq(), dims, sa_arg), SA, "entropy_subsys (default threshold)"),
                                scalar_close(qu.tr_sqrt_subsys(xq(), dims, sa_arg, approx_thresh=thr), float(np.sqrt(lam).sum()),
                                             "tr_sqrt_subsys", tol=1e-6, rel=False))
                            if e:
                                return e
                            if sysb:
                                e = scalar_close(qu.entropy_subsys(xq(), dims, sysb, approx_thresh=thr), SA,
                                                 "entropy_subsys(B) == S(A) for a pure state")
                            return e

                        cx.check("entropy_subsys / tr_sqrt_subsys == spectrum of the reduced state; S(A) == S(B)",
                                 dict(p, approx_thresh=str(thr)), t_es)

                        def t_sg(xq=xq, rho=rho, dims=dims, sysa=sysa, sa_arg=sa_arg):
                            lam = np.sort(np.clip(evals_psd(ptrace(rho, dims, sysa)), 0, None))[::-1]
                            ref = float(lam[0] - (lam[1] if len(lam) > 1 else 0.0))
                            return scalar_close(qu.schmidt_gap(xq(), dims, sa_arg), ref, "schmidt_gap", tol=1e-8)

                        cx.check("schmidt_gap == difference of the two largest Schmidt probabilities", p, t_sg)

                # ---- pairs of disjoint subsystem sets of a pure state
                if ket and n >= 2:
                    pairs = []
                    for sysa in subsets(n):
                        restq = [q for q in range(n) if q not in sysa]
                        for k in range(1, len(restq) + 1):
                            for sysb in itertools.combinations(restq, k):
                                pairs.append((sysa, sysb))
                    if len(pairs) > 8:
                        pairs = [pairs[int(q)] for q in rng.choice(len(pairs), size=8, replace=False)]
                    for sysa, sysb in pairs:
                        sa_arg, fa = pick_reorder(rng, sysa)
                        sb_arg, fb = pick_reorder(rng, sysb)
                        thr = (2 ** 13, None)[len(sysa) % 2]

                        def t_mis(xq=xq, rho=rho, dims=dims, sysa=sysa, sysb=sysb, sa_arg=sa_arg, sb_arg=sb_arg, thr=thr):
                            ref = (vn_entropy(ptrace(rho, dims, sysa)) + vn_entropy(ptrace(rho, dims, sysb))
                                   - vn_entropy(ptrace(rho, dims, sysa + sysb)))
                            e = scalar_close(qu.mutinf_subsys(xq(), dims, sa_arg, sb_arg, approx_thresh=thr), ref, "mutinf_subsys")
                            if e:
                                return e
                            e = scalar_close(qu.mutinf_subsys(xq(), dims, sb_arg, sa_arg, approx_thresh=thr), ref,
                                             "mutinf_subsys(A<->B)")
                            if e:
                                return e
                            if ref < -1e-9:
                                return "reference: negative mutual information"
                            # exact route: mutinf of the reduced operator
                            rab = ptrace(rho, dims, sysa + sysb)
                            kept = sorted(sysa + sysb)
                            nd = [dims[q] for q in kept]
                            ns = tuple(kept.index(q) for q in sysa)
                            return scalar_close(qu.mutinf(qu.qarray(rab), nd, ns), ref, "mutinf(reduced operator)", tol=1e-8)

                        cx.check("mutinf_subsys(psi, A, B) == S(A)+S(B)-S(AB) of the reduced states == mutinf(rho_AB)",
                                 dict(base, sysa=list(sysa), sysb=list(sysb), forms=fa + "/" + fb, approx_thresh=str(thr),
                                      trivial_subsystem=bool(sz(dims, sysa) == 1 or sz(dims, sysb) == 1)), t_mis)


# ----------------------------------------------------------------------------------------------
# driver 2: partial transpose, negativity, logarithmic negativity (+ subsystem shortcut, lazy operators)
# ----------------------------------------------------------------------------------------------

@driver("C20", "negativity", chunks=6, timeout=200,
        bound="same dimension lists / states / representations: partial_transpose, negativity, logneg (= logarithmic_negativity), "
              "logneg_subsys (pure bipartition shortcut, reduced-operator route, approx_thresh default / None), the lazy "
              "partial-trace operators behind the approximate routes densified, vs svd / eigvalsh formulas (tol 1e-8); bounds, "
              "PPT of separable states, pure-state formula from Schmidt coefficients, invariances, ket vs projector")
def negativity_driver(cx):
    import scipy.sparse as sp

    import quimb as qu
    from quimb.linalg.approx_spectral import lazy_ptr_linop, lazy_ptr_ppt_linop

    rng = cx.rng
    dims_list = DIMS_QUICK if cx.quick else DIMS_QUICK + DIMS_MORE
    kinds = KET_KINDS + RHO_KINDS
    reps_per = 2 if cx.quick else 6
    for di, dims in enumerate(dims_list):
        for ki, kind in enumerate(kinds):
            for rep_i in range(reps_per):
                if not cx.mine():
                    continue
                if cx.out_of_time():
                    cx.inconclusive.append("negativity: time budget exhausted")
                    return
                n = len(dims)
                x = make_state(rng, dims, kind)
                ket = is_ket(x)
                rho = dm(x)
                rep = REPS[(di + ki + rep_i + 1) % 3]
                if rep == "sparse" and not ket:
                    rep = "ndarray"
                base = dict(dims=dims, has_dim1=bool(1 in dims), state=kind, rep=rep, r=rep_i,
                            input=("sparse-" if rep == "sparse" else "") + ("ket" if ket else "op"))
                xq = lambda x=x, rep=rep: as_rep(qu, sp, x, rep)  # noqa: E731
                U = local_unitary(rng, dims)
                perm = [int(q) for q in rng.permutation(n)]
                for sysa in subsets(n, include_full=(di % 3 == 0)):
                    sysb = tuple(q for q in range(n) if q not in sysa)
                    sa_arg, sa_form = pick_reorder(rng, sysa)
                    dA, dB = sz(dims, sysa), sz(dims, sysb)
                    p = dict(base, sysa=list(sysa), form=sa_form, dimA_is_1=bool(dA == 1 and dB > 1),
                             trivial_subsystem=bool(dA == 1 or dB == 1))

                    def t_pt(xq=xq, rho=rho, dims=dims, sysa=sysa, sa_arg=sa_arg, sysb=sysb):
                        R = ptranspose(rho, dims, sysa)
                        got = qu.partial_transpose(xq(), dims, sa_arg)
                        e = mat_close(got, R, "partial_transpose")
                        if e:
                            return e
                        # transposing A and then B is the full transpose
                        if sysb:
                            g2 = qu.partial_transpose(got, dims, sysb)
                            e = mat_close(g2, rho.T, "partial_transpose over A then B != full transpose")
                        return e

                    cx.check("partial_transpose == transposition of the A indices", p, t_pt)

                    def t_neg(xq=xq, rho=rho, dims=dims, sysa=sysa, sysb=sysb, sa_arg=sa_arg, ket=ket, U=U, perm=perm, x=x,
                              dA=dA, dB=dB, kind=kind):
                        N = negativity_ref(rho, dims, sysa)
                        LN = logneg_ref(rho, dims, sysa)
                        # operator path: trace norm from |eigenvalues| (Lipschitz) -> 1e-8; ket path: (sum of sqrt of the
                        # reduced spectrum)^2, sqrt is not Lipschitz at the null eigenvalues -> d*sqrt(eps) ~ 1e-6
                        tl = 1e-6 if ket else 1e-8
                        e = first(scalar_close(qu.negativity(xq(), dims, sa_arg), N, "negativity", tol=tl, rel=False),
                                  scalar_close(qu.logneg(xq(), dims, sa_arg), LN, "logneg", tol=tl, rel=False),
                                  scalar_close(qu.logarithmic_negativity(xq(), dims, sa_arg), LN, "logarithmic_negativity", tol=tl,
                                               rel=False))
                        if e:
                            return e
                        m = min(dA, dB)
                        if N > (m - 1) / 2 + 1e-9 or LN > math.log2(m) + 1e-9 or N < 0 or LN < 0:
                            return f"reference outside bounds: N={N}, LN={LN}, min(dA,dB)={m}"
                        if abs(LN - math.log2(2 * N + 1)) > 1e-8:
                            return "reference: logneg != log2(2N+1)"
                        if kind in ("rho-sep", "ket-product", "rho-diag", "mixed-max") and N > 1e-9:
                            return f"reference: separable state with negativity {N}"
                        if ket:
                            s_ = np.sqrt(np.clip(evals_psd(ptrace(rho, dims, sysa)), 0, None))
                            if abs(N - ((s_.sum()) ** 2 - 1) / 2) > 1e-6:
                                return "reference: pure-state negativity != ((sum of Schmidt coefficients)^2 - 1)/2"
                            e = first(scalar_close(qu.negativity(qu.qarray(rho), dims, sa_arg), N, "negativity(projector of the ket)",
                                                   tol=1e-7),
                                      scalar_close(qu.logneg(qu.qarray(rho), dims, sa_arg), LN, "logneg(projector of the ket)",
                                                   tol=1e-7))
                            if e:
                                return e
                        if sysb:
                            e = scalar_close(qu.negativity(xq(), dims, sysb), N, "negativity(A<->B)", tol=tl, rel=False)
                            if e:
                                return e
                        y = U @ np.asarray(x) if ket else U @ rho @ U.conj().T
                        e = scalar_close(qu.logneg(qu.qarray(y), dims, sa_arg), LN, "logneg(local unitaries)", tol=tl, rel=False)
                        if e:
                            return e
                        nd = [dims[q] for q in perm]
                        ns = tuple(perm.index(q) for q in sysa)
                        return scalar_close(qu.negativity(qu.qarray(permute_sys(x, dims, perm)), nd, ns), N,
                                            "negativity(relabelled subsystems)", tol=tl, rel=False)

                    cx.check("negativity / logneg == trace norm of the partial transpose; bounds; symmetric; invariances; ket == projector",
                             p, t_neg)

                if ket and n >= 2:
                    pairs = []
                    for sysa in subsets(n):
                        restq = [q for q in range(n) if q not in sysa]
                        for k in range(1, len(restq) + 1):
                            for sysb in itertools.combinations(restq, k):
                                pairs.append((sysa, sysb))
                    if len(pairs) > 8:
                        pairs = [pairs[int(q)] for q in rng.choice(len(pairs), size=8, replace=False)]
                    for sysa, sysb in pairs:
                        sa_arg, fa = pick_reorder(rng, sysa)
                        sb_arg, fb = pick_reorder(rng, sysb)
                        thr = (2 ** 13, None)[len(sysb) % 2]
                        p = dict(base, sysa=list(sysa), sysb=list(sysb), forms=fa + "/" + fb, approx_thresh=str(thr),
                                 dimA_is_1=bool(sz(dims, sysa) == 1),
                                 trivial_subsystem=bool(sz(dims, sysa) == 1 or sz(dims, sysb) == 1))

                        def t_lns(xq=xq, rho=rho, dims=dims, sysa=sysa, sysb=sysb, sa_arg=sa_arg, sb_arg=sb_arg, thr=thr):
                            kept = sorted(sysa + sysb)
                            rab = ptrace(rho, dims, kept)
                            nd = [dims[q] for q in kept]
                            ns = tuple(kept.index(q) for q in sysa)
                            ref = logneg_ref(rab, nd, ns)
                            e = scalar_close(qu.logneg_subsys(xq(), dims, sa_arg, sb_arg, approx_thresh=thr), ref, "logneg_subsys",
                                             tol=1e-6, rel=False)
                            if e:
                                return e
                            e = scalar_close(qu.logneg_subsys(xq(), dims, sb_arg, sa_arg, approx_thresh=thr), ref,
                                             "logneg_subsys(A<->B)", tol=1e-6, rel=False)
                            if e:
                                return e
                            return scalar_close(qu.logneg(qu.qarray(rab), nd, ns), ref, "logneg(reduced operator)", tol=1e-7)

                        cx.check("logneg_subsys(psi, A, B) == logneg of the reduced state rho_AB across A|B", p, t_lns)

                        def t_lazy(x=x, rho=rho, dims=dims, sysa=sysa, sysb=sysb):
                            A = lazy_ptr_linop(np.asarray(x), dims, sysa)
                            e = mat_close(A.to_dense(), ptrace(rho, dims, sysa), "lazy_ptr_linop (densified)")
                            if e:
                                return e
                            v = np.arange(1, sz(dims, sysa) + 1) * (1 + 0.5j)
                            e = mat_close(A @ v, ptrace(rho, dims, sysa) @ v, "lazy_ptr_linop @ v")
                            if e:
                                return e
                            kept = sorted(sysa + sysb)
                            nd = [dims[q] for q in kept]
                            ns = tuple(kept.index(q) for q in sysa)
                            R = ptranspose(ptrace(rho, dims, kept), nd, ns)
                            B = lazy_ptr_ppt_linop(np.asarray(x), dims, sysa, sysb)
                            return mat_close(B.to_dense(), R, "lazy_ptr_ppt_linop (densified)")

                        cx.check("lazy_ptr_linop / lazy_ptr_ppt_linop densified == reduced state / its partial transpose", p, t_lazy)


# ----------------------------------------------------------------------------------------------
# driver 3: fidelity, trace distance, purification
# ----------------------------------------------------------------------------------------------

@driver("C20", "distances", chunks=6, timeout=200,
        bound="pairs of states on d = 1..36 (kets, rank-1 .. full-rank operators, commuting pairs, identical states, orthogonal "
              "states): fidelity (ket/ket, ket/op, op/ket, op/op, squared) and trace_distance (all combinations, isherm both) vs "
              "svd-based formulas: tol 1e-9 (full rank, well conditioned) and 1e-6 (rank-deficient: sqrt is not Lipschitz at 0, "
              "a clipped eigen-decomposition reaches d*sqrt(eps)); symmetry, range, Fuchs-van de Graaf, unitary invariance, ket "
              "vs projector; purify: partial trace gives the state back")
def distances(cx):
    import scipy.sparse as sp

    import quimb as qu

    rng = cx.rng
    ds = [1, 2, 3, 4, 5, 6, 8, 9, 12] if cx.quick else [1, 2, 3, 4, 5, 6, 7, 8, 9, 10, 12, 16, 18, 24, 36]
    kinds = ("ket", "ket-real", "rho-r1", "rho-low", "rho-full", "rho-diag", "rho-eig")
    reps_per = 1 if cx.quick else 5
    for d in ds:
        for k1, k2 in itertools.product(kinds, kinds):
            for rep_i in range(reps_per):
                if not cx.mine():
                    continue
                if cx.out_of_time():
                    cx.inconclusive.append("distances: time budget exhausted")
                    return
                a = make_state(rng, [d], k1)
                rel = ("indep", "indep", "same", "commuting", "orthogonal")[int(rng.integers(0, 5))]
                if rel == "same":
                    b = a.copy()
                    k2_ = k1
                elif rel == "commuting" and not is_ket(a) and d > 1:
                    lam, v = np.linalg.eigh(a)
                    pb = rng.dirichlet(np.ones(d))
                    b = (v * pb) @ v.conj().T
                    k2_ = "rho-full"
                elif rel == "orthogonal" and d > 1:
                    # supports of a and b orthogonal
                    U = rand_unitary(rng, d)
                    r1 = int(rng.integers(1, d))
                    pa, pb = np.zeros(d), np.zeros(d)
                    pa[:r1] = rng.dirichlet(np.ones(r1))
                    pb[r1:] = rng.dirichlet(np.ones(d - r1))
                    a, b = (U * pa) @ U.conj().T, (U * pb) @ U.conj().T
                    if r1 == 1 and rng.integers(0, 2):
                        a = U[:, [0]]
                    k2_ = "rho-low"
                else:
                    b = make_state(rng, [d], k2)
                    k2_ = k2
                    rel = "indep"
                ka, kb = is_ket(a), is_ket(b)
                ra, rb = dm(a), dm(b)
                rank_a = int((evals_psd(ra) > 1e-12).sum())
                rank_b = int((evals_psd(rb) > 1e-12).sum())
                deficient = bool(rank_a < d or rank_b < d)
                path = ("ket" if ka else "op") + "/" + ("ket" if kb else "op")
                rep = ("qarray", "ndarray")[(d + rep_i) % 2]
                p = dict(d=d, a=k1, b=k2_, relation=rel, path=path, rank_deficient=deficient, rep=rep, r=rep_i)
                aq = lambda a=a, rep=rep: as_rep(qu, sp, a, rep)  # noqa: E731
                bq = lambda b=b, rep=rep: as_rep(qu, sp, b, rep)  # noqa: E731
                U = rand_unitary(rng, d)
                tol = 1e-6 if deficient else 1e-9

                def t_fid(aq=aq, bq=bq, ra=ra, rb=rb, tol=tol, rel=rel, ka=ka, kb=kb, a=a, b=b, U=U):
                    F = fidelity_ref(ra, rb)
                    if not (-1e-9 <= F <= 1 + 1e-9):
                        return f"reference fidelity {F} outside [0,1]"
                    if rel == "same" and abs(F - 1) > 1e-7:
                        return "reference: F(a,a) != 1"
                    if rel == "orthogonal" and F > 1e-7:
                        return "reference: orthogonal supports with F > 0"
                    e = first(scalar_close(qu.fidelity(aq(), bq()), F, "fidelity", tol=tol, rel=False),
                              scalar_close(qu.fidelity(bq(), aq()), F, "fidelity(b, a)", tol=tol, rel=False),
                              scalar_close(qu.fidelity(aq(), bq(), squared=True), F ** 2, "fidelity(squared=True)", tol=tol, rel=False))
                    if e:
                        return e
                    ua = U @ a if ka else U @ a @ U.conj().T
                    ub = U @ b if kb else U @ b @ U.conj().T
                    return scalar_close(qu.fidelity(qu.qarray(ua), qu.qarray(ub)), F, "fidelity(U a, U b)", tol=tol, rel=False)

                cx.check("fidelity == tr sqrt(sqrt(a) b sqrt(a)); symmetric; squared option; unitary invariant", p, t_fid)
                if ka or kb:
                    def t_fid_proj(aq=aq, bq=bq, ra=ra, rb=rb, tol=tol):
                        F = fidelity_ref(ra, rb)
                        return scalar_close(qu.fidelity(qu.qarray(ra), qu.qarray(rb)), F, "fidelity(projectors of the kets)", tol=tol,
                                            rel=False)

                    cx.check("fidelity with kets replaced by their projectors (operator path) == same value",
                             dict(p, path="op/op", rank_deficient=True, projector_of_ket=True), t_fid_proj)

                for herm in (True, False):
                    def t_td(aq=aq, bq=bq, ra=ra, rb=rb, herm=herm, rel=rel, ka=ka, kb=kb, a=a, b=b, U=U):
                        T = trace_norm(ra - rb) / 2
                        F = fidelity_ref(ra, rb)
                        if not (1 - F - 1e-7 <= T <= math.sqrt(max(0.0, 1 - F ** 2)) + 1e-7):
                            return f"reference violates Fuchs-van de Graaf: T={T}, F={F}"
                        # sqrt(1 - |<a|b>|^2) loses half the digits near T = 0: absolute tolerance 1e-7 there
                        tol_ = 1e-7  # (was 2e-8: sqrt of a rounding error of 2 ulp is already 2.1e-8 -- seen once the ket/ket path stopped raising for overlap 1)
                        e = first(scalar_close(qu.trace_distance(aq(), bq(), isherm=herm), T, "trace_distance", tol=tol_, rel=False),
                                  scalar_close(qu.trace_distance(bq(), aq(), isherm=herm), T, "trace_distance(b, a)", tol=tol_, rel=False))
                        if e:
                            return e
                        e = scalar_close(qu.trace_distance(qu.qarray(ra), qu.qarray(rb), isherm=herm), T,
                                         "trace_distance(projectors)", tol=tol_, rel=False)
                        if e:
                            return e
                        ua = U @ a if ka else U @ a @ U.conj().T
                        ub = U @ b if kb else U @ b @ U.conj().T
                        return scalar_close(qu.trace_distance(qu.qarray(ua), qu.qarray(ub), isherm=herm), T, "trace_distance(U a, U b)",
                                            tol=tol_, rel=False)

                    ov1 = bool(ka and kb and abs(np.vdot(a, b)) ** 2 >= 1 - 1e-12)
                    cx.check("trace_distance == ||a - b||_1 / 2; symmetric; in [1-F, sqrt(1-F^2)]; unitary invariant; ket == projector",
                             dict(p, isherm=herm, kets_overlap_one=ov1), t_td)

                if not ka and rep_i == 0 and k2 == kinds[0]:
                    def t_pur(aq=aq, ra=ra, d=d):
                        psi = qu.purify(aq())
                        v = np.asarray(psi)
                        if v.shape != (d * d, 1):
                            return f"purify: shape {v.shape} != {(d * d, 1)}"
                        if abs(np.linalg.norm(v) - 1) > 1e-9:
                            return f"purify: norm {np.linalg.norm(v)}"
                        return mat_close(ptrace(v, [d, d], [0]), ra, "partial trace of purify(rho) over the ancilla", tol=1e-9)

                    cx.check("purify(rho): normalised ket on d x d whose reduced state on the first factor is rho", p, t_pur)


# ----------------------------------------------------------------------------------------------
# driver 4: two-qubit measures: concurrence, one-way classical information, quantum discord
# ----------------------------------------------------------------------------------------------

def _werner(pw):
    psi = np.array([0, 1, -1, 0], dtype=complex).reshape(-1, 1) / math.sqrt(2)
    return pw * dm(psi) + (1 - pw) * np.eye(4) / 4


@driver("C20", "two-qubit", chunks=6, timeout=240,
        bound="two-qubit states (random kets, rank 1..4 operators, separable, Werner, Bell-diagonal, X states, classical-quantum) "
              "alone or embedded in 3-4 subsystems (dims with product <= 36) at ordered / reversed (sysa, sysb): concurrence vs "
              "Wootters' formula (tol 1e-7), one_way_classical_information vs direct evaluation, quantum_discord vs grid + "
              "Nelder-Mead minimisation over projective measurements on B (tol 1e-5), analytic values (Bell, product, Werner), "
              "local-unitary invariance, ket vs projector")
def two_qubit(cx):
    import scipy.sparse as sp

    import quimb as qu

    rng = cx.rng
    ncases = 40 if cx.quick else 300
    kinds = ("ket", "ket-real", "ket-product", "rho-r1", "rho-low", "rho-full", "rho-sep", "werner", "belldiag", "xstate", "cq", "bell")
    for i in range(ncases * cx.nchunks):
        if not cx.mine():
            continue
        if cx.out_of_time():
            cx.inconclusive.append("two-qubit: time budget exhausted")
            return
        kind = kinds[i % len(kinds)]
        pw = None
        if kind == "werner":
            pw = float(np.round(rng.uniform(0, 1), 3))
            x2 = _werner(pw)
        elif kind == "belldiag":
            c = rng.dirichlet(np.ones(4))
            bells = [np.array(v, dtype=complex).reshape(-1, 1) / math.sqrt(2) for v in
                     ([0, 1, -1, 0], [0, 1, 1, 0], [1, 0, 0, -1], [1, 0, 0, 1])]
            x2 = sum(ci * dm(b) for ci, b in zip(c, bells))
        elif kind == "xstate":
            r = rand_rho(rng, 4, 4)
            m = np.zeros((4, 4), dtype=complex)
            for (a_, b_) in ((0, 0), (1, 1), (2, 2), (3, 3), (0, 3), (3, 0), (1, 2), (2, 1)):
                m[a_, b_] = r[a_, b_]
            x2 = m / np.trace(m).real
        elif kind == "cq":
            # classical on B: sum_j p_j rho_j (x) |j><j| in a random basis of B -> zero discord D(A|B)
            Ub = rand_unitary(rng, 2)
            pj = rng.dirichlet(np.ones(2))
            x2 = sum(pj[j] * np.kron(rand_rho(rng, 2, 2), dm(Ub[:, [j]])) for j in range(2))
        elif kind == "bell":
            x2 = np.array([[1, 0, 0, 1], [0, 1, 1, 0], [0, 1, -1, 0], [1, 0, 0, -1]][i % 4], dtype=complex).reshape(-1, 1) / math.sqrt(2)
        else:
            x2 = make_state(rng, [2, 2], kind)
        ket = is_ket(x2)
        # optionally embed the pair into a larger system: the state is (pair) (x) (random environment state), subsystems
        # then permuted so that A = sysa, B = sysb
        emb = ("none", "none", "3", "4")[int(rng.integers(0, 4))]
        if emb == "none":
            dims, sysa, sysb, x = [2, 2], 0, 1, x2
            if rng.integers(0, 3) == 0:
                # reversed roles inside the bare pair
                sysa, sysb = 1, 0
                x = permute_sys(x2, [2, 2], [1, 0])
        else:
            env_dims = [[2], [3], [1]][int(rng.integers(0, 3))] if emb == "3" else [[2, 2], [3, 2], [1, 3]][int(rng.integers(0, 3))]
            env = make_state(rng, env_dims, "ket" if ket else "rho-low")
            full = np.kron(x2, env) if ket else np.kron(dm(x2), dm(env))
            ndim = 2 + len(env_dims)
            pos = [int(q) for q in rng.permutation(ndim)]  # new subsystem q is old subsystem pos[q]
            dims0 = [2, 2] + env_dims
            dims = [dims0[q] for q in pos]
            x = permute_sys(full, dims0, pos)
            sysa, sysb = pos.index(0), pos.index(1)
        rep = REPS[i % 3]
        if rep == "sparse" and not ket:
            rep = "qarray"
        p = dict(i=i, state=kind, dims=dims, has_dim1=bool(1 in dims), sysa=sysa, sysb=sysb, reversed=bool(sysa > sysb), rep=rep,
                 input=("sparse-" if rep == "sparse" else "") + ("ket" if ket else "op"))
        xq = lambda x=x, rep=rep: as_rep(qu, sp, x, rep)  # noqa: E731
        rho2 = dm(x2)
        U2 = np.kron(rand_unitary(rng, 2), rand_unitary(rng, 2))

        def t_conc(xq=xq, rho2=rho2, dims=dims, sysa=sysa, sysb=sysb, kind=kind, pw=pw, ket=ket, x2=x2, U2=U2):
            C = concurrence_ref(rho2)
            if kind == "werner" and abs(C - max(0.0, (3 * pw - 1) / 2)) > 1e-9:
                return "reference: Werner concurrence != max(0, (3p-1)/2)"
            if kind == "bell" and abs(C - 1) > 1e-9:
                return "reference: Bell state concurrence != 1"
            if kind in ("ket-product", "rho-sep", "cq") and C > 1e-7:
                return f"reference: separable state with concurrence {C}"
            if ket:
                v = np.asarray(x2).reshape(-1)
                if abs(C - 2 * abs(v[0] * v[3] - v[1] * v[2])) > 1e-7:
                    return "reference: pure-state concurrence != 2|ad - bc|"
            e = scalar_close(qu.concurrence(xq(), dims, sysa, sysb), C, "concurrence", tol=1e-7, rel=False)
            if e:
                return e
            e = scalar_close(qu.concurrence(qu.qarray(rho2)), C, "concurrence(two-qubit operator)", tol=1e-7, rel=False)
            if e:
                return e
            y = U2 @ np.asarray(x2) if ket else U2 @ rho2 @ U2.conj().T
            return scalar_close(qu.concurrence(qu.qarray(y)), C, "concurrence(local unitaries)", tol=1e-7, rel=False)

        cx.check("concurrence == Wootters formula of the reduced pair; analytic values; local-unitary invariant; ket == projector", p,
                 t_conc)

        th, ph = float(rng.uniform(0, math.pi)), float(rng.uniform(0, 2 * math.pi))

        def t_owci(rho2=rho2, th=th, ph=ph):
            nv = np.array([math.sin(th) * math.cos(ph), math.sin(th) * math.sin(ph), math.cos(th)])
            P0 = (PI2 + nv[0] * PX + nv[1] * PY + nv[2] * PZ) / 2
            ref = vn_entropy(ptrace(rho2, [2, 2], [0])) - cond_entropy_after_measurement(rho2, th, ph)
            got = qu.one_way_classical_information(qu.qarray(rho2), (qu.qarray(P0), qu.qarray(PI2 - P0)))
            e = scalar_close(got, ref, "one_way_classical_information", tol=1e-8, rel=False)
            if e:
                return e
            f = qu.one_way_classical_information(qu.qarray(rho2), None, precomp_func=True)
            return scalar_close(f((qu.qarray(P0), qu.qarray(PI2 - P0))), ref, "one_way_classical_information(precomp_func)", tol=1e-8,
                                rel=False)

        if np.all(evals_psd(rho2) > 1e-6) or ket:
            cx.check("one_way_classical_information == S(A) - sum_j p_j S(rho_A|j) for a projective measurement on B", p, t_owci)

        if i % 2 == 0 or not cx.quick:
            # does a local optimiser started at the default point (pi/2, pi) reach the global optimum of the textbook
            # objective?  (independent classification of the states on which a single-start search is not enough)
            from scipy.optimize import minimize as _minimize

            _glob = discord_ref(rho2)
            _r = _minimize(lambda a_: cond_entropy_after_measurement(rho2, a_[0], a_[1]), (math.pi / 2, math.pi), method="COBYLA",
                           bounds=((0, math.pi), (0, 2 * math.pi)), tol=1e-12, options=dict(maxiter=2 ** 14))
            _sa = vn_entropy(ptrace(rho2, [2, 2], [0]))
            _iab = _sa + vn_entropy(ptrace(rho2, [2, 2], [1])) - vn_entropy(rho2)
            _stall = abs((_iab - (_sa - _r.fun)) - _glob) > 1e-6
            if not _stall:
                # the library's own search follows a numerically slightly different path (objective shifted by a constant,
                # projectors built by bloch_state): the class of states on which a single local search can stall is "the
                # measurement landscape has a local minimum above the global one", probed from six further fixed starts
                for _s in ((0.3, 0.5), (2.8, 0.5), (1.0, 2.0), (2.0, 4.0), (1.5, 5.5), (0.7, 3.6)):
                    _q = _minimize(lambda a_: cond_entropy_after_measurement(rho2, a_[0], a_[1]), _s, method="COBYLA",
                                   bounds=((0, math.pi), (0, 2 * math.pi)), tol=1e-10, options=dict(maxiter=2 ** 12))
                    if abs((_iab - (_sa - _q.fun)) - _glob) > 1e-6:
                        _stall = True
                        break
            p = dict(p, single_start_suboptimal=bool(_stall))

            def t_disc(xq=xq, rho2=rho2, dims=dims, sysa=sysa, sysb=sysb, kind=kind, ket=ket, D=_glob):
                if ket and abs(D - vn_entropy(ptrace(rho2, [2, 2], [0]))) > 1e-6:
                    return "reference: pure-state discord != entanglement entropy"
                if kind in ("cq", "ket-product") and abs(D) > 1e-6:
                    return f"reference: classical-quantum state with discord {D}"
                if D < -1e-7:
                    return "reference: negative discord"
                return scalar_close(qu.quantum_discord(xq(), dims, sysa, sysb), D, "quantum_discord", tol=1e-5, rel=False)

            cx.check("quantum_discord == I(A:B) - max over projective measurements on B of the classical information", p, t_disc)


# ----------------------------------------------------------------------------------------------
# driver 5: Kraus maps, projectors, measurement, counts, dephasing
# ----------------------------------------------------------------------------------------------

@driver("C20", "maps-and-measurement", chunks=4, timeout=200,
        bound="kraus_op (random channels with 1..4 Kraus operators, full system or on subsystems `where` of dims with product <= 36, "
              "ordered / reversed / non-contiguous, check=True), projector (degenerate spectra, eigendecomposition input), measure "
              "(kets and operators, chosen eigenvalue and random outcome), simulate_counts (qubits and qutrits), dephase (full and "
              "random-rank): vs explicit matrix formulas (tol 1e-10)")
def maps_and_measurement(cx):
    import scipy.sparse as sp

    import quimb as qu

    rng = cx.rng
    ncases = 80 if cx.quick else 500
    dims_list = [[2], [3], [2, 2], [2, 3], [3, 2], [2, 2, 2], [2, 3, 2], [1, 4], [2, 1, 2], [3, 3], [2, 2, 3], [2, 2, 2, 2], [4, 3, 3],
                 [6, 6], [5], [2, 3, 1, 2]]
    for i in range(ncases * cx.nchunks):
        if not cx.mine():
            continue
        if cx.out_of_time():
            cx.inconclusive.append("maps-and-measurement: time budget exhausted")
            return
        dims = dims_list[int(rng.integers(0, len(dims_list)))]
        n = len(dims)
        D = int(np.prod(dims))
        kind = (KET_KINDS + RHO_KINDS)[int(rng.integers(0, len(KET_KINDS + RHO_KINDS)))]
        x = make_state(rng, dims, kind)
        ket = is_ket(x)
        rho = dm(x)
        rep = ("qarray", "ndarray")[i % 2]
        base = dict(i=i, dims=dims, state=kind, rep=rep)

        # ---------------- kraus_op
        k = int(rng.integers(1, n + 1))
        where = [int(q) for q in rng.choice(n, size=k, replace=False)]
        dw = sz(dims, where)
        nk = int(rng.integers(1, 5))
        tp = bool(rng.integers(0, 3) > 0)
        if tp:
            # a random isometry (nk*dw x dw) cut into Kraus operators
            g = rng.normal(size=(nk * dw, dw)) + 1j * rng.normal(size=(nk * dw, dw))
            q_, _ = np.linalg.qr(g)
            Ek = [q_[j * dw:(j + 1) * dw, :] for j in range(nk)]
        else:
            Ek = [rng.normal(size=(dw, dw)) + 1j * rng.normal(size=(dw, dw)) for _ in range(nk)]
        ek_form = ("list", "array")[int(rng.integers(0, 2))]
        pk = dict(base, where=where, nk=nk, trace_preserving=tp, ek=ek_form, reordered=bool(where != sorted(where)))

        def t_kraus(rho=rho, Ek=Ek, dims=dims, where=where, tp=tp, ek_form=ek_form, rep=rep):
            ref = sum(embed_op(E, dims, where) @ rho @ embed_op(E, dims, where).conj().T for E in Ek)
            Eq = np.stack(Ek) if ek_form == "array" else [np.array(E) for E in Ek]
            got = qu.kraus_op(as_rep(qu, sp, rho, rep), Eq, dims=dims, where=where, check=tp)
            e = mat_close(got, ref, "kraus_op(dims, where)")
            if e:
                return e
            if tp and abs(np.trace(np.asarray(got)) - 1) > 1e-9:
                return "trace not preserved by a complete set of Kraus operators"
            if len(where) == len(dims) and where == sorted(where):
                got2 = qu.kraus_op(as_rep(qu, sp, rho, rep), Eq, check=tp)
                e = mat_close(got2, ref, "kraus_op (whole system, no dims)")
            if len(where) == 1:
                got3 = qu.kraus_op(as_rep(qu, sp, rho, rep), Eq, dims=dims, where=where[0])
                e = e or mat_close(got3, ref, "kraus_op(where=int)")
            return e

        cx.check("kraus_op == sum_k E_k rho E_k^+ with E_k embedded on the subsystems `where` (in that order)", pk, t_kraus)
        if not tp:
            def t_kraus_chk(rho=rho, Ek=Ek, dims=dims, where=where):
                S = sum(E.conj().T @ E for E in Ek)
                if np.abs(S - np.eye(S.shape[0])).max() < 1e-6:
                    return None
                try:
                    qu.kraus_op(qu.qarray(rho), np.stack(Ek), dims=dims, where=where, check=True)
                except ValueError:
                    return None
                return "check=True accepted Kraus operators with sum E+E != 1"

            cx.check("kraus_op(check=True) raises for an incomplete set", pk, t_kraus_chk)

        # ---------------- projector / measure on the whole space
        # observable with a prescribed, possibly degenerate spectrum
        levels = [float(v) for v in rng.choice([-1.0, 0.0, 0.5, 1.0, 2.0], size=min(D, int(rng.integers(1, 4))), replace=False)]
        spec = np.array([levels[int(q)] for q in rng.integers(0, len(levels), size=D)])
        spec[: len(levels)] = levels
        V = rand_unitary(rng, D) if rng.integers(0, 4) else np.eye(D, dtype=complex)
        A = (V * spec) @ V.conj().T
        lam = levels[int(rng.integers(0, len(levels)))]
        pm = dict(base, nlevels=len(levels), eig=lam, diagonal_observable=bool(np.allclose(V, np.eye(D))))
        eig_input = bool(rng.integers(0, 3) == 0)

        def ref_proj(lam_):
            cols = V[:, np.abs(spec - lam_) < 1e-9]
            return cols @ cols.conj().T

        def t_proj(A=A, lam=lam, eig_input=eig_input, ref_proj=ref_proj, spec=spec):
            Aq = qu.qarray(A)
            if eig_input:
                el, ev = np.linalg.eigh(A)
                Aq = (el, qu.qarray(ev))
            P = qu.projector(Aq, eigenvalue=lam)
            e = mat_close(P, ref_proj(lam), "projector", tol=1e-9)
            if e:
                return e
            P0 = qu.projector(qu.qarray(A), eigenvalue=12345.0)
            return mat_close(P0, np.zeros_like(A), "projector onto an absent eigenvalue")

        cx.check("projector(A, eigenvalue) == orthogonal projector onto the whole eigenspace", dict(pm, eig_input=eig_input), t_proj)
        if D >= 4 and i % 3 == 0:
            # real symmetric observable made of two blocks (autoblock looks for the blocks)
            h = D // 2
            Ob = rng.normal(size=(D, D))
            Ob[:h, h:] = 0
            Ob = Ob + Ob.T
            lamb = float(np.linalg.eigvalsh(Ob)[int(rng.integers(0, D))])

            def t_proj_ab(Ob=Ob, lamb=lamb):
                el, ev = np.linalg.eigh(Ob)
                cols = ev[:, np.abs(el - lamb) < 1e-9]
                return mat_close(qu.projector(qu.qarray(Ob), eigenvalue=lamb, autoblock=True), cols @ cols.T,
                                 "projector(autoblock=True)", tol=1e-8)

            cx.check("projector(A, eigenvalue, autoblock=True) == projector from a plain eigen-decomposition (real symmetric A)",
                     dict(base, blocks=2), t_proj_ab)

        def t_meas(x=x, rho=rho, ket=ket, A=A, lam=lam, ref_proj=ref_proj, spec=spec, rep=rep, levels=levels, eig_input=eig_input, i=i):
            Aq = qu.qarray(A)
            if eig_input:
                el, ev = np.linalg.eigh(A)
                Aq = (el, qu.qarray(ev))
            probs = {lv: float(np.trace(ref_proj(lv) @ rho).real) for lv in levels}
            # deterministic collapse onto every level with non-zero probability
            for lv in levels:
                if probs[lv] < 1e-6:
                    continue
                P = ref_proj(lv)
                res, after = qu.measure(as_rep(qu, sp, x, rep), Aq, eigenvalue=lv)
                if abs(res - lv) > 1e-9:
                    return f"measure returned eigenvalue {res} != requested {lv}"
                want = (P @ np.asarray(x)) / math.sqrt(probs[lv]) if ket else P @ rho @ P / probs[lv]
                e = mat_close(after, want, f"post-measurement state (eigenvalue {lv})", tol=1e-8)
                if e:
                    return e
            # random outcome: an eigenvalue of non-zero probability and the matching collapse
            np.random.seed(1000 + i)
            res, after = qu.measure(as_rep(qu, sp, x, rep), Aq)
            lv = min(levels, key=lambda v: abs(v - res))
            if abs(lv - res) > 1e-8 or probs[lv] < 1e-12:
                return f"random outcome {res} is not an eigenvalue of non-zero probability ({probs})"
            P = ref_proj(lv)
            want = (P @ np.asarray(x)) / math.sqrt(probs[lv]) if ket else P @ rho @ P / probs[lv]
            return mat_close(after, want, "post-measurement state (random outcome)", tol=1e-7)

        cx.check("measure: outcome is an eigenvalue, state collapses to P psi / sqrt(p) or P rho P / p over the whole eigenspace",
                 dict(pm, eig_input=eig_input, input="ket" if ket else "op"), t_meas)

        # ---------------- simulate_counts
        for phys in (2, 3):
            nq = int(rng.integers(1, 5 if phys == 2 else 3))
            d_ = phys ** nq
            y = make_state(rng, [d_], ("ket", "ket-sparse", "rho-low", "rho-diag")[int(rng.integers(0, 4))])
            C = int(rng.choice([1, 10, 1000, 20000]))
            seed = int(rng.integers(0, 10 ** 6))

            def t_counts(y=y, C=C, seed=seed, phys=phys, nq=nq, d_=d_):
                res = qu.simulate_counts(qu.qarray(y), C, phys_dim=phys, seed=seed)
                if sum(res.values()) != C:
                    return f"counts sum to {sum(res.values())} != {C}"
                probs = np.diag(dm(y)).real
                for key, cnt in res.items():
                    if not isinstance(key, str) or len(key) != nq or any(ch not in "0123456789"[:phys] for ch in key):
                        return f"key {key!r} is not a base-{phys} string of length {nq}"
                    idx = int(key, phys)
                    if probs[idx] < 1e-14:
                        return f"outcome {key} has probability zero"
                    sig = math.sqrt(max(0.0, C * probs[idx] * (1 - probs[idx]))) + 1
                    if abs(cnt - C * probs[idx]) > 6 * sig:
                        return f"outcome {key}: {cnt} counts, expected {C * probs[idx]:.1f} +- {sig:.1f}"
                res2 = qu.simulate_counts(qu.qarray(y), C, phys_dim=phys, seed=seed)
                if res2 != res:
                    return "same seed, different counts"
                return None

            cx.check("simulate_counts: C outcomes labelled by base-phys_dim strings, frequencies ~ |amplitude|^2, seeded",
                     dict(i=i, phys_dim=phys, n=nq, C=C, state="ket" if is_ket(y) else "op"), t_counts)

        # ---------------- dephase
        pd_ = float(np.round(rng.uniform(0, 1), 3))
        rr = (None, D, 1.0, int(rng.integers(1, D + 1)), 0.5)[int(rng.integers(0, 5))]

        def t_deph(rho=rho, pd_=pd_, rr=rr, D=D, rep=rep, i=i):
            np.random.seed(77 + i)
            got = np.asarray(qu.dephase(as_rep(qu, sp, rho, rep), pd_, rand_rank=rr))
            if rr is None or rr == D or (isinstance(rr, float) and rr == 1.0):
                return mat_close(got, (1 - pd_) * rho + pd_ * np.eye(D) / D, "dephase")
            k_ = rr if isinstance(rr, int) else min(max(1, int(rr * D)), D)
            diff = got - (1 - pd_) * rho
            off = diff - np.diag(np.diag(diff))
            if np.abs(off).max() > 1e-12:
                return "dephase(rand_rank): the admixture is not diagonal"
            dg = np.diag(diff).real
            nz = dg[np.abs(dg) > 1e-14]
            if pd_ > 0 and (len(nz) != k_ or np.abs(nz - pd_ / k_).max() > 1e-12):
                return f"dephase(rand_rank={rr}): admixture has {len(nz)} entries {nz[:3]}, expected {k_} entries of {pd_ / k_:.4f}"
            return None

        cx.check("dephase == (1-p) rho + p * (identity/d, or a random diagonal state of the requested rank)",
                 dict(base, p=pd_, rand_rank=str(rr), rand_rank_int_one=bool(isinstance(rr, int) and rr == 1 and D > 1)), t_deph)


# ----------------------------------------------------------------------------------------------
# driver 6: decompositions, correlations, cross matrices, qid, degeneracy helpers, closed formulas
# ----------------------------------------------------------------------------------------------

BELLS = {  # documented enumeration of bell_state: 0 psi-, 1 psi+, 2 phi-, 3 phi+
    "0": np.array([0, 1, -1, 0], dtype=complex) / math.sqrt(2),
    "1": np.array([0, 1, 1, 0], dtype=complex) / math.sqrt(2),
    "2": np.array([1, 0, 0, -1], dtype=complex) / math.sqrt(2),
    "3": np.array([1, 0, 0, 1], dtype=complex) / math.sqrt(2),
}


@driver("C20", "decompositions-and-correlations", chunks=4, timeout=240,
        bound="pauli_decomp (1..3 qubits), bell_decomp (1..2 pairs), correlation (dims with product <= 36, every ordered pair of "
              "distinct subsystems, random hermitian A, B, dense / sparse operators, precomp_func), pauli_correlations (all options), "
              "ent_cross_matrix (2..5 qubits, block sizes 1-2, logneg / mutinf / negativity, calc_self_ent, upscale), qid, "
              "is_degenerate, is_eigenvector, page_entropy (formula and Monte-Carlo sanity), heisenberg_energy vs exact "
              "diagonalisation of the periodic chain (L = 6..12, relative 2e-3)")
def decompositions(cx):
    import scipy.sparse as sp

    import quimb as qu

    rng = cx.rng
    ncases = 90 if cx.quick else 600
    for i in range(ncases * cx.nchunks):
        if not cx.mine():
            continue
        if cx.out_of_time():
            cx.inconclusive.append("decompositions-and-correlations: time budget exhausted")
            return
        which = i % 9
        kind = (KET_KINDS + RHO_KINDS)[int(rng.integers(0, len(KET_KINDS + RHO_KINDS)))]
        rep = REPS[int(rng.integers(0, 3))]

        if which == 0:  # ---------------- pauli_decomp
            nq = int(rng.integers(1, 4))
            x = make_state(rng, [2] * nq, kind)
            generic = bool(rng.integers(0, 3) == 0)
            if generic:  # any operator, not only states
                x = rng.normal(size=(2 ** nq, 2 ** nq)) + 1j * rng.normal(size=(2 ** nq, 2 ** nq))
            if rep == "sparse" and not is_ket(x):
                rep = "ndarray"
            p = dict(i=i, fn="pauli_decomp", n=nq, state="operator" if generic else kind, rep=rep)

            def t_pd(x=x, nq=nq, rep=rep):
                res = qu.pauli_decomp(as_rep(qu, sp, x, rep), mode="c")
                A = dm(x)
                if len(res) != 4 ** nq:
                    return f"{len(res)} entries, expected {4 ** nq}"
                tot = np.zeros_like(A)
                prev = None
                for name, c in res.items():
                    if len(name) != nq or any(ch not in "IXYZ" for ch in name):
                        return f"bad name {name!r}"
                    P = np.ones((1, 1), dtype=complex)
                    for ch in name:
                        P = np.kron(P, PAULI[ch])
                    want = np.trace(P @ A) / 2 ** nq
                    if abs(c - want) > 1e-10:
                        return f"coefficient of {name}: {c} != tr(P a)/2^n = {want}"
                    if prev is not None and abs(c) > prev + 1e-12:
                        return "entries not sorted by decreasing magnitude"
                    prev = abs(c)
                    tot = tot + c * P
                return mat_close(tot, A, "sum_P c_P P")

            cx.check("pauli_decomp: c_P = tr(P a)/2^n for all 4^n strings, sorted by magnitude, sum c_P P == a", p, t_pd)

        elif which == 1:  # ---------------- bell_decomp
            npair = int(rng.integers(1, 3))
            x = make_state(rng, [4] * npair, kind)
            if rep == "sparse" and not is_ket(x):
                rep = "qarray"
            p = dict(i=i, fn="bell_decomp", pairs=npair, state=kind, rep=rep)

            def t_bd(x=x, npair=npair, rep=rep):
                res = qu.bell_decomp(as_rep(qu, sp, x, rep), mode="c")
                A = dm(x)
                if len(res) != 4 ** npair:
                    return f"{len(res)} entries, expected {4 ** npair}"
                tot = 0.0
                for name, c in res.items():
                    v = np.ones(1, dtype=complex)
                    for ch in name:
                        v = np.kron(v, BELLS[ch])
                    want = np.vdot(v, A @ v)
                    if abs(c - want) > 1e-10:
                        return f"overlap with Bell string {name}: {c} != <b|a|b> = {want}"
                    tot += c
                return scalar_close(tot, float(np.trace(A).real), "sum of Bell-basis populations == trace")

            cx.check("bell_decomp: population <b|a|b> of every product of Bell states (documented enumeration); populations sum to 1",
                     p, t_bd)

        elif which in (2, 3):  # ---------------- correlation / pauli_correlations
            if which == 2:
                dims = (DIMS_QUICK + DIMS_MORE)[int(rng.integers(0, len(DIMS_QUICK + DIMS_MORE)))]
                if len(dims) < 2:
                    dims = [2, 3]
            else:
                dims = [2] * int(rng.integers(2, 6))
            n = len(dims)
            x = make_state(rng, dims, kind)
            if rep == "sparse" and not is_ket(x):
                rep = "qarray"
            sa, sb = [int(q) for q in rng.choice(n, size=2, replace=False)]
            rho = dm(x)
            if which == 2:
                def herm(d):
                    g = rng.normal(size=(d, d)) + 1j * rng.normal(size=(d, d))
                    return g + g.conj().T

                A, B = herm(dims[sa]), herm(dims[sb])
                spops = bool(rng.integers(0, 2))
                sparse_opt = (None, True, False)[int(rng.integers(0, 3))]
                pre = bool(rng.integers(0, 2))
                default_dims = bool(all(d == 2 for d in dims) and rng.integers(0, 2))
                p = dict(i=i, fn="correlation", dims=dims, sysa=sa, sysb=sb, state=kind, rep=rep, sparse_ops=spops, sparse=str(sparse_opt),
                         precomp=pre, default_dims=default_dims,
                         ops_cover_all=bool(int(np.prod(dims)) == dims[sa] * dims[sb]))

                def t_corr(x=x, rho=rho, dims=dims, sa=sa, sb=sb, A=A, B=B, spops=spops, sparse_opt=sparse_opt, pre=pre, rep=rep,
                           default_dims=default_dims):
                    EA, EB = embed_op(A, dims, [sa]), embed_op(B, dims, [sb])
                    ref = (np.trace(rho @ EA @ EB) - np.trace(rho @ EA) * np.trace(rho @ EB)).real
                    Aq = sp.csr_matrix(A) if spops else qu.qarray(A)
                    Bq = sp.csr_matrix(B) if spops else qu.qarray(B)
                    kw = {} if default_dims else dict(dims=dims)
                    if pre:
                        f = qu.correlation(None, Aq, Bq, sa, sb, dims=dims, sparse=sparse_opt, precomp_func=True)
                        got = f(as_rep(qu, sp, x, rep))
                    else:
                        got = qu.correlation(as_rep(qu, sp, x, rep), Aq, Bq, sa, sb, sparse=sparse_opt, **kw)
                    return scalar_close(got, ref, "correlation", tol=1e-9)

                cx.check("correlation == <A_a B_b> - <A_a><B_b>", p, t_corr)
            else:
                ss = (("xx", "yy", "zz"), ("xz",), ("zy", "yx", "xx", "zz"), "xy")[int(rng.integers(0, 4))]
                sum_abs = bool(rng.integers(0, 2))
                pre = bool(rng.integers(0, 2))
                p_none = bool(pre and rng.integers(0, 2))  # documented: p is ignored when precomp_func=True
                p = dict(i=i, fn="pauli_correlations", n=n, sysa=sa, sysb=sb, state=kind, rep=rep, ss=str(ss), sum_abs=sum_abs,
                         precomp=pre, p_none=p_none)

                def t_pc(x=x, rho=rho, dims=dims, sa=sa, sb=sb, ss=ss, sum_abs=sum_abs, pre=pre, rep=rep, p_none=p_none):
                    pairs = [ss] if isinstance(ss, str) else list(ss)
                    refs = []
                    for s1, s2 in pairs:
                        EA, EB = embed_op(PAULI[s1.upper()], dims, [sa]), embed_op(PAULI[s2.upper()], dims, [sb])
                        refs.append((np.trace(rho @ EA @ EB) - np.trace(rho @ EA) * np.trace(rho @ EB)).real)
                    arg = (ss,) if isinstance(ss, str) else ss
                    got = qu.pauli_correlations(None if p_none else as_rep(qu, sp, x, rep), ss=arg, sysa=sa, sysb=sb, sum_abs=sum_abs,
                                                precomp_func=pre)
                    if pre:
                        got = got(as_rep(qu, sp, x, rep)) if sum_abs else tuple(f(as_rep(qu, sp, x, rep)) for f in got)
                    if sum_abs:
                        return scalar_close(got, float(sum(abs(r) for r in refs)), "pauli_correlations(sum_abs)", tol=1e-9)
                    if len(got) != len(refs):
                        return f"{len(got)} values for {len(refs)} operator pairs"
                    return first(*[scalar_close(g, r, f"pauli_correlations[{q}]", tol=1e-9) for q, (g, r) in enumerate(zip(got, refs))])

                cx.check("pauli_correlations == <s1_a s2_b> - <s1_a><s2_b> per pair (sum_abs / precomp_func options)", p, t_pc)

        elif which == 4:  # ---------------- ent_cross_matrix
            nq = int(rng.integers(2, 6))
            x = make_state(rng, [2] * nq, kind)
            blc = int(rng.integers(1, 3)) if nq >= 3 else 1
            fn_name = ("logneg", "mutinf", "negativity")[int(rng.integers(0, 3))]
            self_ent = bool(rng.integers(0, 2))
            upscale = bool(rng.integers(0, 2))
            if rep == "sparse":
                rep = "qarray"
            p = dict(i=i, fn="ent_cross_matrix", n=nq, sz_blc=blc, ent_fn=fn_name, calc_self_ent=self_ent, upscale=upscale, state=kind,
                     rep=rep)

            def t_ecm(x=x, nq=nq, blc=blc, fn_name=fn_name, self_ent=self_ent, upscale=upscale, rep=rep):
                rho = dm(x)
                dims = [2] * nq
                nb = nq // blc
                db = 2 ** blc

                def ent(r4):
                    if fn_name == "logneg":
                        return logneg_ref(r4, [db, db], [0])
                    if fn_name == "negativity":
                        return negativity_ref(r4, [db, db], [0])
                    return vn_entropy(ptrace(r4, [db, db], [0])) + vn_entropy(ptrace(r4, [db, db], [1])) - vn_entropy(r4)

                ref = np.full((nb, nb), np.nan)
                for a in range(nb):
                    for b in range(a, nb):
                        sa_ = list(range(a * blc, (a + 1) * blc))
                        sb_ = list(range(b * blc, (b + 1) * blc))
                        if a == b:
                            if not self_ent:
                                continue
                            # the block purified: entanglement between the block and its purifying partner
                            ra = ptrace(rho, dims, sa_)
                            lam, v = np.linalg.eigh(ra)
                            psi = sum(math.sqrt(max(l_, 0.0)) * np.kron(v[:, q], np.eye(db)[q]) for q, l_ in enumerate(lam))
                            val = ent(dm(psi.reshape(-1, 1)))
                        else:
                            val = ent(ptrace(rho, dims, sa_ + sb_))
                        ref[a, b] = ref[b, a] = val / blc
                if upscale:
                    ref = np.kron(ref, np.ones((blc, blc)))
                    if ref.shape[0] < nq:
                        full = np.full((nq, nq), np.nan)
                        full[: ref.shape[0], : ref.shape[0]] = ref
                        ref = full
                got = np.asarray(qu.ent_cross_matrix(as_rep(qu, sp, x, rep), sz_blc=blc, ent_fn=getattr(qu, fn_name),
                                                     calc_self_ent=self_ent, upscale=upscale))
                if got.shape != ref.shape:
                    return f"shape {got.shape} != {ref.shape}"
                if not np.array_equal(np.isnan(got), np.isnan(ref)):
                    return f"NaN pattern differs: got {np.isnan(got).astype(int).tolist()} expected {np.isnan(ref).astype(int).tolist()}"
                m = ~np.isnan(ref)
                if m.any() and np.abs(got[m] - ref[m]).max() > 2e-6:
                    return f"max abs diff {np.abs(got[m] - ref[m]).max():.2e}"
                return None

            cx.check("ent_cross_matrix[a,b] == ent_fn of the reduced pair of blocks / block size; diagonal = block vs its purification",
                     p, t_ecm)

        elif which == 5:  # ---------------- qid
            dims = [[2, 2], [2, 2, 2], [2, 3, 2], [3, 2], [2, 2, 2, 2]][int(rng.integers(0, 5))]
            x = make_state(rng, dims, kind)
            qubits = [q for q, d in enumerate(dims) if d == 2]
            inds = [int(q) for q in rng.choice(qubits, size=int(rng.integers(1, len(qubits) + 1)), replace=False)]
            if rep == "sparse":
                rep = "qarray"
            power, coeff = int(rng.integers(1, 3)), float(rng.choice([1.0, 0.5]))
            sparse_comp = bool(rng.integers(0, 2))
            pre = bool(rng.integers(0, 2))
            p = dict(i=i, fn="qid", dims=dims, inds=inds, state=kind, rep=rep, power=power, coeff=coeff, sparse_comp=sparse_comp, precomp=pre)

            def t_qid(x=x, dims=dims, inds=inds, rep=rep, power=power, coeff=coeff, sparse_comp=sparse_comp, pre=pre):
                rho = dm(x)
                ref = []
                for q in inds:
                    tot = 0.0
                    for P in (PX, PY, PZ):
                        E = embed_op(P, dims, [q])
                        tot += coeff * np.linalg.norm(rho @ E - E @ rho, 2) ** power
                    ref.append(tot)
                arg = inds[0] if len(inds) == 1 and pre else inds
                if pre:
                    got = qu.qid(None, dims, arg, precomp_func=True, sparse_comp=sparse_comp, power=power, coeff=coeff)(
                        as_rep(qu, sp, x, rep))
                else:
                    got = qu.qid(as_rep(qu, sp, x, rep), dims, arg, sparse_comp=sparse_comp, power=power, coeff=coeff)
                if len(got) != len(ref):
                    return f"{len(got)} values for {len(ref)} sites"
                return first(*[scalar_close(g, r, f"qid[{q}]", tol=1e-8) for q, (g, r) in enumerate(zip(got, ref))])

            cx.check("qid == sum_s coeff * ||[rho, sigma_s on the site]||_2^power per site", p, t_qid)

        elif which == 6:  # ---------------- is_degenerate / is_eigenvector
            d = int(rng.integers(2, 13))
            levels = np.sort(rng.normal(size=d))
            ndeg = int(rng.integers(0, d // 2 + 1))
            for q in rng.choice(d - 1, size=ndeg, replace=False):
                levels[q + 1] = levels[q]
            levels = np.sort(levels)
            V = rand_unitary(rng, d)
            A = (V * levels) @ V.conj().T
            p = dict(i=i, fn="is_degenerate", d=d, ndeg=ndeg)

            def t_deg(A=A, levels=levels, d=d):
                gaps = np.diff(levels)
                want = int((np.abs(gaps) < 1e-12 * (levels[-1] - levels[0]) / d).sum())
                e = None
                if int(qu.is_degenerate(levels)) != want:
                    e = f"is_degenerate(eigenvalues) = {qu.is_degenerate(levels)} != {want}"
                # through the operator the repeated levels are only equal to rounding: use a tolerance above it
                want2 = int((np.abs(gaps) < 1e-9 * (levels[-1] - levels[0]) / d).sum())
                got2 = int(qu.is_degenerate(qu.qarray(A), tol=1e-9))
                if e is None and got2 != want2:
                    e = f"is_degenerate(operator, tol=1e-9) = {got2} != {want2}"
                return e

            cx.check("is_degenerate == number of level spacings below tol * (spectral range / d)", p, t_deg)

            # spacings placed just below / above the documented threshold tol * range / d
            d2 = int(rng.integers(4, 13))
            tol2 = 1e-3
            lev2 = np.linspace(0.0, 1.0, d2)
            cs = {}
            for q in rng.choice(np.arange(1, d2 - 2), size=min(d2 - 3, int(rng.integers(1, 4))), replace=False):
                cs[int(q)] = float(rng.choice([0.3, 3.0]))
            for q, c_ in cs.items():
                lev2[q + 1] = lev2[q] + c_ * tol2 / d2 if q + 1 not in cs else lev2[q + 1]
            lev2 = np.sort(lev2)

            def t_deg2(lev2=lev2, d2=d2, tol2=tol2):
                want = int((np.diff(lev2) < tol2 * (lev2[-1] - lev2[0]) / d2).sum())
                got = int(qu.is_degenerate(lev2, tol=tol2))
                if got != want:
                    return f"is_degenerate(levels, tol={tol2}) = {got}, expected {want} (spacings {np.round(np.diff(lev2) * d2 / tol2, 2).tolist()} in units of the threshold)"
                return None

            cx.check("is_degenerate counts exactly the spacings below tol * range / d (spacings at 0.3x and 3x the threshold)",
                     dict(i=i, fn="is_degenerate", d=d2, near=sorted(cs.values())), t_deg2)

            vec_kind = ("eigen", "degenerate-mix", "generic", "near")[int(rng.integers(0, 4))]

            def t_eig(A=A, V=V, levels=levels, d=d, vec_kind=vec_kind):
                if vec_kind == "eigen":
                    v, want = V[:, [d // 2]], True
                elif vec_kind == "degenerate-mix":
                    same = np.where(np.abs(levels - levels[0]) < 1e-14)[0]
                    v = V[:, same] @ (np.arange(1, len(same) + 1) * (1 + 1j)).reshape(-1, 1)
                    v, want = v / np.linalg.norm(v), True
                elif vec_kind == "generic":
                    v = np.ones((d, 1), dtype=complex) / math.sqrt(d)
                    var = (np.vdot(v, A @ A @ v) - np.vdot(v, A @ v) ** 2).real
                    want = bool(abs(var) < 1e-14)
                    if 1e-15 < abs(var) < 1e-12:
                        return None
                else:
                    v = V[:, [0]] + 1e-3 * V[:, [d - 1]]
                    v = v / np.linalg.norm(v)
                    var = (np.vdot(v, A @ A @ v) - np.vdot(v, A @ v) ** 2).real
                    want = bool(abs(var) < 1e-14)
                    if 1e-15 < abs(var) < 1e-12:
                        return None
                got = bool(qu.is_eigenvector(qu.qarray(v), qu.qarray(A), tol=1e-13 if want else 1e-14))
                if got != want:
                    return f"is_eigenvector = {got}, expected {want} ({vec_kind})"
                return None

            cx.check("is_eigenvector == (variance of A in x below tol)", dict(i=i, fn="is_eigenvector", d=d, vector=vec_kind), t_eig)

        elif which == 7:  # ---------------- page_entropy
            m = int(rng.integers(1, 9))
            nn = int(rng.integers(m, 13))
            swap = bool(rng.integers(0, 2))
            p = dict(i=i, fn="page_entropy", sz_subsys=nn if swap else m, sz_total=m * nn)

            def t_page(m=m, nn=nn, swap=swap):
                # Page: S = sum_{k=n+1}^{mn} 1/k - (m-1)/(2n) nats for subsystem dimension m <= n
                ref = (sum(1.0 / k for k in range(nn + 1, m * nn + 1)) - (m - 1) / (2 * nn)) / math.log(2)
                e = scalar_close(qu.page_entropy(nn if swap else m, m * nn), ref, "page_entropy", tol=1e-10)
                if e:
                    return e
                if not (-1e-12 <= ref <= math.log2(m) + 1e-12):
                    return "reference Page entropy outside [0, log2 m]"
                return None

            cx.check("page_entropy == [sum_{k=n+1}^{mn} 1/k - (m-1)/(2n)] / ln 2 for the smaller subsystem m", p, t_page)

        else:  # ---------------- heisenberg_energy
            L = (6, 8, 10, 12)[int(rng.integers(0, 4 if not cx.quick else 3))]
            p = dict(i=i, fn="heisenberg_energy", L=L)

            def t_he(L=L):
                import scipy.sparse as sps
                from scipy.sparse.linalg import eigsh

                sx = sps.csr_matrix(np.array([[0, .5], [.5, 0]]))
                sy = sps.csr_matrix(np.array([[0, -.5j], [.5j, 0]]))
                szz = sps.csr_matrix(np.array([[.5, 0], [0, -.5]]))

                def site(op, q):
                    return sps.kron(sps.kron(sps.identity(2 ** q), op), sps.identity(2 ** (L - q - 1)), format="csr")

                H = sps.csr_matrix((2 ** L, 2 ** L), dtype=complex)
                for q in range(L):
                    r = (q + 1) % L
                    for op in (sx, sy, szz):
                        H = H + site(op, q) @ site(op, r)
                e0 = float(eigsh(H.real.astype(float) if abs(H.imag).max() < 1e-14 else H, k=1, which="SA", return_eigenvectors=False)[0])
                got = qu.heisenberg_energy(L)
                if abs(got - e0) > 2e-3 * abs(e0):
                    return f"heisenberg_energy({L}) = {got:.6f}, exact periodic chain {e0:.6f}"
                return None

            cx.check("heisenberg_energy(L) within 2e-3 (relative) of the exact ground energy of the periodic spin-1/2 chain", p, t_he)


# ----------------------------------------------------------------------------------------------
# driver 7: sparse inputs give the dense answer
# ----------------------------------------------------------------------------------------------

@driver("C20", "sparse-inputs", chunks=2, timeout=200,
        bound="every measure that takes a state, evaluated on scipy csr kets and csr density operators (dims [2,2], [2,3], [2,2,2], "
              "[3,4]) and compared with the plain-numpy reference (tolerances of the dense contracts)")
def sparse_inputs(cx):
    import scipy.sparse as sp

    import quimb as qu

    rng = cx.rng
    dims_list = [[2, 2], [2, 3], [2, 2, 2], [3, 4]]
    reps = 3 if cx.quick else 12
    for di, dims in enumerate(dims_list):
        for r_ in range(reps):
            for inp in ("sparse-ket", "sparse-op"):
                if not cx.mine():
                    continue
                D = int(np.prod(dims))
                n = len(dims)
                x = make_state(rng, dims, ("ket", "ket-sparse")[r_ % 2] if inp == "sparse-ket" else ("rho-low", "rho-full", "rho-diag")[r_ % 3])
                rho = dm(x)
                y = make_state(rng, dims, "rho-full")
                sysa = tuple(sorted(int(q) for q in rng.choice(n, size=int(rng.integers(1, n)), replace=False)))
                sysb = tuple(q for q in range(n) if q not in sysa)
                xs = lambda x=x: sp.csr_matrix(np.array(x))  # noqa: E731
                ys = lambda y=y: sp.csr_matrix(np.array(y))  # noqa: E731
                SA = lambda: vn_entropy(ptrace(rho, dims, sysa))  # noqa: E731
                # the measurement outcome (parity of the basis index) of larger probability
                lev = 1.0 if np.diag(rho).real[1::2].sum() >= 0.5 else 0.0
                table = {
                    "entropy": (lambda: qu.entropy(xs()), lambda: vn_entropy(rho), 1e-9, "op"),
                    "tr_sqrt": (lambda: qu.tr_sqrt(xs()), lambda: float(np.sqrt(np.clip(evals_psd(rho), 0, None)).sum()), 1e-6, "op"),
                    "mutinf": (lambda: qu.mutinf(xs(), dims, sysa),
                               lambda: SA() + vn_entropy(ptrace(rho, dims, sysb)) - vn_entropy(rho), 1e-8, "both"),
                    "entropy_subsys": (lambda: qu.entropy_subsys(xs(), dims, sysa), SA, 1e-9, "ket"),
                    "schmidt_gap": (lambda: qu.schmidt_gap(xs(), dims, sysa),
                                    lambda: float(np.diff(np.sort(evals_psd(ptrace(rho, dims, sysa)))[-2:])[0]), 1e-8, "ket"),
                    "partial_transpose": (lambda: qu.partial_transpose(xs(), dims, sysa), lambda: ptranspose(rho, dims, sysa), 1e-10, "both"),
                    "negativity": (lambda: qu.negativity(xs(), dims, sysa), lambda: negativity_ref(rho, dims, sysa), 1e-6, "both"),
                    "logneg": (lambda: qu.logneg(xs(), dims, sysa), lambda: logneg_ref(rho, dims, sysa), 1e-6, "both"),
                    "fidelity": (lambda: qu.fidelity(xs(), ys()), lambda: fidelity_ref(rho, y), 1e-6, "both"),
                    "trace_distance": (lambda: qu.trace_distance(xs(), ys()), lambda: trace_norm(rho - y) / 2, 1e-8, "both"),
                    "purify": (lambda: ptrace(np.asarray(qu.purify(xs())), [D, D], [0]), lambda: rho, 1e-9, "op"),
                    "kraus_op": (lambda: qu.kraus_op(xs(), [np.eye(D) * math.sqrt(0.5), np.fliplr(np.eye(D)) * math.sqrt(0.5)]),
                                 lambda: 0.5 * rho + 0.5 * np.fliplr(np.eye(D)) @ rho @ np.fliplr(np.eye(D)), 1e-10, "op"),
                    "measure": (lambda: qu.measure(xs(), qu.qarray(np.diag(np.arange(D) % 2).astype(complex)), eigenvalue=lev)[1],
                                lambda: (lambda P: (P @ np.asarray(x) / math.sqrt(np.trace(P @ rho).real)) if is_ket(x) else
                                         P @ rho @ P / np.trace(P @ rho).real)(np.diag((np.arange(D) % 2) == lev).astype(complex)), 1e-9,
                                "both"),
                    "simulate_counts": (lambda: sum(qu.simulate_counts(xs(), 50, seed=1).values()), lambda: 50, 0.5, "qubits"),
                    "dephase": (lambda: qu.dephase(xs(), 0.25), lambda: 0.75 * rho + 0.25 * np.eye(D) / D, 1e-10, "op"),
                    "pauli_decomp": (lambda: qu.pauli_decomp(xs(), mode="c")["I" * n], lambda: 1 / D, 1e-10, "qubits"),
                    "correlation": (lambda: qu.correlation(xs(), qu.qarray(np.diag(np.arange(dims[0])).astype(complex)),
                                                           qu.qarray(np.diag(np.arange(dims[-1])).astype(complex)), 0, n - 1, dims=dims),
                                    lambda: (lambda EA, EB: (np.trace(rho @ EA @ EB) - np.trace(rho @ EA) * np.trace(rho @ EB)).real)(
                                        embed_op(np.diag(np.arange(dims[0])), dims, [0]),
                                        embed_op(np.diag(np.arange(dims[-1])), dims, [n - 1])), 1e-9, "both"),
                    "ent_cross_matrix": (lambda: qu.ent_cross_matrix(xs())[0, 1],
                                         lambda: logneg_ref(ptrace(rho, dims, [0, 1]), [2, 2], [0]), 1e-6, "qubits"),
                    "is_eigenvector": (lambda: bool(qu.is_eigenvector(xs(), qu.qarray(rho))), lambda: True, 0.5, "ket"),
                }
                if dims == [2, 2]:
                    table["concurrence"] = (lambda: qu.concurrence(xs()), lambda: concurrence_ref(rho), 1e-7, "both")
                    table["quantum_discord"] = (lambda: qu.quantum_discord(xs()), lambda: discord_ref(rho), 1e-4, "both")
                for fn, (call, ref, tol, domain) in table.items():
                    if domain == "op" and inp != "sparse-op":
                        continue
                    if domain == "ket" and inp != "sparse-ket":
                        continue
                    if domain == "qubits" and any(d != 2 for d in dims):
                        continue

                    def t(call=call, ref=ref, tol=tol, fn=fn):
                        got, want = call(), ref()
                        if np.ndim(want) == 2:
                            return mat_close(got, want, fn, tol=tol)
                        return scalar_close(got, float(want), fn, tol=tol, rel=False)

                    cx.check("sparse input: the measure of a scipy-sparse state equals the plain-numpy reference",
                             dict(fn=fn, input=inp, dims=dims, r=r_), t)
