"""C19 bounded stand-in: every representation of one Hamiltonian equals an independent reference (explicit sum of
Kronecker products of textbook 2x2 matrices defined HERE), before / after Jordan-Wigner and Pauli rewrites, in
symmetry sectors; configuration ranking is a bijection of the right size; spin-chain MPO builders and matrix-side
generators agree with the model formula.

Conventions of the reference (textbook): basis index of a configuration = sum_i bit_i 2^(n-1-i) with i the register
(position in the Hilbert space's site order), i.e. the Kronecker order; bit 0 = |0> = spin up / empty.
x,y,z Pauli; sx,sy,sz = Pauli/2; '+' = |1><0| (creates), '-' = |0><1|; n = |1><1|; sn = n - 1/2; h = 1 - n;
'ZX' = z @ x = i y.  A term is coeff * (product, in the order written, of the embedded single-site operators);
Jordan-Wigner: every '+'/'-' on register r carries z on all registers < r.
"""

import itertools
import math

import numpy as np

from vf.rtc import driver

# ----------------------------------------------------------------------------------------------
# textbook matrices (defined here, never taken from quimb)
# ----------------------------------------------------------------------------------------------

_I = np.eye(2, dtype=complex)
_X = np.array([[0, 1], [1, 0]], dtype=complex)
_Y = np.array([[0, -1j], [1j, 0]], dtype=complex)
_Z = np.array([[1, 0], [0, -1]], dtype=complex)
_SP = np.array([[0, 0], [1, 0]], dtype=complex)  # |1><0|
_SM = np.array([[0, 1], [0, 0]], dtype=complex)  # |0><1|
_N = np.array([[0, 0], [0, 1]], dtype=complex)
ZX = "ⴵ"  # quimb's name for the real operator z @ x = i y
MATS = {
    "I": _I, "x": _X, "y": _Y, "z": _Z, ZX: _Z @ _X,
    "sx": _X / 2, "sy": _Y / 2, "sz": _Z / 2,
    "+": _SP, "-": _SM, "n": _N, "sn": _N - _I / 2, "h": _I - _N,
}
ALL_OPS = list(MATS)
DAGGER = {k: k for k in MATS}
DAGGER["+"], DAGGER["-"] = "-", "+"
# ZX is anti-hermitian: dagger = -ZX (sign goes to the coefficient)


def kron_all(mats):
    out = np.ones((1, 1), dtype=complex)
    for m in mats:
        out = np.kron(out, m)
    return out


def site_products(ops, reg_of, n, jw):
    """ordered per-register products of one term (ops = [(name, site), ...]); the product of the embedded
    operators in the written order equals the Kronecker product of these (mixed-product rule).
    returns (list of 2x2, list of operator counts per register)"""
    prods = [_I.copy() for _ in range(n)]
    counts = [0] * n
    for name, site in ops:
        r = reg_of[site]
        if jw and name in ("+", "-"):
            for q in range(r):
                prods[q] = prods[q] @ _Z
                counts[q] += 1
        prods[r] = prods[r] @ MATS[name]
        counts[r] += 1
    return prods, counts


def ref_matrix(terms, reg_of, n, jw=False):
    """explicit sum over terms of coeff * Kronecker product of textbook matrices"""
    D = 2 ** n
    out = np.zeros((D, D), dtype=complex)
    for coeff, ops in terms:
        prods, _ = site_products(ops, reg_of, n, jw)
        out += complex(coeff) * kron_all(prods)
    return out


def term_flags(terms, reg_of, n, jw):
    """independent classification of a term list:
    same_site_product : some register carries >= 2 operators in one term (after inserting JW strings)
    ssp_ratio_nonunit : ... and that product P = lambda * Q, Q the first proportional named operator in the documented
                        order of names, has lambda other than +-1 (the class hit by the inverted coefficient ratio
                        of simplify_single_site_ops; lambda = +-1 is its own inverse and must be clean)
    identity_coeff    : total coefficient of the terms that act as a multiple of the identity"""
    ssp = False
    nonunit = False
    idc = 0.0
    for coeff, ops in terms:
        prods, counts = site_products(ops, reg_of, n, jw)
        lam_tot = complex(coeff)
        is_id = True
        for P, c in zip(prods, counts):
            if c > 1:
                ssp = True
                if np.abs(P).max() > 1e-14:
                    for Q in MATS.values():  # first proportional name in the documented order of names
                        lam = np.vdot(Q, P) / np.vdot(Q, Q)
                        if abs(lam) > 1e-14 and np.abs(P - lam * Q).max() < 1e-12:
                            if min(abs(lam - 1), abs(lam + 1)) > 1e-9:
                                nonunit = True
                            break
            lam = P[0, 0]
            if np.abs(P - lam * _I).max() > 1e-12 or abs(lam) < 1e-14:
                is_id = False
            else:
                lam_tot *= lam
        if is_id:
            idc += lam_tot
    return ssp, nonunit, idc


def embed(M, regs, n):
    """embed the 2^k x 2^k matrix M acting on registers `regs` (in that order) into n qubits"""
    k = len(regs)
    rest = [r for r in range(n) if r not in regs]
    full = np.kron(np.asarray(M, dtype=complex), np.eye(2 ** (n - k)))
    t = full.reshape((2,) * (2 * n))
    cur = list(regs) + rest  # axis a of t (row part) currently carries register cur[a]
    perm = [cur.index(r) for r in range(n)]
    t = t.transpose(perm + [n + p for p in perm])
    return t.reshape(2 ** n, 2 ** n)


def _tol(*arrs):
    single = any(getattr(a, "dtype", None) in (np.dtype("float32"), np.dtype("complex64")) for a in arrs)
    return 3e-5 if single else 1e-10


def close(got, ref, what, tol=None):
    if got is None:
        return f"{what}: returned None"
    if hasattr(got, "toarray") and not isinstance(got, np.ndarray):
        got = got.toarray()
    got = np.asarray(got)
    ref = np.asarray(ref)
    if got.shape != ref.shape:
        return f"{what}: shape {got.shape} != reference {ref.shape}"
    if got.size == 0:
        return None
    if not np.all(np.isfinite(got)):
        return f"{what}: non-finite entries"
    t = (_tol(got) if tol is None else tol) * max(1.0, float(np.abs(ref).max()))
    d = float(np.abs(got - ref).max())
    if d > t:
        i = np.unravel_index(np.argmax(np.abs(got - ref)), ref.shape)
        return f"{what}: max abs diff {d:.3e} (tol {t:.1e}) at {tuple(int(j) for j in i)}: got {got[i]} ref {ref[i]}"
    return None


def real_if_real_dtype(got, ref, what):
    """a real result dtype is only legitimate when the reference operator is real"""
    dt = getattr(got, "dtype", None)
    if dt is not None and not np.issubdtype(dt, np.complexfloating) and np.abs(np.asarray(ref).imag).max() > 1e-12:
        return f"{what}: real dtype {dt} for an operator with imaginary part {np.abs(ref.imag).max():.2e}"
    return None


# ----------------------------------------------------------------------------------------------
# site labellings and orderings (the expected register order is computed HERE)
# ----------------------------------------------------------------------------------------------

LABELLINGS = ("range", "ints", "str", "coo", "species", "species3")
_STRS = ["a", "b", "c", "d", "e", "f", "g", "h", "site10", "site9", "A", "zz"]


def make_sites(rng, n, labelling):
    """n site labels in *supply* order (shuffled)"""
    if labelling == "range":
        sites = list(range(n))
        return sites  # range is supplied in natural order
    if labelling == "ints":
        sites = [int(i) for i in rng.choice(np.arange(-5, 40), size=n, replace=False)]
    elif labelling == "str":
        sites = [_STRS[i] for i in rng.choice(len(_STRS), size=n, replace=False)]
    elif labelling == "coo":
        grid = [(i, j) for i in range(3) for j in range(4)]
        sites = [grid[i] for i in rng.choice(len(grid), size=n, replace=False)]
    elif labelling == "species":
        na = n // 2 + int(rng.integers(0, 2)) * (n % 2)
        labs = [("↑", "↓"), ("a", "b"), ("u", "d")][int(rng.integers(0, 3))]
        sites = [(labs[0], i) for i in range(na)] + [(labs[1], i) for i in range(n - na)]
    elif labelling == "species3":
        # (species, x, y) coordinates
        na = n // 2
        coo = [(i, j) for i in range(3) for j in range(3)]
        sites = [("a",) + coo[int(i)] for i in rng.choice(9, size=na, replace=False)] + \
                [("b",) + coo[int(i)] for i in rng.choice(9, size=n - na, replace=False)]
    else:
        raise ValueError(labelling)
    perm = rng.permutation(n)
    return [sites[i] for i in perm]


def order_choices(labelling):
    base = ["none", "sorted", "seq", "key"]
    if labelling in ("species", "species3"):
        base += ["blocked", "interleaved"]
    return base


def apply_order(rng, sites, order_kind):
    """returns (order argument for HilbertSpace, expected register order)"""
    if order_kind == "none":
        return None, list(sites)
    if order_kind == "sorted":
        return True, sorted(sites)
    if order_kind == "seq":
        p = [sites[i] for i in rng.permutation(len(sites))]
        return list(p), list(p)
    if order_kind == "key":
        p = [sites[i] for i in rng.permutation(len(sites))]
        pos = {s: i for i, s in enumerate(p)}
        return pos.__getitem__, list(p)
    if order_kind == "blocked":
        return "blocked", sorted(sites, key=lambda s: (s[0], s[1:]))
    if order_kind == "interleaved":
        return "interleaved", sorted(sites, key=lambda s: (s[1:], s[0]))
    raise ValueError(order_kind)


# ----------------------------------------------------------------------------------------------
# term lists
# ----------------------------------------------------------------------------------------------

def rand_coeff(rng, cplx):
    k = int(rng.integers(0, 6))
    if k == 0:
        c = float(rng.integers(1, 4)) * (-1) ** int(rng.integers(0, 2))
        c = int(c) if rng.integers(0, 2) else c
    else:
        c = float(np.round(rng.normal(), 3)) or 0.5
    if cplx and rng.integers(0, 3) > 0:
        c = complex(c, float(np.round(rng.normal(), 3)))
    return c


def dagger_term(coeff, ops):
    sign = 1
    new = []
    for name, site in reversed(ops):
        if name == ZX:
            sign = -sign
        new.append((DAGGER[name], site))
    return sign * np.conj(coeff).item() if isinstance(coeff, complex) else sign * coeff, new


TERM_STYLES = ("spin", "pauli", "samesite", "fermi", "fermi_samesite", "mixed")


def gen_terms(rng, sites, style, nterms, maxloc, cplx, hermitian=False, repeats=True, allow_empty=True):
    n = len(sites)
    terms = []
    for _ in range(nterms):
        if style == "pauli":
            names = ["x", "y", "z"]
        elif style in ("fermi", "fermi_samesite"):
            names = ["+", "-", "+", "-", "n", "h", "sn", "z"]
        elif style == "mixed":
            names = ["+", "-", "n", "x", "y", "sx", "sy", "z", "sz", ZX]
        else:
            names = ALL_OPS
        lo = 0 if (allow_empty and rng.integers(0, 12) == 0) else 1
        k = int(rng.integers(lo, maxloc + 1))
        if style in ("samesite", "fermi_samesite", "mixed"):
            ss = [sites[i] for i in rng.integers(0, n, size=k)]
        else:
            k = min(k, n)
            ss = [sites[i] for i in rng.choice(n, size=k, replace=False)]
        ops = [(names[int(rng.integers(0, len(names)))], s) for s in ss]
        terms.append((rand_coeff(rng, cplx), ops))
    if repeats and terms:
        # the same operator string again (coefficients must add), possibly cancelling exactly
        for _ in range(int(rng.integers(0, 3))):
            c, ops = terms[int(rng.integers(0, len(terms)))]
            r = int(rng.integers(0, 3))
            terms.append((-c if r == 0 else rand_coeff(rng, cplx), list(ops)))
    if hermitian:
        terms = [t for c, ops in terms for t in ((c, ops), dagger_term(c, ops))]
    return terms


def jsonable_terms(terms):
    return [[str(c), [[o, str(s)] for o, s in ops]] for c, ops in terms]


# ----------------------------------------------------------------------------------------------
# driver 1: every representation of a random operator
# ----------------------------------------------------------------------------------------------

STYPES = ("coo", "csr", "csc", "bsr", "lil", "dok", "dia")


def _build(H_cls, terms, how, hs, ctor_kw):
    """construct a SparseOperatorBuilder through one of the public spellings"""
    if how == "ctor":
        return H_cls(terms=[(c, *[tuple(o) for o in ops]) for c, ops in terms], hilbert_space=hs, **ctor_kw)
    H = H_cls(hilbert_space=hs, **ctor_kw)
    for c, ops in terms:
        ops = [tuple(o) for o in ops]
        if how == "add":
            H.add_term(c, *ops)
        elif how == "iadd":
            H += (c, *ops)
        elif how == "isub":
            H -= (-c, *ops)
        elif how == "nocoeff" and c == 1 and ops:
            H.add_term(*ops)
        else:
            H.add_term(c, *ops)
    return H


@driver("C19", "builder-representations", chunks=8, timeout=200,
        bound="random term lists on 1..6 sites (thorough: ..7): 1-7 terms of locality 0..4 over all 13 named operators, real/"
              "complex/integer coefficients, repeated and exactly cancelling terms, several operators on one site, fermionic "
              "+/-/n strings; 6 site labellings x 6 orderings (or no Hilbert space); transforms none / Jordan-Wigner / Pauli "
              "(y or zx) / both, set by constructor or toggled; 5 construction spellings; dtypes {None,f32,f64,c64,c128} "
              "where compatible; every representation vs explicit sum of Kronecker products (tol 1e-10 double, 3e-5 single)")
def builder_representations(cx):
    import scipy.sparse as sp
    from scipy.sparse.linalg import LinearOperator

    from quimb.operator import HilbertSpace, SparseOperatorBuilder

    rng = cx.rng
    ncases = 44 if cx.quick else 700
    nmax = 6 if cx.quick else 7
    for i in range(ncases * cx.nchunks):
        if not cx.mine():
            continue
        if cx.out_of_time():
            cx.inconclusive.append("builder-representations: time budget exhausted")
            return
        # ------------------------------------------------------------------ the case
        n = int(rng.choice([1, 2, 2, 3, 3, 4, 4, 5, 6, nmax]))
        labelling = LABELLINGS[int(rng.integers(0, len(LABELLINGS)))]
        if labelling == "species3" and n > 6:
            n = 6
        supply = make_sites(rng, n, labelling)
        ochoices = order_choices(labelling) + ["nohs"]
        order_kind = ochoices[int(rng.integers(0, len(ochoices)))]
        style = TERM_STYLES[int(rng.integers(0, len(TERM_STYLES)))]
        cplx = bool(rng.integers(0, 2))
        hermitian = bool(rng.integers(0, 3) == 0)
        nterms = int(rng.integers(1, 8))
        maxloc = int(rng.integers(1, 5))
        terms = gen_terms(rng, supply, style, nterms, maxloc, cplx, hermitian=hermitian)
        jw = bool(rng.integers(0, 2)) if style in ("fermi", "fermi_samesite", "mixed") else bool(rng.integers(0, 6) == 0)
        pauli = [False, False, True, "zx"][int(rng.integers(0, 4))]
        how = ["ctor", "add", "iadd", "isub", "nocoeff"][int(rng.integers(0, 5))]
        toggle = bool(rng.integers(0, 2))  # transforms set through the toggle methods instead of the constructor
        if order_kind == "nohs":
            used = {s for _, ops in terms for _, s in ops}
            if not used:
                terms.append((1.5, [("z", supply[0])]))
                used = {supply[0]}
            order_arg, regs = None, sorted(used)
            n = len(regs)
        else:
            order_arg, regs = apply_order(rng, supply, order_kind)
        reg_of = {s: r for r, s in enumerate(regs)}
        D = 2 ** n
        xr = rng.normal(size=D)
        xc = rng.normal(size=D) + 1j * rng.normal(size=D)
        X2 = rng.normal(size=(D, 3)) + 1j * rng.normal(size=(D, 3))
        cfg_ranks = [int(r) for r in rng.integers(0, D, size=3)]
        extra = gen_terms(rng, regs, "spin", 2, min(2, n), cplx, repeats=False, allow_empty=False)
        ssp, nonunit, idc = term_flags(terms, reg_of, n, jw)
        ref0 = ref_matrix(terms, reg_of, n, jw)
        ident = (abs(np.trace(ref0)) / D > 1e-9) if pauli else (abs(idc) > 1e-9)
        zero_op = bool(np.abs(ref0).max() < 1e-12)
        is_cplx = bool(np.abs(ref0.imag).max() > 1e-12)
        is_herm = bool(np.abs(ref0 - ref0.conj().T).max() < 1e-12)
        is_symm = bool(np.abs(ref0 - ref0.T).max() < 1e-12)
        # may the processed term list contain complex coefficients / complex named operators?  (independent
        # over-approximation: complex input coefficient, y / sy, or a y-type Pauli component of + - ZX)
        names = {o for _, ops in terms for o, _ in ops}
        tmc = bool(any(isinstance(c, complex) for c, _ in terms) or names & {"y", "sy"}
                   or (pauli is True and names & {"+", "-", ZX}) or is_cplx)
        base = dict(i=i, n=n, labelling=labelling, order=order_kind, style=style, jw=jw, pauli=str(pauli), how=how,
                    toggle=toggle, same_site_product=ssp, ssp_ratio_nonunit=nonunit, identity_term=bool(ident),
                    zero_operator=zero_op)
        ctx = {}

        def mk(terms=terms, order_kind=order_kind, supply=supply, order_arg=order_arg, jw=jw, pauli=pauli, how=how,
               toggle=toggle, dtype=None):
            hs = None if order_kind == "nohs" else HilbertSpace(supply, order=order_arg)
            kw = {}
            if dtype is not None:
                kw["dtype"] = dtype
            if not toggle:
                H = _build(SparseOperatorBuilder, terms, how, hs, dict(jordan_wigner=jw, pauli_decompose=pauli, **kw))
            else:
                H = _build(SparseOperatorBuilder, terms, how, hs, kw)
                if jw:
                    H.jordan_wigner_transform()
                if pauli:
                    H.pauli_decompose(use_zx=(pauli == "zx"))
            return H

        def Hc(ctx=ctx, mk=mk):
            if "H" not in ctx:
                ctx["H"] = mk()
            return ctx["H"]

        ref = ref0
        nt = not zero_op

        # ------------------------------------------------------------------ dense
        def t_dense(Hc=Hc, ref=ref, regs=regs):
            H = Hc()
            if list(H.hilbert_space.sites) != list(regs):
                return f"site order {H.hilbert_space.sites} != expected {regs}"
            A = H.build_dense()
            return close(A, ref, "build_dense") or real_if_real_dtype(A, ref, "build_dense")

        cx.check("build_dense == sum of Kronecker products", base, t_dense, nontrivial=nt)

        # a real dtype is requested only when no term can carry a complex coefficient or operator
        def t_terms(Hc=Hc, ref=ref, reg_of=reg_of, n=n, pauli=pauli):
            H = Hc()
            tl = H.terms
            allowed = set(MATS) - {"I"}
            if pauli:
                allowed = {"x", "z", ZX if pauli == "zx" else "y"}
            for c, ops in tl:
                rs = [reg_of[s] for _, s in ops]
                if rs != sorted(set(rs)):
                    return f"processed term {ops}: registers {rs} not strictly increasing (one operator per site, sorted)"
                bad = [o for o, _ in ops if o not in allowed]
                if bad:
                    return f"processed term {ops}: operators {bad} not allowed (pauli_decompose={pauli})"
                if not abs(c) > 0:
                    return f"processed term {ops} with zero coefficient"
            if len({ops for _, ops in tl}) != len(tl) or H.nterms != len(tl):
                return "processed terms: repeated operator string / nterms mismatch"
            if H.locality != max([len(ops) for _, ops in tl] + [0]):
                return f"locality {H.locality}"
            return close(ref_matrix([(c, list(ops)) for c, ops in tl], reg_of, n, jw=False), ref,
                         "sum over the processed term list (H.terms)")

        cx.check("processed term list (H.terms): canonical form and same operator as the input terms", base, t_terms,
                 nontrivial=nt)

        dts = ["complex128", "complex64"] + ([] if tmc else ["float64", "float32"])
        dt = dts[i % len(dts)]

        def t_dense_dt(Hc=Hc, ref=ref, dt=dt, mk=mk):
            A = Hc().build_dense(dtype=dt)
            if A.dtype != np.dtype(dt):
                return f"dtype {A.dtype} != requested {dt}"
            e = close(A, ref, f"build_dense(dtype={dt})")
            if e:
                return e
            B = mk(dtype=dt).build_dense()
            if B.dtype != np.dtype(dt):
                return f"builder default dtype: {B.dtype} != {dt}"
            return close(B, ref, f"builder(dtype={dt}).build_dense()")

        cx.check("build_dense(dtype) has the dtype and the value", dict(base, dtype=dt), t_dense_dt, nontrivial=nt)

        # ------------------------------------------------------------------ sparse, every format
        for st in STYPES:
            def t_sp(Hc=Hc, ref=ref, st=st):
                A = Hc().build_sparse_matrix(stype=st)
                if not sp.issparse(A) or A.format != st:
                    return f"format {getattr(A, 'format', type(A))} != {st}"
                return close(A.toarray(), ref, f"build_sparse_matrix({st})")

            cx.check("build_sparse_matrix(stype) == reference", dict(base, stype=st), t_sp, nontrivial=nt)
        for par in (2, 3):
            def t_sp_par(Hc=Hc, ref=ref, par=par):
                A = Hc().build_sparse_matrix(stype="csr", parallel=par)
                e = close(A.toarray(), ref, f"build_sparse_matrix(parallel={par})")
                return e or close(Hc().build_dense(parallel=par), ref, f"build_dense(parallel={par})")

            cx.check("build_sparse_matrix / build_dense (parallel workers) == reference", dict(base, parallel=par), t_sp_par,
                     nontrivial=nt)

        # ------------------------------------------------------------------ matvec
        xs = [("c128", xc), ("c64", xc.astype("complex64")), ("f64", xr), ("f32", xr.astype("float32"))]
        for xn, x in xs:
            for par in (False, 2, 3):
                def t_mv(Hc=Hc, ref=ref, x=x, par=par):
                    x0 = x.copy()
                    y = Hc().matvec(x, parallel=par)
                    if not np.array_equal(x, x0):
                        return "input vector modified"
                    return close(y, ref @ x.astype(complex), "matvec", tol=_tol(x))

                cx.check("matvec(x) == reference @ x",
                         dict(base, x=xn, parallel=par, real_x_on_complex_terms=bool(tmc and xn[0] == "f")), t_mv,
                         nontrivial=nt)

        def t_mv2(Hc=Hc, ref=ref, X2=X2):
            return close(Hc().matvec(X2), ref @ X2, "matvec (matrix operand)")

        cx.check("matvec(X) with a matrix operand (serial) == reference @ X", base, t_mv2, nontrivial=nt)
        for par in (False, 2):
            def t_mv_out(Hc=Hc, ref=ref, xc=xc, par=par):
                out = np.full(xc.shape, 7.0 - 3.0j)
                y = Hc().matvec(xc, out=out, parallel=par)
                if y is not out:
                    return "result is not the supplied out array"
                return close(out, ref @ xc, "matvec(out=prefilled)")

            cx.check("matvec(x, out=) stores reference @ x in out", dict(base, out_prefilled=True, parallel=par), t_mv_out,
                     nontrivial=nt)
        if tmc:
            def t_mv_rc2(Hc=Hc, ref=ref, xr=xr):
                return close(Hc().matvec(xr, dtype="complex128"), ref @ xr, "matvec(real x, dtype=complex128)")

            cx.check("matvec(real x, dtype=complex128) == reference @ x", base, t_mv_rc2, nontrivial=nt)

        # ------------------------------------------------------------------ linear operator
        for par in (False, 2):
            def t_lo(Hc=Hc, ref=ref, xc=xc, xr=xr, X2=X2, par=par, is_cplx=is_cplx, is_herm=is_herm):
                A = Hc().aslinearoperator(parallel=par)
                if not isinstance(A, LinearOperator):
                    return f"type {type(A)}"
                if A.shape != ref.shape:
                    return f"shape {A.shape} != {ref.shape}"
                e = real_if_real_dtype(A, ref, "aslinearoperator")
                if e:
                    return e
                x = xc if is_cplx else xr
                e = close(A @ x, ref @ x, "linop @ x") or close(A.matvec(x), ref @ x, "linop.matvec")
                if e:
                    return e
                Xm = X2 if is_cplx else np.ascontiguousarray(X2.real)
                e = close(A @ Xm, ref @ Xm, "linop @ X") or close(A.matmat(Xm), ref @ Xm, "linop.matmat")
                if e:
                    return e
                if is_herm:
                    # rmatvec / adjoint are documented for hermitian operators only
                    e = close(A.rmatvec(x), ref.conj().T @ x, "linop.rmatvec") or \
                        close(A.H @ x, ref.conj().T @ x, "linop.H @ x")
                return e

            cx.check("aslinearoperator: matvec / matmat (/ rmatvec, adjoint when hermitian) == reference",
                     dict(base, parallel=par, hermitian=is_herm), t_lo, nontrivial=nt)
        if not is_cplx:
            def t_lo_c(Hc=Hc, ref=ref, xc=xc):
                A = Hc().aslinearoperator()
                return close(A @ xc, ref @ xc, "real linop @ complex x")

            cx.check("aslinearoperator of a real operator applied to a complex vector == reference @ x",
                     dict(base, x_complex_op_real=True), t_lo_c, nontrivial=nt)

        # ------------------------------------------------------------------ MPO
        def t_mpo(Hc=Hc, ref=ref, n=n):
            mpo = Hc().build_mpo()
            if mpo.L != n:
                return f"mpo.L {mpo.L} != {n}"
            A = mpo.to_dense()
            return close(A, ref, "build_mpo().to_dense()") or real_if_real_dtype(A, ref, "build_mpo")

        cx.check("build_mpo().to_dense() == reference", base, t_mpo, nontrivial=nt)

        def t_mpo2(Hc=Hc, ref=ref):
            mpo = Hc().build_mpo(dtype="complex128", upper_ind_id="u{}", lower_ind_id="l{}", site_tag_id="S{}")
            if mpo.dtype != "complex128":
                return f"dtype {mpo.dtype}"
            return close(mpo.to_dense(), ref, "build_mpo(dtype, ind ids).to_dense()")

        cx.check("build_mpo(dtype=complex128, custom index ids).to_dense() == reference", base, t_mpo2, nontrivial=nt)

        # ------------------------------------------------------------------ local terms
        def t_loc(Hc=Hc, ref=ref, reg_of=reg_of, n=n):
            Hk = Hc().build_local_terms()
            tot = np.zeros_like(ref)
            for key, M in Hk.items():
                rs = [reg_of[s] for s in key]
                if len(set(rs)) != len(rs):
                    return f"repeated site in local term key {key}"
                if np.shape(M) != (2 ** len(rs),) * 2:
                    return f"local term {key}: shape {np.shape(M)}"
                tot = tot + embed(M, rs, n)
            return close(tot, ref, "sum of embedded local terms")

        cx.check("sum of build_local_terms embedded == reference", base, t_loc, nontrivial=nt)

        # ------------------------------------------------------------------ ikron
        def t_ik(Hc=Hc, ref=ref):
            A = Hc().build_matrix_ikron()
            return close(A, ref, "build_matrix_ikron()")

        cx.check("build_matrix_ikron() == reference", base, t_ik, nontrivial=nt)

        def t_ik_sp(Hc=Hc, ref=ref):
            # (ikron returns a dense array when the operators cover every site: only the value is under contract)
            return close(Hc().build_matrix_ikron(sparse=True), ref, "build_matrix_ikron(sparse=True)")

        cx.check("build_matrix_ikron(sparse=True) == reference", base, t_ik_sp, nontrivial=nt)

        # ------------------------------------------------------------------ coupling function
        for r in cfg_ranks:
            def t_cpl(Hc=Hc, ref=ref, regs=regs, r=r, n=n):
                H = Hc()
                bits = [(r >> (n - 1 - q)) & 1 for q in range(n)]
                cfg = {s: b for s, b in zip(regs, bits)}
                cfgs, cs = H.config_coupling(cfg)
                col = np.zeros(2 ** n, dtype=complex)
                seen = set()
                for c2, v in zip(cfgs, cs):
                    if set(c2) != set(regs):
                        return f"coupled config keys {sorted(map(str, c2))}"
                    j = sum(int(c2[s]) << (n - 1 - q) for q, s in enumerate(regs))
                    if j in seen:
                        return f"coupled configuration {j} returned twice"
                    seen.add(j)
                    col[j] += v
                e = close(col, ref[:, r], "config_coupling (H|config>)")
                if e:
                    return e
                fc = np.array(bits, dtype=np.uint8)
                bjs, cs2 = H.flatconfig_coupling(fc)
                col2 = np.zeros(2 ** n, dtype=complex)
                for bj, v in zip(bjs, cs2):
                    col2[sum(int(b) << (n - 1 - q) for q, b in enumerate(bj))] += v
                return close(col2, ref[:, r], "flatconfig_coupling (H|flatconfig>)")

            cx.check("config_coupling / flatconfig_coupling(c) == column of the reference (H|c>)", dict(base, rank=r), t_cpl,
                     nontrivial=nt)

        def t_eval(Hc=Hc, ref=ref, regs=regs, xc=xc, n=n):
            H = Hc()

            def amp_c(cfg):
                return xc[sum(int(cfg[s]) << (n - 1 - q) for q, s in enumerate(regs))]

            def amp_f(fc):
                return xc[sum(int(b) << (n - 1 - q) for q, b in enumerate(fc))]

            want = np.vdot(xc, ref @ xc) / np.vdot(xc, xc)
            e = close(H.evaluate_exact_configs(amp_c), want, "evaluate_exact_configs")
            return e or close(H.evaluate_exact_flatconfigs(amp_f), want, "evaluate_exact_flatconfigs")

        cx.check("evaluate_exact_configs / _flatconfigs == <psi|H|psi>/<psi|psi>", dict(base, op_symmetric=is_symm), t_eval,
                 nontrivial=nt)

        # ------------------------------------------------------------------ local ham (<= 2-local, connected)
        def t_lham(Hc=Hc, ref=ref, reg_of=reg_of, n=n):
            H = Hc()
            Hk = H.build_local_terms()
            if any(len(k) not in (1, 2) for k in Hk):
                return None
            two = {s for k in Hk if len(k) == 2 for s in k}
            if not two or any(k[0] not in two for k in Hk if len(k) == 1):
                return None
            lh = H.build_local_ham()
            tot = np.zeros_like(ref)
            for (a, b), M in lh.terms.items():
                tot = tot + embed(M, [reg_of[a], reg_of[b]], n)
            return close(tot, ref, "sum of embedded build_local_ham terms")

        if True:
            cx.check("build_local_ham(): sum of embedded pair terms == reference (when <= 2-local and connected)", base,
                     t_lham, nontrivial=nt)

        # ------------------------------------------------------------------ mutation history: caches are reset
        def t_mut(mk=mk, ref=ref, terms=terms, extra=extra, reg_of=reg_of, n=n, jw=jw, pauli=pauli):
            H = mk()
            H.build_dense(), H.build_sparse_matrix(), H.build_mpo()
            for c, ops in extra:
                H.add_term(c, *ops)
            ref2 = ref_matrix(list(terms) + list(extra), reg_of, n, jw)
            e = close(H.build_dense(), ref2, "build_dense after adding terms to a built operator")
            if e:
                return e
            x = np.arange(2 ** n) + 1j
            e = close(H.matvec(x), ref2 @ x, "matvec after adding terms to a built operator")
            if e:
                return e
            # flip the Jordan-Wigner flag twice / the Pauli flag on and off: same operator
            H.jordan_wigner_transform()
            ref3 = ref_matrix(list(terms) + list(extra), reg_of, n, not jw)
            e = close(H.build_dense(), ref3, "build_dense after toggling jordan_wigner_transform")
            if e:
                return e
            H.jordan_wigner_transform()
            H.pauli_decompose(True, use_zx=bool(pauli != "zx"))
            e = close(H.build_dense(), ref2, "build_dense after toggling pauli_decompose on")
            if e:
                return e
            H.pauli_decompose(False)
            return close(H.build_sparse_matrix(stype="csc"), ref2, "build_sparse_matrix after toggling pauli_decompose off")

        fl = [term_flags(list(terms) + list(extra), reg_of, n, j) for j in (False, True)]
        cx.check("operator rebuilt after add_term / transform toggles == reference of the new term list",
                 dict(base, same_site_product=fl[0][0] or fl[1][0], ssp_ratio_nonunit=fl[0][1] or fl[1][1]), t_mut)


# ----------------------------------------------------------------------------------------------
# driver 2: ranking is a bijection of the right size, for every labelling / ordering / symmetry / sector
# ----------------------------------------------------------------------------------------------

def _species_of(site):
    return site[0]


def _sector_ok(cfg, symmetry, sector, regs, species_map):
    bits = [int(cfg[s]) for s in regs]
    if any(b not in (0, 1) for b in bits):
        return False
    if symmetry is None:
        return True
    if symmetry == "Z2":
        return sum(bits) % 2 == sector
    if symmetry == "U1":
        return sum(bits) == sector
    if symmetry == "U1U1":
        labs = sorted(set(species_map.values()))
        tot = {lab: 0 for lab in labs}
        for s in regs:
            tot[species_map[s]] += int(cfg[s])
        return tuple(tot[lab] for lab in labs) == tuple(sector)
    raise ValueError(symmetry)


def _ranking_thunk(HilbertSpace, configcore, supply, order_arg, regs, hs_kw, symmetry, sector_int, species_map, expect_size,
                   generic=True):
    """exhaustive contract for one Hilbert space + default sector"""
    n = len(regs)
    hs = HilbertSpace(supply, order=order_arg, **hs_kw)
    if list(hs.sites) != list(regs):
        return f"site order {hs.sites} != expected {regs}"
    if hs.nsites != n:
        return f"nsites {hs.nsites}"
    for r, s in enumerate(regs):
        if hs.site_to_reg(s) != r or hs.reg_to_site(r) != s or not hs.has_site(s):
            return f"site_to_reg / reg_to_site / has_site inconsistent at {s}"
    if hs.has_site(("no", "such", "site")):
        return "has_site accepts an unknown site"
    if hs.symmetry != symmetry:
        return f"symmetry {hs.symmetry} != {symmetry}"
    size = hs.size
    if int(size) != expect_size or int(hs.get_size()) != expect_size:
        return f"size {size} != {expect_size}"
    seen = set()
    sector_nb, symm_nb = hs.get_sector_numba()
    for r in range(expect_size):
        cfg = hs.rank_to_config(r)
        if set(cfg) != set(regs) or len(cfg) != n:
            return f"rank {r}: config keys {list(cfg)}"
        if not _sector_ok(cfg, symmetry, sector_int, regs, species_map):
            return f"rank {r}: config {cfg} violates the sector constraint {symmetry} {sector_int}"
        key = tuple(int(cfg[s]) for s in regs)
        if key in seen:
            return f"rank {r}: configuration {key} already produced by a smaller rank"
        seen.add(key)
        back = hs.config_to_rank(cfg)
        if int(back) != r:
            return f"config_to_rank(rank_to_config({r})) = {back}"
        fc = hs.rank_to_flatconfig(r)
        if np.shape(fc) != (n,) or tuple(int(b) for b in fc) != key:
            return f"rank {r}: flatconfig {fc} != config in site order {key}"
        if int(hs.flatconfig_to_rank(np.array(key, dtype=np.uint8))) != r:
            return f"flatconfig_to_rank(rank_to_flatconfig({r})) != {r}"
        fc2 = hs.config_to_flatconfig({s: b for s, b in zip(regs, key)})
        if fc2.dtype != np.uint8 or tuple(int(b) for b in fc2) != key:
            return f"config_to_flatconfig {fc2} != {key}"
        c2 = hs.flatconfig_to_config(fc2)
        if {s: int(v) for s, v in c2.items()} != {s: b for s, b in zip(regs, key)}:
            return "flatconfig_to_config(config_to_flatconfig(c)) != c"
        if symmetry is None and r != sum(b << (n - 1 - q) for q, b in enumerate(key)):
            return f"unconstrained rank {r} is not the binary value of {key}"
        if generic and not hs.needs_blocking:
            g = configcore.rank_to_flatconfig(r, sector_nb, symm_nb)
            if tuple(int(b) for b in g) != key:
                return f"configcore.rank_to_flatconfig({r}) = {g} != {key}"
    # |image| == size == |sector| and every image lies in the sector  =>  bijection; cross-check the sector's cardinality
    # by brute force for small n
    if n <= 10:
        cnt = 0
        for bits in itertools.product((0, 1), repeat=n):
            if _sector_ok({s: b for s, b in zip(regs, bits)}, symmetry, sector_int, regs, species_map):
                cnt += 1
        if cnt != expect_size:
            return f"brute-force sector cardinality {cnt} != size {expect_size}"
    if expect_size:
        for seed in (0, 1):
            rr = hs.rand_rank(seed=seed)
            if not (0 <= int(rr) < expect_size):
                return f"rand_rank {rr} outside [0,{expect_size})"
            if not _sector_ok(hs.rand_config(seed=seed), symmetry, sector_int, regs, species_map):
                return "rand_config outside the sector"
            rf = hs.rand_flatconfig(seed=seed)
            if not _sector_ok({s: b for s, b in zip(regs, rf)}, symmetry, sector_int, regs, species_map):
                return "rand_flatconfig outside the sector"
    return None


@driver("C19", "ranking-exhaustive", chunks=6, timeout=200,
        bound="qubit Hilbert spaces with 1..8 sites (thorough: ..11), 6 labellings x 4-6 orderings (as given, sorted, sequence, "
              "key, blocked, interleaved; with_ordering), symmetries none / Z2 (both parities, 4 spellings) / U1 (every filling) "
              "/ U1U1 (every pair of fillings; 3 sector spellings; species as callable or dict; interleaved species): "
              "exhaustive over all ranks; mixed-radix spaces with dims in 1..5 on up to 5 sites")
def ranking(cx):
    from quimb.operator import HilbertSpace, configcore

    rng = cx.rng
    nmax = 8 if cx.quick else 11
    case = 0
    for n in range(1, nmax + 1):
        for labelling in LABELLINGS:
            if labelling == "species3" and n > 6:
                continue
            for order_kind in order_choices(labelling):
                if n >= 10 and order_kind in ("seq", "key") and labelling in ("ints", "str"):
                    continue  # keep the largest sizes affordable
                if not cx.mine():
                    continue
                if cx.out_of_time():
                    cx.inconclusive.append("ranking-exhaustive: time budget exhausted")
                    return
                case += 1
                supply = make_sites(rng, n, labelling)
                order_arg, regs = apply_order(rng, supply, order_kind)
                has_species = labelling in ("species", "species3")
                species_map = {s: s[0] for s in regs} if has_species else None
                base = dict(n=n, labelling=labelling, order=order_kind)
                common = (HilbertSpace, configcore, supply, order_arg, regs)

                cx.check("HilbertSpace (no symmetry): rank <-> config is a bijection onto all 2^n configurations in binary order",
                         base, lambda common=common, n=n: _ranking_thunk(*common, {}, None, None, None, 2 ** n))
                for spelled, p in (("even", 0), ("odd", 1), (0, 0), (1, 1)):
                    kw = dict(sector=spelled, symmetry="Z2") if (isinstance(spelled, int) or n % 2) else dict(sector=spelled)
                    cx.check("HilbertSpace Z2: rank <-> config is a bijection onto the 2^(n-1) configurations of the parity",
                             dict(base, sector=str(spelled), symmetry_given="symmetry" in kw),
                             lambda common=common, kw=kw, p=p, n=n: _ranking_thunk(*common, kw, "Z2", p, None, 2 ** (n - 1)))
                for k in range(n + 1):
                    kw = dict(sector=k, symmetry="U1") if k % 2 else dict(sector=k)
                    cx.check("HilbertSpace U1: rank <-> config is a bijection onto the C(n,k) configurations of filling k",
                             dict(base, sector=k, symmetry_given="symmetry" in kw),
                             lambda common=common, kw=kw, k=k, n=n: _ranking_thunk(*common, kw, "U1", k, None, math.comb(n, k)))
                # ---- U1U1
                if has_species:
                    labs = sorted(set(species_map.values()))
                    if len(labs) == 2:
                        na = sum(1 for s in regs if s[0] == labs[0])
                        nb = n - na
                        form_i = 0
                        for ka in range(na + 1):
                            for kb in range(nb + 1):
                                form = ("dict", "tuple", "explicit", "dict-rev")[form_i % 4]
                                form_i += 1
                                sp_kind = ("callable", "dict")[form_i % 2]
                                species = _species_of if sp_kind == "callable" else dict(species_map)
                                if form == "dict":
                                    sector = {labs[0]: ka, labs[1]: kb}
                                elif form == "dict-rev":  # same sector, keys inserted in the other order
                                    sector = {labs[1]: kb, labs[0]: ka}
                                elif form == "tuple":
                                    sector = (ka, kb)
                                else:
                                    sector = ((na, ka), (nb, kb))
                                kw = dict(species=species, sector=sector)
                                if form_i % 4 == 0:
                                    kw["symmetry"] = "U1U1"
                                cx.check("HilbertSpace U1U1 (species): rank <-> config is a bijection onto the C(na,ka)*C(nb,kb) "
                                         "configurations with the species fillings",
                                         dict(base, sector=[ka, kb], form=form, species=sp_kind, symmetry_given="symmetry" in kw),
                                         lambda common=common, kw=kw, ka=ka, kb=kb, na=na, nb=nb, species_map=species_map:
                                         _ranking_thunk(*common, kw, "U1U1", (ka, kb), species_map,
                                                        math.comb(na, ka) * math.comb(nb, kb)))
                                # every insertion order of the species keys of a dict sector, as the default sector and per call
                                if ka != kb or na != nb:
                                    for dform, dsec in (("dict", {labs[0]: ka, labs[1]: kb}), ("dict-rev", {labs[1]: kb, labs[0]: ka})):
                                        if dform == form:
                                            continue  # already the default-sector case above
                                        kw2 = dict(species=species, sector=dsec)
                                        cx.check("HilbertSpace U1U1 (species): rank <-> config is a bijection onto the C(na,ka)*C(nb,kb) "
                                                 "configurations with the species fillings",
                                                 dict(base, sector=[ka, kb], form=dform, species=sp_kind, symmetry_given=False,
                                                      unequal=True),
                                                 lambda common=common, kw2=kw2, ka=ka, kb=kb, na=na, nb=nb, species_map=species_map:
                                                 _ranking_thunk(*common, kw2, "U1U1", (ka, kb), species_map,
                                                                math.comb(na, ka) * math.comb(nb, kb)))

                                    def t_percall(supply=supply, order_arg=order_arg, species=species, labs=labs, ka=ka, kb=kb, na=na,
                                                  nb=nb):
                                        for hs_kw in ({}, dict(sector={labs[0]: kb % (na + 1), labs[1]: ka % (nb + 1)})):
                                            hs = HilbertSpace(supply, order=order_arg, species=species, **hs_kw)
                                            for dsec in ({labs[0]: ka, labs[1]: kb}, {labs[1]: kb, labs[0]: ka}):
                                                for sym in (None, "U1U1"):
                                                    sec_nb, sym_nb = hs.get_sector_numba(sector=dsec, symmetry=sym)
                                                    if sym_nb != 3 or [int(v) for v in sec_nb] != [na, ka, nb, kb]:
                                                        return (f"get_sector_numba(sector={dsec}) = {list(sec_nb)} (symmetry {sym_nb}), "
                                                                f"expected [na, ka, nb, kb] = {[na, ka, nb, kb]} in sorted species order")
                                                    if int(hs.get_size(dsec, sym)) != math.comb(na, ka) * math.comb(nb, kb):
                                                        return f"get_size(sector={dsec}) = {hs.get_size(dsec, sym)}"
                                        return None

                                    cx.check("HilbertSpace U1U1: a {species: filling} sector passed per call (any key order, also overriding "
                                             "a default sector) is parsed as [na, ka, nb, kb] in sorted species order",
                                             dict(base, sector=[ka, kb], species=sp_kind), t_percall)
                # explicit ((na,ka),(nb,kb)) sector without species: the first na registers form block a
                if n >= 2:
                    na = int(rng.integers(1, n))
                    nb = n - na
                    smap = {s: ("A" if r < na else "B") for r, s in enumerate(regs)}
                    for ka, kb in itertools.product(range(na + 1), range(nb + 1)):
                        kw = dict(sector=((na, ka), (nb, kb)))
                        if (ka + kb) % 2:
                            kw["symmetry"] = "U1U1"
                        cx.check("HilbertSpace U1U1 (explicit blocks, no species): bijection onto C(na,ka)*C(nb,kb) configurations "
                                 "with ka particles on the first na registers",
                                 dict(base, na=na, sector=[ka, kb], symmetry_given="symmetry" in kw),
                                 lambda common=common, kw=kw, ka=ka, kb=kb, na=na, nb=nb, smap=smap:
                                 _ranking_thunk(*common, kw, "U1U1", (ka, kb), smap, math.comb(na, ka) * math.comb(nb, kb)))

                # ---- with_ordering keeps sites / symmetry / sector and re-orders
                new_kind = order_choices(labelling)[case % len(order_choices(labelling))]
                new_arg, new_regs = apply_order(rng, regs, new_kind)
                k = n // 2

                def t_with(supply=supply, order_arg=order_arg, new_arg=new_arg, new_regs=new_regs, k=k, n=n):
                    hs = HilbertSpace(supply, order=order_arg, sector=k, symmetry="U1")
                    h2 = hs.with_ordering(new_arg)
                    if list(h2.sites) != list(new_regs):
                        return f"with_ordering: sites {h2.sites} != {new_regs}"
                    if h2.symmetry != "U1" or h2.sector != k or int(h2.size) != math.comb(n, k):
                        return f"with_ordering: symmetry/sector/size {h2.symmetry} {h2.sector} {h2.size}"
                    if list(hs.sites) == list(new_regs) and new_arg not in (None, False):
                        pass
                    seen = set()
                    for r in range(math.comb(n, k)):
                        cfg = h2.rank_to_config(r)
                        key = tuple(int(cfg[s]) for s in new_regs)
                        if sum(key) != k or key in seen or int(h2.config_to_rank(cfg)) != r:
                            return f"with_ordering: rank {r} -> {key}"
                        seen.add(key)
                    return None

                cx.check("with_ordering: same sites, symmetry, sector; new register order; ranking still a bijection",
                         dict(base, new_order=new_kind), t_with)

                # ---- per-call sizes
                def t_sizes(supply=supply, order_arg=order_arg, n=n):
                    hs = HilbertSpace(supply, order=order_arg)
                    for k in range(n + 1):
                        if int(hs.get_size(k)) != math.comb(n, k) or int(hs.get_size(k, "U1")) != math.comb(n, k):
                            return f"get_size(U1 {k})"
                    for p in ("even", "odd"):
                        if int(hs.get_size(p)) != 2 ** (n - 1):
                            return f"get_size({p})"
                    for na in range(0, n + 1):
                        for ka in range(na + 1):
                            for kb in range(n - na + 1):
                                if int(hs.get_size(((na, ka), (n - na, kb)))) != math.comb(na, ka) * math.comb(n - na, kb):
                                    return f"get_size(U1U1 {na},{ka},{kb})"
                    return None

                cx.check("get_size(sector, symmetry) == 2^(n-1) / C(n,k) / C(na,ka)*C(nb,kb)", base, t_sizes)

    # ---- mixed radix
    for j in range(40 if cx.quick else 200):
        if not cx.mine():
            continue
        n = int(rng.integers(1, 6))
        dims = [int(d) for d in rng.integers(1, 6, size=n)]
        if j % 5 == 0:
            dims = [int(rng.integers(2, 5))] * n
        labelling = ("range", "str", "coo")[j % 3]
        supply = make_sites(rng, n, labelling)
        order_kind = ("none", "sorted", "seq", "key")[j % 4]
        order_arg, regs = apply_order(rng, supply, order_kind)
        how = ("dict", "seq", "int")[j % 3] if len(set(dims)) == 1 else ("dict", "seq")[j % 2]
        dmap = {s: d for s, d in zip(supply, dims)}

        def t_mixed(supply=supply, dims=dims, dmap=dmap, order_arg=order_arg, regs=regs, how=how, n=n):
            if how == "dict":
                hs = HilbertSpace(dict(dmap), order=order_arg)
            elif how == "seq":
                hs = HilbertSpace(supply, dims=list(dims), order=order_arg)
            else:
                hs = HilbertSpace(supply, dims=dims[0], order=order_arg)
            if list(hs.sites) != list(regs):
                return f"site order {hs.sites} != {regs}"
            ds = [dmap[s] for s in regs]
            if [int(d) for d in hs.sizes] != ds or any(hs.site_size(s) != dmap[s] for s in regs):
                return f"sizes {hs.sizes} != {ds}"
            size = int(np.prod(ds))
            if int(hs.size) != size:
                return f"size {hs.size} != {size}"
            for r, key in enumerate(itertools.product(*[range(d) for d in ds])):
                cfg = hs.rank_to_config(r)
                got = tuple(int(cfg[s]) for s in regs)
                if got != key:
                    return f"rank {r} -> {got}, lexicographic configuration is {key}"
                if int(hs.config_to_rank({s: v for s, v in zip(regs, key)})) != r:
                    return f"config_to_rank({key}) != {r}"
                if tuple(int(v) for v in hs.rank_to_flatconfig(r)) != key or \
                        int(hs.flatconfig_to_rank(np.array(key, dtype=np.uint8))) != r:
                    return f"flatconfig conversions at rank {r}"
            return None

        cx.check("mixed-radix HilbertSpace: rank <-> config is the lexicographic bijection onto prod(dims) configurations",
                 dict(j=j, dims=dims, labelling=labelling, order=order_kind, how=how), t_mixed,
                 nontrivial=int(np.prod(dims)) > 1)


# ----------------------------------------------------------------------------------------------
# driver 3: symmetry sectors -- sector matrix == full reference between the sector's basis states
# ----------------------------------------------------------------------------------------------

_DIAG = ["n", "h", "sn", "z", "sz", "I"]
_FLIP = ["x", "y", "sx", "sy", ZX, "+", "-"]


def _pick(rng, seq, k, replace=False):
    if not replace:
        k = min(k, len(seq))
    return [seq[int(i)] for i in rng.choice(len(seq), size=k, replace=replace)]


def gen_symmetric_terms(rng, sites, kind, nterms, cplx, species_map=None, termwise=True, samesite=False):
    """terms of an operator that commutes with the symmetry (kind = 'z2' | 'u1' | 'u1u1').  With termwise=False the
    operator is symmetric but single terms are not (xx + yy pairs for U1)."""
    n = len(sites)
    terms = []

    def deco(ops, maxd=2):
        used = {s for _, s in ops}
        pool = list(sites) if samesite else [s for s in sites if s not in used]
        for s in _pick(rng, pool, int(rng.integers(0, maxd + 1))) if pool else []:
            ops.insert(int(rng.integers(0, len(ops) + 1)), (_DIAG[int(rng.integers(0, len(_DIAG)))], s))
        return ops

    groups = None
    if kind == "u1u1":
        labs = sorted(set(species_map.values()))
        groups = [[s for s in sites if species_map[s] == lab] for lab in labs]
    for _ in range(nterms):
        c = rand_coeff(rng, cplx)
        t = int(rng.integers(0, 7))
        if kind == "u1u1":
            g = groups[int(rng.integers(0, len(groups)))]
            if t <= 2 and len(g) >= 2:
                a, b = _pick(rng, g, 2)
                terms.append((c, deco([("+", a), ("-", b)])))
            elif t == 3 and all(len(g) >= 2 for g in groups) and len(groups) == 2:
                a, b = _pick(rng, groups[0], 2)
                e, f = _pick(rng, groups[1], 2)
                ops = [("+", a), ("-", b), ("+", e), ("-", f)]
                terms.append((c, [ops[int(i)] for i in rng.permutation(4)]))
            elif t == 4:
                a = g[int(rng.integers(0, len(g)))]
                terms.append((c, deco([("+", a), ("-", a)] if rng.integers(0, 2) else [("-", a), ("+", a)])))
            else:
                terms.append((c, deco([(_DIAG[int(rng.integers(0, 5))], sites[int(rng.integers(0, n))])], 3)))
            continue
        if t <= 1 and n >= 2:
            a, b = _pick(rng, sites, 2)
            terms.append((c, deco([("+", a), ("-", b)])))
        elif t == 2 and n >= 2:
            a, b = _pick(rng, sites, 2)
            e, f = _pick(rng, sites, 2)
            ops = [("+", a), ("+", b), ("-", e), ("-", f)]
            if not samesite and len({a, b, e, f}) < 4:
                ops = [("+", a), ("-", b)]
            terms.append((c, ops))
        elif t == 3 and kind == "z2" and n >= 2:
            a, b = _pick(rng, sites, 2)
            terms.append((c, deco([("+", a), ("+", b)] if rng.integers(0, 2) else [("-", b), ("-", a)])))
        elif t == 4 and kind == "z2" and n >= 2:
            k = 2 * int(rng.integers(1, n // 2 + 1))
            ss = _pick(rng, sites, min(k, 4))
            terms.append((c, deco([(_FLIP[int(rng.integers(0, len(_FLIP)))], s) for s in ss])))
        elif t == 4 and kind == "u1" and not termwise and n >= 2:
            a, b = _pick(rng, sites, 2)
            xs, ys = (("x", "y"), ("sx", "sy"))[int(rng.integers(0, 2))]
            d = deco([])
            terms.append((c, [(xs, a), (xs, b)] + d))
            terms.append((c, [(ys, a), (ys, b)] + d))
        elif t == 5:
            a = sites[int(rng.integers(0, n))]
            terms.append((c, deco([("+", a), ("-", a)] if rng.integers(0, 2) else [("-", a), ("+", a)])))
        else:
            terms.append((c, deco([(_DIAG[int(rng.integers(0, 5))], sites[int(rng.integers(0, n))])], 3)))
    return terms


def _termwise_symmetric(terms, kind, pauli, species_map):
    """does every single *processed* term conserve the charge?  (Z2: Pauli components keep the flip pattern, so yes;
    U1 / U1U1: a Pauli component of '+' '-' does not, and neither does a lone xx / yy term)"""
    if kind == "z2":
        return True
    for _, ops in terms:
        names = {o for o, _ in ops}
        if names & {"x", "y", "sx", "sy", ZX}:
            return False
        if pauli and names & {"+", "-"}:
            return False
    return True


def _forked(body, timeout=60):
    """evaluate body() in a forked child (os.fork: usable from the daemonic chunk workers); returns
    ("ok", value) | ("died", signal/exit code) | ("timeout", None)"""
    import os
    import pickle
    import select
    import signal
    import time

    rfd, wfd = os.pipe()
    pid = os.fork()
    if pid == 0:  # child
        code = 0
        try:
            os.close(rfd)
            # glibc reports heap corruption of the child on stderr: keep the checker's output clean
            dn = os.open(os.devnull, os.O_WRONLY)
            os.dup2(dn, 2)
            try:
                val = ("ok", body())
            except BaseException as e:  # noqa
                val = ("exc", f"{type(e).__name__}: {str(e)[:300]}")
            with os.fdopen(wfd, "wb") as f:
                pickle.dump(val, f)
        except BaseException:  # noqa
            code = 1
        finally:
            os._exit(code)
    os.close(wfd)
    data = b""
    t0 = time.time()
    with os.fdopen(rfd, "rb") as f:
        while True:
            if time.time() - t0 > timeout:
                os.kill(pid, signal.SIGKILL)
                os.waitpid(pid, 0)
                return ("timeout", None)
            r, _, _ = select.select([f], [], [], 0.5)
            if r:
                chunk = f.read()
                data += chunk
                break
    _, status = os.waitpid(pid, 0)
    if data:
        try:
            return pickle.loads(data)
        except Exception:  # noqa
            pass
    return ("died", -os.WTERMSIG(status) if os.WIFSIGNALED(status) else os.WEXITSTATUS(status))


def _sector_index(HilbertSpace, supply, order_arg, regs, hs_kw, expect=None):
    """full-space indices of the sector's basis states, enumerated through the public ranking API (which fixes their
    order).  expect = (symmetry, sector, species_map): the *set* of states must be exactly the sector as enumerated HERE
    by (species) occupation -- independent of how the library parsed the sector spelling"""
    n = len(regs)
    hs = HilbertSpace(supply, order=order_arg, **hs_kw)
    idx = []
    for r in range(int(hs.size)):
        cfg = hs.rank_to_config(r)
        idx.append(sum(int(cfg[s]) << (n - 1 - q) for q, s in enumerate(regs)))
    if expect is not None:
        symmetry, sector, species_map = expect
        want = set()
        for j, bits in enumerate(itertools.product((0, 1), repeat=n)):
            if _sector_ok({s_: b for s_, b in zip(regs, bits)}, symmetry, sector, regs, species_map):
                want.add(j)
        if set(idx) != want or len(idx) != len(want):
            raise AssertionError(f"sector {hs_kw.get('sector')!r} ({symmetry} {sector}): rank_to_config enumerates {len(set(idx))} states, "
                                 f"{len(set(idx) ^ want)} of them differ from the {len(want)} configurations with that occupation")
    return idx


@driver("C19", "symmetry-sectors", chunks=8, timeout=200,
        bound="random operators commuting with Z2 / U1 / U1xU1 on 1..6 sites (thorough ..7): hopping, pair hopping, pairing, "
              "density products, flip strings, decorated terms, complex coefficients; with / without Jordan-Wigner and Pauli "
              "decomposition; every parity / 3 fillings / 3 species fillings per case; sector given as the Hilbert space's "
              "default or per call (all spellings); dense, sparse (3 formats, workers), matvec (serial, 2-3 workers), linear "
              "operator vs the full Kronecker reference between the sector's basis states")
def symmetry_sectors(cx):
    from quimb.operator import HilbertSpace, SparseOperatorBuilder

    rng = cx.rng
    ncases = 40 if cx.quick else 480
    nmax = 6 if cx.quick else 7
    for i in range(ncases * cx.nchunks):
        if not cx.mine():
            continue
        if cx.out_of_time():
            cx.inconclusive.append("symmetry-sectors: time budget exhausted")
            return
        kind = ("z2", "u1", "u1u1", "u1")[i % 4]
        n = int(rng.choice([1, 2, 3, 3, 4, 4, 5, 6, nmax]))
        if kind == "u1u1":
            n = max(n, 2)
            labelling = ("species", "species3", "blocks")[int(rng.integers(0, 3))]
            if labelling == "species3":
                n = min(n, 6)
        else:
            labelling = LABELLINGS[int(rng.integers(0, len(LABELLINGS)))]
            if labelling == "species3":
                n = min(n, 6)
        blocks = labelling == "blocks"
        supply = make_sites(rng, n, "ints" if blocks else labelling)
        ochoices = order_choices(labelling if not blocks else "ints")
        order_kind = ochoices[int(rng.integers(0, len(ochoices)))]
        order_arg, regs = apply_order(rng, supply, order_kind)
        reg_of = {s: r for r, s in enumerate(regs)}
        species_kw = {}
        species_map = None
        if kind == "u1u1":
            if blocks:
                na = int(rng.integers(1, n))
                species_map = {s: ("A" if r < na else "B") for r, s in enumerate(regs)}
            else:
                species_map = {s: s[0] for s in regs}
                species_kw = dict(species=_species_of if rng.integers(0, 2) else dict(species_map))
                na = sum(1 for s in regs if s[0] == sorted(set(species_map.values()))[0])
            nb = n - na
        cplx = bool(rng.integers(0, 2))
        termwise = bool(rng.integers(0, 4) > 0)
        samesite = bool(rng.integers(0, 4) == 0)
        terms = gen_symmetric_terms(rng, regs, kind, int(rng.integers(1, 7)), cplx, species_map, termwise, samesite)
        jw = bool(rng.integers(0, 2))
        pauli = [False, False, False, True, "zx"][int(rng.integers(0, 5))]
        tw = _termwise_symmetric(terms, kind, pauli, species_map)
        ssp, nonunit, _ = term_flags(terms, reg_of, n, jw)
        # sectors of this case: (constructor kwargs, per-call kwargs, json description)
        sectors = []
        if kind == "z2":
            for sp_, p in (("even", 0), ("odd", 1), (0, 0), (1, 1))[(i // 4) % 2::2]:
                explicit = isinstance(sp_, int) or bool(rng.integers(0, 2))
                kw = dict(sector=sp_, symmetry="Z2") if explicit else dict(sector=sp_)
                sectors.append((kw, dict(sector=str(sp_), symmetry_given=explicit)))
        elif kind == "u1":
            ks = sorted({0, n, int(rng.integers(0, n + 1)), n // 2})
            for k in ks[:4]:
                explicit = bool(rng.integers(0, 2))
                kw = dict(sector=k, symmetry="U1") if explicit else dict(sector=k)
                sectors.append((kw, dict(sector=k, symmetry_given=explicit)))
        else:
            cand = {(0, 0), (na, nb), (int(rng.integers(0, na + 1)), int(rng.integers(0, nb + 1))), (na // 2, (nb + 1) // 2)}
            labs = sorted(set(species_map.values()))
            cand = [(ka, kb, None) for ka, kb in sorted(cand)]
            if not blocks:
                # unequal fillings spelled as a dict in both key orders (a sector parsed in the user's key order instead of
                # the sorted species order would be another sector of the same or a different size)
                uneq = [(a_, b_) for a_ in range(na + 1) for b_ in range(nb + 1) if a_ != b_]
                if uneq:
                    ua, ub = uneq[int(rng.integers(0, len(uneq)))]
                    cand += [(ua, ub, "dict-rev"), (ua, ub, "dict")]
            for ka, kb, forced in cand:
                form = forced or ("explicit" if blocks else ("dict", "tuple", "explicit", "dict-rev")[int(rng.integers(0, 4))])
                sec = ({labs[0]: ka, labs[1]: kb} if form == "dict" else {labs[1]: kb, labs[0]: ka} if form == "dict-rev" else
                       (ka, kb) if form == "tuple" else ((na, ka), (nb, kb)))
                explicit = bool(rng.integers(0, 2))
                kw = dict(sector=sec, symmetry="U1U1") if explicit else dict(sector=sec)
                sectors.append((kw, dict(sector=[ka, kb], form=form, symmetry_given=explicit)))
        base = dict(i=i, kind=kind, n=n, labelling=labelling, order=order_kind, jw=jw, pauli=str(pauli), termwise_symmetric=tw,
                    same_site_product=ssp, ssp_ratio_nonunit=nonunit)
        ctx = {}

        def full(ctx=ctx, terms=terms, reg_of=reg_of, n=n, jw=jw):
            if "ref" not in ctx:
                ctx["ref"] = ref_matrix(terms, reg_of, n, jw)
            return ctx["ref"]

        def mkH(hs_kw, terms=terms, supply=supply, order_arg=order_arg, jw=jw, pauli=pauli, species_kw=species_kw):
            hs = HilbertSpace(supply, order=order_arg, **species_kw, **hs_kw)
            return SparseOperatorBuilder(terms=[(c, *ops) for c, ops in terms], hilbert_space=hs, jordan_wigner=jw,
                                         pauli_decompose=pauli)

        for si, (skw, sdesc) in enumerate(sectors):
            mode = ("default", "percall", "override")[(i + si) % 3]
            # default: sector is the Hilbert space's; percall: Hilbert space without sector, sector passed to every
            # build call; override: Hilbert space has another default sector, the call overrides it
            if mode == "default":
                hs_kw, call_kw = skw, {}
            elif mode == "percall":
                hs_kw, call_kw = {}, skw
            else:
                other = sectors[(si + 1) % len(sectors)][0]
                hs_kw, call_kw = other, skw
            xs = rng.normal(size=64) + 1j * rng.normal(size=64)
            st = STYPES[(i + si) % 3]
            p = dict(base, mode=mode, **sdesc)

            if kind == "z2":
                expect = ("Z2", {"even": 0, "odd": 1}.get(skw["sector"], skw["sector"]), None)
            elif kind == "u1":
                expect = ("U1", skw["sector"], None)
            else:
                expect = ("U1U1", tuple(sdesc["sector"]), species_map)

            def sector_ref(full=full, skw=skw, supply=supply, order_arg=order_arg, regs=regs, species_kw=species_kw, expect=expect):
                ref = full()
                idx = _sector_index(HilbertSpace, supply, order_arg, regs, dict(species_kw, **skw), expect)
                out = [j for j in range(ref.shape[0]) if j not in set(idx)]
                if out and idx and np.abs(ref[np.ix_(out, idx)]).max() > 1e-12:
                    raise AssertionError("the basis states enumerated by rank_to_config do not span an invariant subspace of the "
                                         "symmetric reference operator (ranking does not enumerate the sector)")
                return ref[np.ix_(idx, idx)]

            def t_mat(mkH=mkH, hs_kw=hs_kw, call_kw=call_kw, sector_ref=sector_ref, st=st):
                H = mkH(hs_kw)
                R = sector_ref()
                e = close(H.build_dense(**call_kw), R, "build_dense(sector)")
                if e:
                    return e
                A = H.build_sparse_matrix(stype=st, **call_kw)
                if A.format != st:
                    return f"format {A.format}"
                e = close(A, R, f"build_sparse_matrix({st}, sector)")
                return e or close(H.build_sparse_matrix(parallel=2, **call_kw), R, "build_sparse_matrix(parallel=2, sector)")

            cx.check("sector matrix (dense / sparse / workers) == full reference between the sector's basis states", p, t_mat)

            def t_mv(mkH=mkH, hs_kw=hs_kw, call_kw=call_kw, sector_ref=sector_ref, xs=xs, tw=tw):
                def body():
                    H = mkH(hs_kw)
                    R = sector_ref()
                    x = xs[: R.shape[0]].copy()
                    # (no worker threads in the forked child: a thread pool does not survive fork)
                    for par in ((False, 2, 3) if tw else (False,)):
                        e = close(H.matvec(x, parallel=par, **call_kw), R @ x, f"matvec(sector, parallel={par})")
                        if e:
                            return e
                    A = H.aslinearoperator(dtype="complex128", **call_kw)
                    if A.shape != R.shape:
                        return f"aslinearoperator(sector).shape {A.shape} != {R.shape}"
                    return close(A @ x, R @ x, "aslinearoperator(sector) @ x")

                if tw:
                    return body()
                # single terms leave the sector: the kernels may index out of bounds -> evaluate in a forked child
                st_, val = _forked(body, timeout=20)
                if st_ == "ok":
                    return val
                return f"matvec in a sector (evaluated in a forked child): {st_} {val}"

            cx.check("sector matvec / aslinearoperator == full reference between the sector's basis states", p, t_mv)


# ----------------------------------------------------------------------------------------------
# driver 4: model builders of quimb/operator/models.py vs the model formula
# ----------------------------------------------------------------------------------------------

def _light_checks(cx, name, params, getH, ref, regs, sector_checks=()):
    """a reduced set of representation contracts for a builder produced by a model function.
    ref: callable -> full reference matrix; sector_checks: list of (json, call_kwargs, index-callable)"""
    n = len(regs)
    reg_of = {s: r for r, s in enumerate(regs)}

    def t_dense():
        H = getH()
        if list(H.hilbert_space.sites) != list(regs):
            return f"site order {H.hilbert_space.sites} != expected {regs}"
        R = ref()
        A = H.build_dense()
        e = close(A, R, "build_dense") or real_if_real_dtype(A, R, "build_dense")
        if e:
            return e
        for st in ("csr", "coo", "dia"):
            e = close(H.build_sparse_matrix(stype=st), R, f"build_sparse_matrix({st})")
            if e:
                return e
        return close(H.build_matrix_ikron(), R, "build_matrix_ikron")

    cx.check(f"{name}: build_dense / build_sparse_matrix / build_matrix_ikron == model formula", params, t_dense)

    def t_mv():
        H = getH()
        R = ref()
        x = np.cos(np.arange(2 ** n) * 1.7) + 1j * np.sin(np.arange(2 ** n) * 0.3)
        for par in (False, 2):
            e = close(H.matvec(x, parallel=par), R @ x, f"matvec(parallel={par})")
            if e:
                return e
        return close(H.aslinearoperator(dtype="complex128") @ x, R @ x, "aslinearoperator @ x")

    cx.check(f"{name}: matvec / aslinearoperator == model formula @ x", params, t_mv)

    def t_mpo():
        return close(getH().build_mpo().to_dense(), ref(), "build_mpo().to_dense()")

    cx.check(f"{name}: build_mpo().to_dense() == model formula", params, t_mpo)

    def t_loc():
        R = ref()
        tot = np.zeros_like(R)
        for key, M in getH().build_local_terms().items():
            tot = tot + embed(M, [reg_of[s] for s in key], n)
        return close(tot, R, "sum of embedded local terms")

    cx.check(f"{name}: sum of build_local_terms embedded == model formula", params, t_loc)

    for sdesc, call_kw, index in sector_checks:
        tw = dict(params, **sdesc).get("termwise_symmetric", True)

        def t_sec(call_kw=call_kw, index=index, tw=tw):
            H = getH()
            idx = index()
            R = ref()[np.ix_(idx, idx)]
            e = close(H.build_dense(**call_kw), R, "build_dense(sector)")
            if e:
                return e
            e = close(H.build_sparse_matrix(stype="csc", **call_kw), R, "build_sparse_matrix(sector)")
            if e:
                return e
            x = np.cos(np.arange(len(idx)) * 1.3) + 0.5j
            if tw:
                return close(H.matvec(x, **call_kw), R @ x, "matvec(sector)")
            # single terms leave the sector: the kernel may write out of bounds -> forked child
            st_, val = _forked(lambda: close(H.matvec(x, **call_kw), R @ x, "matvec(sector)"), timeout=20)
            return val if st_ == "ok" else f"matvec in a sector (evaluated in a forked child): {st_} {val}"

        cx.check(f"{name}: sector matrix / matvec == model formula between the sector's basis states", dict(params, **sdesc),
                 t_sec)


def _rand_graph(rng, nodes, extra_dupes=True):
    """random connected-ish edge list over `nodes` with duplicated and reversed entries"""
    n = len(nodes)
    pairs = [(a, b) for a, b in itertools.combinations(range(n), 2)]
    m = int(rng.integers(max(1, n - 1), max(2, min(len(pairs), n + 2)) + 1)) if pairs else 0
    chosen = [pairs[int(i)] for i in rng.choice(len(pairs), size=min(m, len(pairs)), replace=False)] if pairs else []
    # make sure every node is touched
    touched = {a for e in chosen for a in e}
    for a in range(n):
        if a not in touched and n > 1:
            b = (a + 1) % n
            chosen.append((min(a, b), max(a, b)))
            touched |= {a, b}
    chosen = sorted(set(chosen))
    edges = []
    for a, b in chosen:
        e = (nodes[a], nodes[b]) if rng.integers(0, 2) else (nodes[b], nodes[a])
        edges.append(e)
        if extra_dupes and rng.integers(0, 4) == 0:
            edges.append((e[1], e[0]) if rng.integers(0, 2) else e)
    uniq = sorted({(min(a, b), max(a, b)) for a, b in edges})
    return [edges[int(i)] for i in rng.permutation(len(edges))], uniq


def _coef_forms(rng, kind, keys, draw):
    """a coefficient given as constant / dict / callable; returns (argument, lookup(key))"""
    vals = {k: draw() for k in keys}
    form = ("const", "dict", "callable")[int(rng.integers(0, 3))]
    if form == "const":
        v = draw()
        return v, (lambda k: v), form
    if kind == "edge":
        d = {}
        for (a, b), v in vals.items():
            d[(a, b) if rng.integers(0, 2) else (b, a)] = v
        if form == "dict":
            return d, (lambda k: vals[k]), form
        return (lambda a, b: vals[(min(a, b), max(a, b))]), (lambda k: vals[k]), form
    if form == "dict":
        return dict(vals), (lambda k: vals[k]), form
    return (lambda a: vals[a]), (lambda k: vals[k]), form


@driver("C19", "model-builders", chunks=6, timeout=200,
        bound="heisenberg_from_edges / fermi_hubbard_from_edges / fermi_hubbard_spinless_from_edges / rand_operator on random "
              "graphs with 2..6 qubits (thorough ..8), int / string / coordinate labels, duplicated and reversed edges, "
              "couplings as constants / tuples / dicts / callables, every order option, symmetry sectors where the model is "
              "symmetric, with / without Pauli decomposition: representations vs the model formula written with explicit "
              "Kronecker products and Jordan-Wigner strings")
def model_builders(cx):
    import quimb.operator as qop
    from quimb.operator import HilbertSpace

    rng = cx.rng
    ncases = 30 if cx.quick else 360
    for i in range(ncases * cx.nchunks):
        if not cx.mine():
            continue
        if cx.out_of_time():
            cx.inconclusive.append("model-builders: time budget exhausted")
            return
        model = ("heis", "hubbard", "spinless", "rand")[i % 4]
        lab = ("range", "ints", "str", "coo")[int(rng.integers(0, 4))]
        rnd = lambda: float(np.round(rng.normal(), 3)) or 0.25  # noqa: E731
        if model == "heis":
            n = int(rng.integers(2, 7 if cx.quick else 9))
            nodes = sorted(make_sites(rng, n, lab))
            edges, uniq = _rand_graph(rng, nodes)
            jkind = int(rng.integers(0, 3))  # 0 isotropic scalar, 1 (jx,jx,jz), 2 (jx,jy,jz)
            jdraw = (rnd if jkind == 0 else (lambda: (lambda a: (a, a, rnd()))(rnd())) if jkind == 1 else
                     (lambda: (rnd(), rnd(), rnd())))
            jarg, jget, jform = _coef_forms(rng, "edge", uniq, jdraw)
            bkind = int(rng.integers(0, 3))  # 0 zero, 1 z-field scalar, 2 vector
            bdraw = (lambda: 0.0) if bkind == 0 else rnd if bkind == 1 else (lambda: (rnd(), rnd(), rnd()))
            barg, bget, bform = _coef_forms(rng, "node", nodes, bdraw)
            okind = ("none", "seq", "key")[int(rng.integers(0, 3))]
            order_arg, regs = apply_order(rng, nodes, okind)
            reg_of = {s: r for r, s in enumerate(regs)}
            use_hs = bool(rng.integers(0, 4) == 0)
            sym_u1 = jkind in (0, 1) and bkind in (0, 1)
            sym_z2 = bkind in (0, 1)
            params = dict(i=i, model=model, n=n, labels=lab, j=jform, jkind=jkind, b=bform, bkind=bkind, order=okind,
                          hilbert_space_given=use_hs)

            def ref(uniq=uniq, nodes=nodes, jget=jget, bget=bget, reg_of=reg_of, n=n):
                terms = []
                for e in uniq:
                    jj = jget(e)
                    jx, jy, jz = jj if isinstance(jj, tuple) else (jj, jj, jj)
                    terms += [(jx, [("sx", e[0]), ("sx", e[1])]), (jy, [("sy", e[0]), ("sy", e[1])]),
                              (jz, [("sz", e[0]), ("sz", e[1])])]
                for s in nodes:
                    bb = bget(s)
                    bx, by, bz = bb if isinstance(bb, tuple) else (0.0, 0.0, bb)
                    terms += [(-bx, [("sx", s)]), (-by, [("sy", s)]), (-bz, [("sz", s)])]
                return ref_matrix(terms, reg_of, n)

            def getH(edges=edges, jarg=jarg, barg=barg, order_arg=order_arg, nodes=nodes, use_hs=use_hs):
                if use_hs:
                    hs = HilbertSpace.from_edges(edges, order=order_arg) if len(edges) % 2 else HilbertSpace(nodes, order=order_arg)
                    return qop.heisenberg_from_edges(edges, j=jarg, b=barg, hilbert_space=hs)
                return qop.heisenberg_from_edges(edges, j=jarg, b=barg, order=order_arg)

            secs = []
            if sym_u1:
                k = int(rng.integers(0, n + 1))
                secs.append((dict(sector=k, symmetry="U1"), dict(sector=k, symmetry="U1"),
                             lambda k=k, nodes=nodes, order_arg=order_arg, regs=regs: _sector_index(
                                 HilbertSpace, nodes, order_arg, regs, dict(sector=k, symmetry="U1"), ("U1", k, None))))
            if sym_z2:
                p = ("even", "odd")[int(rng.integers(0, 2))]
                secs.append((dict(sector=p, symmetry="Z2"), dict(sector=p),
                             lambda p=p, nodes=nodes, order_arg=order_arg, regs=regs: _sector_index(
                                 HilbertSpace, nodes, order_arg, regs, dict(sector=p), ("Z2", {"even": 0, "odd": 1}[p], None))))
            ctx = {}
            _light_checks(cx, "heisenberg_from_edges", params,
                          lambda ctx=ctx, getH=getH: ctx.setdefault("H", None) or ctx.__setitem__("H", getH()) or ctx["H"],
                          lambda ctx=ctx, ref=ref: ctx["R"] if "R" in ctx else ctx.setdefault("R", ref()), regs, secs)
            # the sector handed to the model function itself
            if sym_u1:
                k2 = int(rng.integers(0, n + 1))

                def t_ctor(edges=edges, jarg=jarg, barg=barg, order_arg=order_arg, k2=k2, ref=ref, nodes=nodes, regs=regs):
                    H = qop.heisenberg_from_edges(edges, j=jarg, b=barg, order=order_arg, sector=k2, symmetry="U1")
                    idx = _sector_index(HilbertSpace, nodes, order_arg, regs, dict(sector=k2), ("U1", k2, None))
                    if int(H.hilbert_space.size) != len(idx):
                        return f"hilbert_space.size {H.hilbert_space.size} != {len(idx)}"
                    return close(H.build_dense(), ref()[np.ix_(idx, idx)], "build_dense() in the model's default sector")

                cx.check("heisenberg_from_edges(sector=k): default build is the U1 sector matrix", dict(params, sector=k2), t_ctor)

        elif model in ("hubbard", "spinless"):
            nc = int(rng.integers(2, 4 if cx.quick else 5)) if model == "hubbard" else int(rng.integers(2, 7 if cx.quick else 9))
            coos = sorted(make_sites(rng, nc, lab))
            edges, uniq = _rand_graph(rng, coos)
            pauli = bool(rng.integers(0, 4) == 0)
            if model == "hubbard":
                tkind = int(rng.integers(0, 2))
                tdraw = rnd if tkind == 0 else (lambda: (rnd(), rnd()))
                targ, tget, tform = _coef_forms(rng, "edge", uniq, tdraw)
                Uarg, Uget, Uform = _coef_forms(rng, "node", coos, rnd)
                mkind = int(rng.integers(0, 3))
                mdraw = (lambda: 0.0) if mkind == 0 else rnd if mkind == 1 else (lambda: (rnd(), rnd()))
                marg, mget, mform = _coef_forms(rng, "node", coos, mdraw)
                sites = [(s, c) for s in "↑↓" for c in coos]
                okind = ("default", "interleaved", "blocked", "none", "seq", "key")[int(rng.integers(0, 6))]
                if okind == "default":
                    order_arg, regs = "interleaved", sorted(sites, key=lambda s: (s[1:], s[0]))
                else:
                    order_arg, regs = apply_order(rng, sites, okind)
                reg_of = {s: r for r, s in enumerate(regs)}
                n = len(regs)
                params = dict(i=i, model=model, n=n, labels=lab, t=tform, tkind=tkind, U=Uform, mu=mform, mukind=mkind,
                              order=okind, pauli=pauli, termwise_symmetric=not pauli)

                def ref(uniq=uniq, coos=coos, tget=tget, Uget=Uget, mget=mget, reg_of=reg_of, n=n):
                    terms = []
                    for a, b in uniq:
                        tt = tget((a, b))
                        tu, td = tt if isinstance(tt, tuple) else (tt, tt)
                        for s, tv in (("↑", tu), ("↓", td)):
                            terms += [(-tv, [("+", (s, a)), ("-", (s, b))]), (-tv, [("+", (s, b)), ("-", (s, a))])]
                    for c in coos:
                        terms.append((Uget(c), [("n", ("↑", c)), ("n", ("↓", c))]))
                        mm = mget(c)
                        mu_, md_ = mm if isinstance(mm, tuple) else (mm, mm)
                        terms += [(-mu_, [("n", ("↑", c))]), (-md_, [("n", ("↓", c))])]
                    return ref_matrix(terms, reg_of, n, jw=True)

                def getH(edges=edges, targ=targ, Uarg=Uarg, marg=marg, order_arg=order_arg, okind=okind, pauli=pauli, **kw):
                    okw = {} if okind == "default" else dict(order=order_arg)
                    return qop.fermi_hubbard_from_edges(edges, t=targ, U=Uarg, mu=marg, pauli_decompose=pauli, **okw, **kw)

                hs_kw = dict(species=_species_of)
                ka, kb = int(rng.integers(0, nc + 1)), int(rng.integers(0, nc + 1))
                if rng.integers(0, 2) and nc >= 1:
                    # unequal fillings: a dict parsed in the user's key order would denote another sector of the same size
                    kb = (ka + 1 + int(rng.integers(0, nc))) % (nc + 1)
                form = ("dict", "dict-rev", "tuple", "explicit")[int(rng.integers(0, 4))]
                sec = ({"↑": ka, "↓": kb} if form == "dict" else {"↓": kb, "↑": ka} if form == "dict-rev" else
                       (ka, kb) if form == "tuple" else ((nc, ka), (nc, kb)))
                ktot = int(rng.integers(0, n + 1))
                spmap = {s_: s_[0] for s_ in sites}
                secs = [
                    (dict(sector=[ka, kb], form=form, symmetry="U1U1"), dict(sector=sec),
                     lambda sec=sec, sites=sites, order_arg=order_arg, regs=regs, ka=ka, kb=kb, spmap=spmap: _sector_index(
                         HilbertSpace, sites, order_arg, regs, dict(species=_species_of, sector=sec), ("U1U1", (ka, kb), spmap))),
                    (dict(sector=ktot, symmetry="U1"), dict(sector=ktot),
                     lambda ktot=ktot, sites=sites, order_arg=order_arg, regs=regs: _sector_index(
                         HilbertSpace, sites, order_arg, regs, dict(sector=ktot), ("U1", ktot, None))),
                ]
                name = "fermi_hubbard_from_edges"
                sector_ctor = dict(sector=sec)
                ctor_index = secs[0][2]
            else:
                targ, tget, tform = _coef_forms(rng, "edge", uniq, rnd)
                Varg, Vget, Vform = _coef_forms(rng, "edge", uniq, rnd)
                marg, mget, mform = _coef_forms(rng, "node", coos, rnd)
                has_delta = bool(rng.integers(0, 2))
                darg, dget, dform = _coef_forms(rng, "edge", uniq, rnd if has_delta else (lambda: 0.0))
                sites = list(coos)
                okind = ("none", "seq", "key")[int(rng.integers(0, 3))]
                order_arg, regs = apply_order(rng, sites, okind)
                reg_of = {s: r for r, s in enumerate(regs)}
                n = len(regs)
                params = dict(i=i, model=model, n=n, labels=lab, t=tform, V=Vform, mu=mform, delta=dform if has_delta else "0",
                              order=okind, pauli=pauli, termwise_symmetric=not pauli)

                def ref(uniq=uniq, coos=coos, tget=tget, Vget=Vget, mget=mget, dget=dget, reg_of=reg_of, n=n):
                    terms = []
                    for a, b in uniq:
                        e = (a, b)
                        terms += [(-tget(e), [("+", a), ("-", b)]), (-tget(e), [("+", b), ("-", a)]),
                                  (Vget(e), [("n", a), ("n", b)]),
                                  (dget(e), [("+", a), ("+", b)]), (dget(e), [("-", b), ("-", a)])]
                    for c in coos:
                        terms.append((-mget(c), [("n", c)]))
                    return ref_matrix(terms, reg_of, n, jw=True)

                def getH(edges=edges, targ=targ, Varg=Varg, marg=marg, darg=darg, order_arg=order_arg, pauli=pauli, **kw):
                    return qop.fermi_hubbard_spinless_from_edges(edges, t=targ, V=Varg, mu=marg, delta=darg, order=order_arg,
                                                                 pauli_decompose=pauli, **kw)

                p = ("even", "odd")[int(rng.integers(0, 2))]
                secs = [(dict(sector=p, symmetry="Z2", termwise_symmetric=True), dict(sector=p),
                         lambda p=p, sites=sites, order_arg=order_arg, regs=regs: _sector_index(
                             HilbertSpace, sites, order_arg, regs, dict(sector=p), ("Z2", {"even": 0, "odd": 1}[p], None)))]
                sector_ctor = dict(sector=p)
                ctor_index = secs[0][2]
                if not has_delta:
                    k = int(rng.integers(0, n + 1))
                    secs.append((dict(sector=k, symmetry="U1"), dict(sector=k, symmetry="U1"),
                                 lambda k=k, sites=sites, order_arg=order_arg, regs=regs: _sector_index(
                                     HilbertSpace, sites, order_arg, regs, dict(sector=k), ("U1", k, None))))
                name = "fermi_hubbard_spinless_from_edges"
            ctx = {}
            R0 = None
            # does the Pauli-decomposed operator have an identity component?  (independent: trace of the reference)
            params["identity_term"] = bool(pauli and abs(np.trace(ref())) / 2 ** n > 1e-9)
            _light_checks(cx, name, params,
                          lambda ctx=ctx, getH=getH: ctx["H"] if "H" in ctx else ctx.setdefault("H", getH()),
                          lambda ctx=ctx, ref=ref: ctx["R"] if "R" in ctx else ctx.setdefault("R", ref()), regs, secs)

            def t_ctor(getH=getH, sector_ctor=sector_ctor, ctor_index=ctor_index, ref=ref):
                H = getH(**sector_ctor)
                idx = ctor_index()
                if int(H.hilbert_space.size) != len(idx):
                    return f"hilbert_space.size {H.hilbert_space.size} != {len(idx)}"
                return close(H.build_dense(), ref()[np.ix_(idx, idx)], "build_dense() in the model's default sector")

            cx.check(f"{name}(sector=...): default build is the sector matrix",
                     dict(params, sector=str(sector_ctor["sector"]),
                          termwise_symmetric=bool(not pauli or model == "spinless")), t_ctor)
        else:
            n = int(rng.integers(1, 7))
            m = int(rng.integers(1, 7))
            k = int(rng.integers(0, min(n, 4) + 1))
            kmin = None if rng.integers(0, 2) else int(rng.integers(0, k + 1))
            ops = (None, "xyz", "+-n", "xyzn+-", "Ixz")[int(rng.integers(0, 5))]
            seed = int(rng.integers(0, 1000))
            params = dict(i=i, model=model, n=n, m=m, k=k, kmin=kmin, ops=str(ops), seed=seed, default_ops=ops is None)
            regs = list(range(n))

            def getR(n=n, m=m, k=k, kmin=kmin, ops=ops, seed=seed):
                kw = {} if ops is None else dict(ops=ops)
                return qop.rand_operator(n, m, k, kmin=kmin, seed=seed, **kw)

            def t_struct(getR=getR, n=n, m=m, k=k, kmin=kmin, ops=ops):
                H = getR()
                raw = H.terms_raw
                if len(raw) > m:
                    return f"{len(raw)} raw terms > m={m}"
                allowed = set(ops) if ops is not None else {"x", "y", "z"}
                for c, t in raw:
                    ss = [s for _, s in t]
                    if len(set(ss)) != len(ss) or not all(0 <= s < n for s in ss):
                        return f"term sites {ss}"
                    if not ((k if kmin is None else kmin) <= len(t) <= k):
                        return f"term of {len(t)} operators, allowed {kmin}..{k}"
                    if not {o for o, _ in t} <= allowed:
                        return f"operators {[o for o, _ in t]} not in {allowed}"
                if H.nsites != n:
                    return f"nsites {H.nsites} != {n}"
                return None

            cx.check("rand_operator: m terms of kmin..k operators from `ops` on distinct sites of range(n)", params, t_struct)
            if ops is not None:
                ctx = {}

                def getH(ctx=ctx, getR=getR):
                    if "H" not in ctx:
                        ctx["H"] = getR()
                    return ctx["H"]

                def ref(getH=getH, n=n):
                    # the meaning of the builder's own raw term list (read through the public terms_raw)
                    return ref_matrix([(c, list(t)) for c, t in getH().terms_raw], {s: s for s in range(n)}, n)

                params["identity_term"] = bool((kmin == 0) or k == 0 or "I" in ops)
                _light_checks(cx, "rand_operator", params, getH, ref, regs)


# ----------------------------------------------------------------------------------------------
# driver 5: spin-chain MPO builders (tensor side) and matrix-side generators vs the model formula
# ----------------------------------------------------------------------------------------------

def spin_mats(S):
    """textbook spin-S matrices in the basis m = S, S-1, ..., -S"""
    D = int(round(2 * S + 1))
    ms = [S - q for q in range(D)]
    Sz = np.diag(ms).astype(complex)
    Sp = np.zeros((D, D), dtype=complex)
    for q in range(1, D):
        m = ms[q]  # S+ |m> = sqrt(S(S+1) - m(m+1)) |m+1>,  |m+1> has index q-1
        Sp[q - 1, q] = math.sqrt(S * (S + 1) - m * (m + 1))
    Sm = Sp.conj().T
    return {"X": (Sp + Sm) / 2, "Y": (Sp - Sm) / 2j, "Z": Sz, "+": Sp, "-": Sm, "I": np.eye(D, dtype=complex)}


def chain_embed(ops, L, D):
    """kron of single-site operators {site: matrix} on a chain of L sites of dimension D"""
    return kron_all([ops.get(q, np.eye(D)) for q in range(L)])


def chain_ref(L, S, cyclic, two, one):
    """H = sum_i sum_(c,a,b) in two(i) c A_i B_(i+1 mod L) + sum_i sum_(c,a) in one(i) c A_i; bonds i = 0..L-2 (+ L-1 if cyclic)"""
    sm = spin_mats(S)
    D = int(round(2 * S + 1))
    H = np.zeros((D ** L, D ** L), dtype=complex)

    def mat(a):
        return sm[a] if isinstance(a, str) else np.asarray(a, dtype=complex)

    for i in range(L if cyclic else L - 1):
        j = (i + 1) % L
        for c, a, b in two(i):
            if i == j:
                continue
            if j > i:
                H += c * chain_embed({i: mat(a), j: mat(b)}, L, D)
            else:
                H += c * chain_embed({j: mat(b), i: mat(a)}, L, D)
    for i in range(L):
        for c, a in one(i):
            H += c * chain_embed({i: mat(a)}, L, D)
    return H


def heis_two(jx, jy, jz):
    return lambda i: [(jx, "X", "X"), (jy, "Y", "Y"), (jz, "Z", "Z")]


@driver("C19", "spin-chain-builders", chunks=6, timeout=200,
        bound="MPO_ham_heis / ising / XY / XXZ / mbl / bilinear_biquadratic, ham_1d_* (LocalHam1D) and SpinHam1D with site-specific "
              "terms vs ham_heis / ham_ising / ham_XY / ham_XXZ / ham_mbl / ham_j1j2 / ham_heis_2D / ham_hubbard_hardcore and vs the "
              "model formula with textbook spin-S matrices: L = 2..7 (thorough ..9), S in {1/2, 1, 3/2} with D^L <= 729, open / "
              "cyclic (LocalHam1D cyclic: L >= 3; j1j2 cyclic: L >= 5), scalar / anisotropic couplings, sparse formats, workers")
def spin_chains(cx):
    import scipy.sparse as sp

    import quimb as qu
    import quimb.tensor as qtn
    from quimb.tensor import tensor_builder as qtb  # MPO_ham_XXZ / bilinear_biquadratic are not re-exported

    rng = cx.rng
    ncases = 36 if cx.quick else 300
    Lmax = 7 if cx.quick else 9
    rnd = lambda: float(np.round(rng.normal(), 3)) or 0.25  # noqa: E731

    def local_ham_sum(lh, L, D):
        tot = np.zeros((D ** L, D ** L), dtype=complex)
        for (a, b), M in lh.terms.items():
            M = np.asarray(M, dtype=complex).reshape(D, D, D, D)  # (a_out, b_out, a_in, b_in)
            full = np.kron(M.reshape(D * D, D * D), np.eye(D ** (L - 2)))
            t = full.reshape((D,) * (2 * L))
            cur = [a, b] + [q for q in range(L) if q not in (a, b)]
            perm = [cur.index(q) for q in range(L)]
            tot += t.transpose(perm + [L + p for p in perm]).reshape(D ** L, D ** L)
        return tot

    for i in range(ncases * cx.nchunks):
        if not cx.mine():
            continue
        if cx.out_of_time():
            cx.inconclusive.append("spin-chain-builders: time budget exhausted")
            return
        model = ("heis", "ising", "XY", "XXZ", "mbl", "custom", "j1j2", "heis2d", "hardcore", "bilbiq")[i % 10]
        cyclic = bool(rng.integers(0, 2))
        S = (0.5, 0.5, 1, 1.5)[int(rng.integers(0, 4))]
        D = int(2 * S + 1)
        L = int(rng.integers(2, Lmax + 1))
        while D ** L > 729:
            L -= 1
        sparse = bool(rng.integers(0, 2))
        stype = ("csr", "csc", "coo", "bsr")[int(rng.integers(0, 4))]
        mopts = dict(sparse=sparse, stype=stype) if sparse else {}
        p0 = dict(i=i, model=model, L=L, cyclic=cyclic)

        def mat_check(A, R, what, sparse=sparse, stype=stype):
            if sparse:
                if not sp.issparse(A) or A.format != stype:
                    return f"{what}: format {getattr(A, 'format', type(A))} != {stype}"
            elif sp.issparse(A):
                return f"{what}: sparse result for sparse=False"
            return close(A, R, what)

        if model in ("heis", "ising", "XY", "XXZ"):
            if model == "heis":
                jk = int(rng.integers(0, 3))
                j = rnd() if jk == 0 else (lambda a: (a, a, rnd()))(rnd()) if jk == 1 else (rnd(), rnd(), rnd())
                bz = (0.0, rnd())[int(rng.integers(0, 2))]
                jx, jy, jz = j if isinstance(j, tuple) else (j, j, j)
                two, one = heis_two(jx, jy, jz), (lambda q, bz=bz: [(-bz, "Z")])
                mpo = lambda j=j, bz=bz, **kw: qtn.MPO_ham_heis(L, j=j, bz=bz, **kw)  # noqa: E731
                lham = lambda j=j, bz=bz, **kw: qtn.ham_1d_heis(L, j=j, bz=bz, **kw)  # noqa: E731
                bvec = int(rng.integers(0, 2))
                bb = (rnd(), rnd(), rnd()) if bvec else bz
                mat = lambda j=j, bb=bb, **kw: qu.ham_heis(L, j=j, b=bb, **kw)  # noqa: E731
                mat_one = (lambda q, bb=bb: [(-bb[0], "X"), (-bb[1], "Y"), (-bb[2], "Z")]) if bvec else one
                desc = dict(jkind=jk, bz=bz != 0.0, bvec=bvec)
            elif model == "ising":
                j, bx = rnd(), (0.0, rnd())[int(rng.integers(0, 2))]
                two, one = (lambda q, j=j: [(j, "Z", "Z")]), (lambda q, bx=bx: [(-bx, "X")])
                mpo = lambda j=j, bx=bx, **kw: qtn.MPO_ham_ising(L, j=j, bx=bx, **kw)  # noqa: E731
                lham = lambda j=j, bx=bx, **kw: qtn.ham_1d_ising(L, j=j, bx=bx, **kw)  # noqa: E731
                mat = lambda j=j, bx=bx, **kw: qu.ham_ising(L, jz=j, bx=bx, **kw)  # noqa: E731
                mat_one = one
                desc = dict(bx=bx != 0.0)
            elif model == "XY":
                jk = int(rng.integers(0, 2))
                j = rnd() if jk == 0 else (rnd(), rnd())
                bz = (0.0, rnd())[int(rng.integers(0, 2))]
                jx, jy = j if isinstance(j, tuple) else (j, j)
                two, one = heis_two(jx, jy, 0.0), (lambda q, bz=bz: [(-bz, "Z")])
                mpo = lambda j=j, bz=bz, **kw: qtn.MPO_ham_XY(L, j=j, bz=bz, **kw)  # noqa: E731
                lham = lambda j=j, bz=bz, **kw: qtn.ham_1d_XY(L, j=j, bz=bz, **kw)  # noqa: E731
                # the matrix-side generator takes a single xy coupling
                mat = (lambda j=j, bz=bz, **kw: qu.ham_XY(L, j, bz, **kw)) if jk == 0 else None  # noqa: E731
                mat_one = one
                desc = dict(jkind=jk, bz=bz != 0.0)
            else:
                delta, jxy = rnd(), rnd()
                two, one = heis_two(jxy, jxy, delta), (lambda q: [])
                mpo = lambda delta=delta, jxy=jxy, **kw: qtb.MPO_ham_XXZ(L, delta, jxy=jxy, **kw)  # noqa: E731
                lham = lambda delta=delta, jxy=jxy, **kw: qtb.ham_1d_XXZ(L, delta, jxy=jxy, **kw)  # noqa: E731
                mat = lambda delta=delta, jxy=jxy, **kw: qu.ham_XXZ(L, delta, jxy=jxy, **kw)  # noqa: E731
                mat_one = one
                desc = {}
            p = dict(p0, S=S, **desc)

            def t_mpo(mpo=mpo, two=two, one=one, L=L, S=S, cyclic=cyclic):
                m = mpo(S=S, cyclic=cyclic)
                if m.L != L:
                    return f"mpo.L {m.L}"
                return close(m.to_dense(), chain_ref(L, S, cyclic, two, one), "MPO dense")

            cx.check(f"MPO_ham_{model}(L, S, cyclic).to_dense() == model formula with spin-S matrices", p, t_mpo)
            if not (cyclic and L < 3):
                def t_lh(lham=lham, two=two, one=one, L=L, S=S, cyclic=cyclic, D=D):
                    lh = lham(S=S, cyclic=cyclic)
                    return close(local_ham_sum(lh, L, D), chain_ref(L, S, cyclic, two, one), "sum of LocalHam1D terms")

                cx.check(f"ham_1d_{model}(L, S, cyclic): sum of embedded pair terms == model formula", p, t_lh)
            if mat is not None and L <= 9:
                par = bool(rng.integers(0, 2)) if model == "heis" else None

                def t_mat(mat=mat, mpo=mpo, two=two, mat_one=mat_one, one=one, L=L, cyclic=cyclic, mopts=mopts, par=par,
                          model=model):
                    kw = dict(mopts, cyclic=cyclic)
                    if par is not None:
                        kw["parallel"] = par
                    A = mat(**kw)
                    R = chain_ref(L, 0.5, cyclic, two, mat_one)
                    e = mat_check(A, R, f"ham_{model}")
                    if e:
                        return e
                    if mat_one is one:
                        # same model through the tensor-side builder
                        return close(mpo(S=0.5, cyclic=cyclic).to_dense(), A.toarray() if sp.issparse(A) else A,
                                     f"MPO_ham_{model} vs ham_{model}")
                    return None

                cx.check(f"ham_{model}(n, cyclic, sparse, stype) == model formula == MPO_ham_{model}(S=1/2)",
                         dict(p, S=0.5, sparse=sparse, stype=stype if sparse else None, parallel=par), t_mat)

        elif model == "mbl":
            jk = int(rng.integers(0, 2))
            j = rnd() if jk == 0 else (rnd(), rnd(), rnd())
            jx, jy, jz = j if isinstance(j, tuple) else (j, j, j)
            dh = abs(rnd()) + 0.1
            seed = int(rng.integers(0, 10000))
            dist = ("s", "g", "qp")[int(rng.integers(0, 3))]
            dim = 1 if dist == "qp" else (1, 2, 3, "yz")[int(rng.integers(0, 4))]
            p = dict(p0, S=S, jkind=jk, seed=seed, dh_dist=dist, dh_dim=str(dim), sparse=sparse)
            dirs = {1: "Z", 2: "XY", 3: "XYZ", "yz": "YZ"}[dim]

            def field_structure(A, base, L, S, dirs, dh, dist):
                """A - base must be a sum of single-site fields h_i^d S^d_i along the allowed directions (|h| <= dh for
                the box and quasi-periodic distributions)"""
                sm = spin_mats(S)
                Dl = int(2 * S + 1)
                diff = A - base
                rec = np.zeros_like(diff)
                nrm = np.trace(sm["Z"] @ sm["Z"]).real * Dl ** (L - 1)
                for q in range(L):
                    for d in "XYZ":
                        E = chain_embed({q: sm[d]}, L, Dl)
                        h = np.trace(E.conj().T @ diff) / nrm
                        if abs(h.imag) > 1e-10:
                            return f"complex field on site {q}"
                        if d not in dirs and abs(h) > 1e-10:
                            return f"field {h:.3e} along {d} on site {q} but dh_dim allows {dirs}"
                        if dist in ("s", "qp") and abs(h) > dh * (1 + 1e-12):
                            return f"|field| {abs(h):.4f} > dh {dh:.4f} on site {q}"
                        rec += h * E
                return close(rec, diff, "H - H_heisenberg is not a sum of single-site fields")

            def t_mbl(L=L, S=S, cyclic=cyclic, j=j, jx=jx, jy=jy, jz=jz, dh=dh, seed=seed, dist=dist, dim=dim, dirs=dirs):
                m = qtn.MPO_ham_mbl(L, dh, j=j, seed=seed, S=S, cyclic=cyclic, dh_dist=dist, dh_dim=dim).to_dense()
                base = chain_ref(L, S, cyclic, heis_two(jx, jy, jz), lambda q: [])
                e = field_structure(np.asarray(m, dtype=complex), base, L, S, dirs, dh, dist)
                if e:
                    return "MPO_ham_mbl: " + e
                if not (cyclic and L < 3):
                    lh = qtn.ham_1d_mbl(L, dh, j=j, seed=seed, S=S, cyclic=cyclic, dh_dist=dist, dh_dim=dim)
                    e = close(local_ham_sum(lh, L, int(2 * S + 1)), m, "ham_1d_mbl vs MPO_ham_mbl (same seed)")
                return e

            cx.check("MPO_ham_mbl == Heisenberg formula + single-site random fields in the allowed directions == ham_1d_mbl", p,
                     t_mbl)

            def t_mbl2(L=L, cyclic=cyclic, j=j, jx=jx, jy=jy, jz=jz, dh=dh, seed=seed, dist=dist, dim=dim, dirs=dirs, mopts=mopts):
                A = qu.ham_mbl(L, dh, j=j, cyclic=cyclic, seed=seed, dh_dist=dist, dh_dim=dim, **mopts)
                e = mat_check(A, A.toarray() if sp.issparse(A) else A, "ham_mbl")
                if e:
                    return e
                A = np.asarray(A.toarray() if sp.issparse(A) else A, dtype=complex)
                base = chain_ref(L, 0.5, cyclic, heis_two(jx, jy, jz), lambda q: [])
                e = field_structure(A, base, L, 0.5, dirs, dh, dist)
                if e:
                    return "ham_mbl: " + e
                m = qtn.MPO_ham_mbl(L, dh, j=j, seed=seed, cyclic=cyclic, dh_dist=dist, dh_dim=dim).to_dense()
                return close(m, A, "MPO_ham_mbl vs ham_mbl (same seed, same model)")

            cx.check("ham_mbl == Heisenberg formula + single-site random fields == MPO_ham_mbl for the same seed",
                     dict(p, S=0.5, stype=stype if sparse else None), t_mbl2)

        elif model == "custom":
            # SpinHam1D with default and site-specific terms
            names = ["X", "Y", "Z", "+", "-", "I"]
            d2 = [(rnd(), names[int(rng.integers(0, 5))], names[int(rng.integers(0, 6))]) for _ in range(int(rng.integers(0, 4)))]
            d1 = [(rnd(), names[int(rng.integers(0, 5))]) for _ in range(int(rng.integers(0, 3)))]
            if rng.integers(0, 4) == 0:
                d2.append((complex(rnd(), rnd()), "Z", "X"))
            v2, v1 = {}, {}
            for q in range(L - 1):
                if rng.integers(0, 3) == 0:
                    v2[(q, q + 1)] = [(rnd(), names[int(rng.integers(0, 5))], names[int(rng.integers(0, 5))])
                                      for _ in range(int(rng.integers(1, 3)))]
            for q in range(L):
                if rng.integers(0, 3) == 0:
                    v1[q] = [(rnd(), names[int(rng.integers(0, 6))]) for _ in range(int(rng.integers(1, 3)))]
            use_arrays = (False, False, "ndarray", "qarray")[int(rng.integers(0, 4))]
            how = ("iadd", "add_term", "setitem")[int(rng.integers(0, 3))]
            if not d2 and not v2:
                d2 = [(rnd(), "Z", "Z")]
            p = dict(p0, S=S, n2=len(d2), n1=len(d1), var2=sorted(map(list, v2)), var1=sorted(v1), arrays=use_arrays, how=how,
                     wrap_bond=bool(cyclic and d2))

            def build(S=S, cyclic=cyclic, d2=d2, d1=d1, v2=v2, v1=v1, use_arrays=use_arrays, how=how):
                sm = spin_mats(S)
                cv = ((lambda a: sm[a].copy()) if use_arrays == "ndarray" else
                      (lambda a: qu.qarray(sm[a].copy())) if use_arrays == "qarray" else (lambda a: a))
                B = qtn.SpinHam1D(S=S, cyclic=cyclic)
                for c, a, b in d2:
                    if how == "add_term":
                        B.add_term(c, cv(a), cv(b))
                    elif c < 0 if not isinstance(c, complex) else False:
                        B -= (-c, cv(a), cv(b))
                    else:
                        B += (c, cv(a), cv(b))
                for c, a in d1:
                    if how == "add_term":
                        B.sub_term(-c, cv(a))
                    else:
                        B += (c, cv(a))
                for key, ts in v2.items():
                    if how == "setitem":
                        B[key] = [(c, cv(a), cv(b)) for c, a, b in ts]
                    else:
                        for c, a, b in ts:
                            B[key] += (c, cv(a), cv(b))
                for key, ts in v1.items():
                    if how == "setitem":
                        B[key] = [(c, cv(a)) for c, a in ts]
                    else:
                        for c, a in ts:
                            B[key] += (c, cv(a))
                return B

            def ref(L=L, S=S, cyclic=cyclic, d2=d2, d1=d1, v2=v2, v1=v1):
                # site-specific terms replace the default terms of that bond / site
                return chain_ref(L, S, cyclic, lambda q: v2.get((q, q + 1), d2), lambda q: v1.get(q, d1))

            cx.check("SpinHam1D.build_mpo(L).to_dense() == sum of (default or site-specific) terms", p,
                     lambda build=build, ref=ref, L=L: close(build().build_mpo(L).to_dense(), ref(), "SpinHam1D.build_mpo"))

            def t_sp(build=build, ref=ref, L=L):
                A = build().build_sparse(L)
                e = close(A, ref(), "SpinHam1D.build_sparse")
                return e or close(build().build_sparse(L, sparse=False), ref(), "SpinHam1D.build_sparse(sparse=False)")

            cx.check("SpinHam1D.build_sparse(L) == sum of (default or site-specific) terms", p, t_sp)
            # LocalHam1D can only hold a one-site term on a site covered by some two-site term (it is absorbed there)
            covered = set(range(L)) if d2 else {q for key in v2 for q in key}
            needs = set(range(L)) if d1 else set(v1)
            if not (cyclic and L < 3) and needs <= covered:
                def t_lh(build=build, ref=ref, L=L, D=D):
                    return close(local_ham_sum(build().build_local_ham(L), L, D), ref(), "SpinHam1D.build_local_ham")

                cx.check("SpinHam1D.build_local_ham(L): sum of embedded pair terms == sum of terms", p, t_lh)

        elif model == "j1j2":
            n = max(L, 3)
            while 2 ** n > 512:
                n -= 1
            cyc = cyclic and n >= 5
            j1, j2, bz = rnd(), rnd(), (0.0, rnd())[int(rng.integers(0, 2))]
            p = dict(p0, L=n, cyclic=cyc, bz=bz != 0.0, sparse=sparse, stype=stype if sparse else None)

            def t_j(n=n, cyc=cyc, j1=j1, j2=j2, bz=bz, mopts=mopts):
                A = qu.ham_j1j2(n, j1=j1, j2=j2, bz=bz, cyclic=cyc, **mopts)
                sm = spin_mats(0.5)
                R = np.zeros((2 ** n, 2 ** n), dtype=complex)
                for dist, jj in ((1, j1), (2, j2)):
                    for q in range(n if cyc else n - dist):
                        r = (q + dist) % n
                        for d in "XYZ":
                            R += jj * chain_embed({q: sm[d], r: sm[d]}, n, 2)
                for q in range(n):
                    R += bz * chain_embed({q: sm["Z"]}, n, 2)
                return mat_check(A, R, "ham_j1j2")

            cx.check("ham_j1j2 == J1 sum S.S (nearest) + J2 sum S.S (next nearest) + Bz sum Sz", p, t_j)

        elif model == "heis2d":
            nr, nc = [(1, 2), (2, 2), (2, 3), (3, 2), (1, 4), (3, 3), (2, 4), (3, 1)][int(rng.integers(0, 8))]
            if (nr < 3 or nc < 3) and cyclic:
                cyc = False  # wrap-around bonds coincide with direct bonds on a 2-wide lattice: keep the formula unambiguous
            else:
                cyc = cyclic
            jk = int(rng.integers(0, 2))
            j = rnd() if jk == 0 else (rnd(), rnd(), rnd())
            bz = (0.0, rnd())[int(rng.integers(0, 2))]
            par = bool(rng.integers(0, 2))
            p = dict(i=i, model=model, shape=[nr, nc], cyclic=cyc, jkind=jk, bz=bz != 0.0, parallel=par, sparse=sparse,
                     stype=stype if sparse else None)

            def t_2d(nr=nr, nc=nc, cyc=cyc, j=j, bz=bz, par=par, mopts=mopts):
                A = qu.ham_heis_2D(nr, nc, j=j, bz=bz, cyclic=cyc, parallel=par, **mopts)
                jx, jy, jz = j if isinstance(j, tuple) else (j, j, j)
                sm = spin_mats(0.5)
                n = nr * nc
                R = np.zeros((2 ** n, 2 ** n), dtype=complex)
                idx = lambda a, b: a * nc + b  # noqa: E731
                bonds = set()
                for a in range(nr):
                    for b in range(nc):
                        for a2, b2 in ((a + 1, b), (a, b + 1)):
                            if cyc:
                                a2, b2 = a2 % nr, b2 % nc
                            if a2 < nr and b2 < nc:
                                bonds.add((idx(a, b), idx(a2, b2)))
                for q, r in bonds:
                    for d, jj in zip("XYZ", (jx, jy, jz)):
                        R += jj * chain_embed({q: sm[d], r: sm[d]}, n, 2)
                for q in range(n):
                    R += bz * chain_embed({q: sm["Z"]}, n, 2)
                return mat_check(A, R, "ham_heis_2D")

            cx.check("ham_heis_2D == sum over lattice bonds of J.S S + Bz sum Sz (row-major site order)", p, t_2d)

        elif model == "hardcore":
            n = L
            while 2 ** n > 512:
                n -= 1
            cyc = cyclic and n >= 3
            t_, V, mu = rnd(), rnd(), rnd()
            par = bool(rng.integers(0, 2))
            p = dict(p0, L=n, cyclic=cyc, parallel=par, sparse=sparse, stype=stype if sparse else None)

            def t_hc(n=n, cyc=cyc, t_=t_, V=V, mu=mu, par=par, mopts=mopts):
                A = qu.ham_hubbard_hardcore(n, t=t_, V=V, mu=mu, cyclic=cyc, parallel=par, **mopts)
                R = np.zeros((2 ** n, 2 ** n), dtype=complex)
                for q in range(n if cyc else n - 1):
                    r = (q + 1) % n
                    R += -t_ * (chain_embed({q: _SP, r: _SM}, n, 2) + chain_embed({q: _SM, r: _SP}, n, 2))
                    R += V * chain_embed({q: _N, r: _N}, n, 2)
                for q in range(n):
                    R += -mu * chain_embed({q: _N}, n, 2)
                return mat_check(A, R, "ham_hubbard_hardcore")

            cx.check("ham_hubbard_hardcore == -t sum (b+ b + h.c.) + V sum n n - mu sum n", p, t_hc)

        else:  # bilinear-biquadratic
            theta = 0.0 if rng.integers(0, 5) == 0 else float(np.round(rng.uniform(-3, 3), 3))
            compress = bool(rng.integers(0, 2))
            p = dict(p0, S=S, compress=compress, biquadratic=bool(math.sin(theta) != 0.0))

            def t_bb(L=L, S=S, cyclic=cyclic, theta=theta, compress=compress, D=D):
                sm = spin_mats(S)
                R = np.zeros((D ** L, D ** L), dtype=complex)
                for q in range(L if cyclic else L - 1):
                    r = (q + 1) % L
                    SS = sum(chain_embed({q: sm[d], r: sm[d]}, L, D) for d in "XYZ")
                    R += math.cos(theta) * SS + math.sin(theta) * (SS @ SS)
                m = qtb.MPO_ham_bilinear_biquadratic(L, theta, S=S, cyclic=cyclic, compress=compress)
                # compress=True truncates with the default cutoff 1e-10 (relative squared weight): promised to ~1e-5 only
                return close(m.to_dense(), R, "MPO_ham_bilinear_biquadratic", tol=3e-5 if compress else 1e-8)

            cx.check("MPO_ham_bilinear_biquadratic == sum cos(theta) S.S + sin(theta) (S.S)^2", p, t_bb)

            def t_bb2(L=L, S=S, cyclic=cyclic, theta=theta, compress=compress, D=D):
                m = qtb.MPO_ham_bilinear_biquadratic(L, theta, S=S, cyclic=cyclic, compress=compress)
                lh = qtb.ham_1d_bilinear_biquadratic(L, theta, S=S, cyclic=cyclic)
                return close(local_ham_sum(lh, L, D), m.to_dense(), "ham_1d_bilinear_biquadratic vs MPO",
                             tol=3e-5 if compress else 1e-8)

            if not (cyclic and L < 3):
                cx.check("ham_1d_bilinear_biquadratic (sum of embedded pair terms) == MPO_ham_bilinear_biquadratic", p, t_bb2)


# ----------------------------------------------------------------------------------------------
# driver 6: the greedy state machine behind build_mpo on dense term sets (shared prefixes / suffixes / coefficients)
# ----------------------------------------------------------------------------------------------

@driver("C19", "mpo-state-machine", chunks=4, timeout=200,
        bound="5..30 operator strings on 2..7 sites (thorough: ..40 strings, ..8 sites) drawn so that many share prefixes, "
              "suffixes and coefficients (coefficients from {1,-1,0.5,2,c}), Pauli / spin / fermionic alphabets, with and "
              "without Jordan-Wigner: build_mpo().to_dense() and build_dense() vs explicit Kronecker sums; bond dimension "
              "never exceeds the number of terms + 2")
def mpo_state_machine(cx):
    from quimb.operator import HilbertSpace, SparseOperatorBuilder

    rng = cx.rng
    ncases = 60 if cx.quick else 500
    for i in range(ncases * cx.nchunks):
        if not cx.mine():
            continue
        if cx.out_of_time():
            cx.inconclusive.append("mpo-state-machine: time budget exhausted")
            return
        n = int(rng.integers(2, 8 if cx.quick else 9))
        nterms = int(rng.integers(5, 31 if cx.quick else 41))
        alpha = (["x", "y", "z"], ["x", "z", "sz", "+", "-", "n"], ["+", "-", "n", "h"], ["z", "sz", "n"])[int(rng.integers(0, 4))]
        cset = [1.0, -1.0, 0.5, 2.0, float(np.round(rng.normal(), 3)) or 0.3, 1, complex(0.5, -0.25)][: int(rng.integers(2, 8))]
        jw = bool(rng.integers(0, 2)) and ("+" in alpha)
        # a pool of partial strings that get re-used so that terms share prefixes and suffixes
        pool = []
        for _ in range(4):
            k = int(rng.integers(1, min(n, 4) + 1))
            ss = sorted(int(q) for q in rng.choice(n, size=k, replace=False))
            pool.append([(alpha[int(rng.integers(0, len(alpha)))], q) for q in ss])
        terms = []
        for _ in range(nterms):
            base_ops = list(pool[int(rng.integers(0, len(pool)))])
            r = int(rng.integers(0, 4))
            if r == 0 and base_ops:  # change one operator
                q = int(rng.integers(0, len(base_ops)))
                base_ops[q] = (alpha[int(rng.integers(0, len(alpha)))], base_ops[q][1])
            elif r == 1:  # add an operator on a free site
                free = [q for q in range(n) if q not in {s for _, s in base_ops}]
                if free:
                    base_ops.append((alpha[int(rng.integers(0, len(alpha)))], free[int(rng.integers(0, len(free)))]))
            elif r == 2 and len(base_ops) > 1:  # drop one
                base_ops.pop(int(rng.integers(0, len(base_ops))))
            base_ops = [base_ops[int(q)] for q in rng.permutation(len(base_ops))]
            terms.append((cset[int(rng.integers(0, len(cset)))], base_ops))
        reg_of = {q: q for q in range(n)}
        ssp, nonunit, _ = term_flags(terms, reg_of, n, jw)
        p = dict(i=i, n=n, nterms=nterms, alphabet="".join(alpha), ncoeffs=len(cset), jw=jw, same_site_product=ssp,
                 ssp_ratio_nonunit=nonunit)

        def t(terms=terms, n=n, jw=jw, reg_of=reg_of):
            H = SparseOperatorBuilder([(c, *ops) for c, ops in terms], hilbert_space=HilbertSpace(n), jordan_wigner=jw)
            R = ref_matrix(terms, reg_of, n, jw)
            e = close(H.build_dense(), R, "build_dense")
            if e:
                return e
            mpo = H.build_mpo()
            e = close(mpo.to_dense(), R, "build_mpo().to_dense()")
            if e:
                return e
            if mpo.max_bond() > H.nterms + 2:
                return f"bond dimension {mpo.max_bond()} > number of terms + 2 = {H.nterms + 2}"
            return None

        cx.check("build_mpo on a dense term set (shared prefixes / suffixes / coefficients) == reference", p, t)
