"""C15 bounded stand-in: Kronecker / embedding / permutation / partial-trace routines vs explicit numpy references.

References (this file only, plain numpy): nested ``np.kron``; ``np.einsum`` with identity factors for embedding of an
operator on an ordered subset of subsystems; explicit mixed-radix index maps for subsystem permutation and partial
transposition; ``np.einsum`` with repeated labels for partial traces; explicit sums of Kronecker products of 2x2
spin matrices for the Hamiltonian builders.  Nothing here calls quimb to produce a reference value.
"""

import itertools

import numpy as np

from vf.rtc import driver

DTS = ["complex128", "float64", "complex64", "float32"]
SPFMT = ["csr", "csc", "coo", "bsr"]


# ------------------------------------------------------------------------------------------------
# reference semantics (numpy only)
# ------------------------------------------------------------------------------------------------

def _prod(xs):
    r = 1
    for x in xs:
        r *= int(x)
    return r


def _tol(dt):
    return 3e-4 if str(dt) in ("float32", "complex64") else 1e-10


def _rand(rng, shape, dt="complex128", sparsify=False):
    x = rng.normal(size=shape)
    if "complex" in str(dt):
        x = x + 1j * rng.normal(size=shape)
    if sparsify and x.size > 1:
        mask = rng.random(size=shape) < 0.45
        flat = mask.reshape(-1)
        flat[int(rng.integers(flat.size))] = False  # keep at least one entry
        x = np.where(mask, 0.0, x)
    return x.astype(dt)


def _herm(rng, d, dt="complex128"):
    x = _rand(rng, (d, d), dt)
    return ((x + x.conj().T) / 2).astype(dt)


def _dense(x):
    if hasattr(x, "toarray"):
        return np.asarray(x.toarray())
    return np.asarray(x)


def _as(x, fmt):
    """x (ndarray) in the requested input representation"""
    import scipy.sparse as sp

    if fmt == "dense":
        return np.array(x)
    if fmt == "qarray":
        import quimb as qu

        return qu.qarray(np.array(x))
    return getattr(sp, fmt + "_matrix")(np.array(x))


def _cmp(got, ref, what, tol=1e-10):
    got = _dense(got)
    ref = np.asarray(ref)
    if got.shape != ref.shape:
        return f"{what}: shape {got.shape} != reference {ref.shape}"
    if got.size == 0:
        return None
    if not np.all(np.isfinite(got)):
        return f"{what}: non-finite entries"
    scale = max(1.0, float(np.max(np.abs(ref))))
    err = float(np.max(np.abs(got - ref)))
    if err > tol * scale:
        return f"{what}: max abs diff {err:.3e} (scale {scale:.2e}, tol {tol:.0e})"
    return None


def _ref_kron(*ops):
    out = np.ones((1, 1))
    for o in ops:
        out = np.kron(out, np.asarray(o))
    return out


def _digits(dims):
    """(D, n) mixed-radix digits of 0..D-1, first subsystem most significant"""
    n = len(dims)
    D = _prod(dims)
    digs = np.zeros((D, n), dtype=int)
    x = np.arange(D)
    for k in range(n - 1, -1, -1):
        digs[:, k] = x % dims[k]
        x = x // dims[k]
    return digs


def _ravel(digs, dims):
    idx = np.zeros(digs.shape[0], dtype=int)
    for k, d in enumerate(dims):
        idx = idx * int(d) + digs[:, k]
    return idx


def _ref_blocks(blocks, dims):
    """blocks: dict start_site -> (number_of_sites, matrix); identities elsewhere"""
    out = np.ones((1, 1))
    i = 0
    n = len(dims)
    while i < n:
        if i in blocks:
            ln, m = blocks[i]
            out = np.kron(out, np.asarray(m))
            i += ln
        else:
            out = np.kron(out, np.eye(int(dims[i])))
            i += 1
    return out


def _ref_place(A, dims, inds):
    """operator A whose tensor factors are (in this order) the subsystems ``inds`` of ``dims``; identity elsewhere"""
    n = len(dims)
    inds = list(inds)
    din = [int(dims[i]) for i in inds]
    T = np.asarray(A).reshape(din + din)
    args = [T, [i for i in inds] + [n + i for i in inds]]
    for k in range(n):
        if k not in inds:
            args += [np.eye(int(dims[k])), [k, n + k]]
    args.append(list(range(2 * n)))
    D = _prod(dims)
    return np.einsum(*args).reshape(D, D)


def _ref_permute(p, dims, perm):
    """new subsystem j is old subsystem perm[j]"""
    p = np.asarray(p)
    dims = [int(d) for d in dims]
    digs = _digits(dims)
    newdims = [dims[k] for k in perm]
    newpos = _ravel(digs[:, list(perm)], newdims)
    D = len(newpos)
    if p.shape == (D, D) and D > 1:
        out = np.zeros_like(p)
        out[np.ix_(newpos, newpos)] = p
    elif p.shape == (D, 1):
        out = np.zeros_like(p)
        out[newpos, 0] = p[:, 0]
    elif p.shape == (1, D):
        out = np.zeros_like(p)
        out[0, newpos] = p[0, :]
    else:
        raise AssertionError("driver bug: bad shape")
    return out


def _ref_ptr(rho, dims, keep):
    """reduced operator on the kept subsystems in ascending order"""
    dims = [int(d) for d in dims]
    n = len(dims)
    keep = sorted(set(int(k) for k in keep))
    t = np.asarray(rho).reshape(dims + dims)
    a = list(range(n))
    b = [n + i for i in range(n)]
    for i in range(n):
        if i not in keep:
            b[i] = a[i]
    out = [a[i] for i in keep] + [b[i] for i in keep]
    r = np.einsum(t, a + b, out)
    d = _prod(dims[i] for i in keep)
    return r.reshape(d, d)


def _ref_ptranspose(rho, dims, sysa):
    dims = [int(d) for d in dims]
    n = len(dims)
    digs = _digits(dims)
    strides = [_prod(dims[k + 1:]) for k in range(n)]
    a = np.zeros(digs.shape[0], dtype=int)
    for i in set(sysa):
        a += digs[:, i] * strides[i]
    b = np.arange(digs.shape[0]) - a
    rho = np.asarray(rho)
    # out[r, c] = rho[(a(c), b(r)), (a(r), b(c))]
    return rho[a[None, :] + b[:, None], a[:, None] + b[None, :]]


def _flat_index(shape, coo):
    idx = 0
    for c, s in zip(coo, shape):
        idx = idx * s + c
    return idx


def _flatten(x):
    out = []
    for y in x:
        if isinstance(y, (list, tuple, np.ndarray)):
            out.extend(_flatten(y))
        else:
            out.append(int(y))
    return out


def _route(kinds, stype, coo_build, ownership):
    """label of the input class (facts about the *inputs* only; used to match known findings narrowly).
    kinds: representation of every Kronecker factor in order ('dense' or a sparse format)."""
    sparse_seen = False
    dense_after_sparse = False
    for k in kinds:
        if k in ("dense", "qarray"):
            if sparse_seen:
                dense_after_sparse = True
        else:
            sparse_seen = True
    if not sparse_seen:
        return "all-dense+sparse-options" if (stype is not None or coo_build) else "all-dense"
    if ownership is not None:
        if "bsr" in kinds:
            return "bsr-factor+ownership"
        if dense_after_sparse and not coo_build and stype != "coo":
            return "dense-after-sparse+ownership"
    return "plain"


# dimension lists -------------------------------------------------------------------------------

def _dims_lists(quick, maxD=64):
    out = []
    for n in range(1, 5):
        for dims in itertools.product([1, 2, 3], repeat=n):
            if 1 < _prod(dims) <= maxD:
                out.append(list(dims))
    extra = [[2, 2, 2, 2, 2], [1, 2, 1, 3, 2], [2, 3, 1, 2, 2], [4, 2, 5], [5, 1, 3], [3, 4, 5], [2, 2, 2, 2, 3], [8, 8], [64],
             [5], [4, 4, 4], [2, 1, 1, 1, 2], [3, 2, 2, 2, 2], [2, 5, 2, 3], [7, 3, 3], [1, 1, 5, 1, 1]]
    out += [d for d in extra if _prod(d) <= maxD]
    if quick:
        out = out[::3] + extra[:6]
    return out


# ------------------------------------------------------------------------------------------------
# 1. digits / slicing helpers of kron
# ------------------------------------------------------------------------------------------------

@driver("C15", "dynal-helpers", chunks=2, timeout=120,
        bound="bases: every list over {1,2,3,4,5} of length 1..4 with product <= 60 (quick: <= 30), every x in [0, D); "
              "gen_matching_dynal for every 0 <= ri <= rf < D (D <= 24); gen_ops_maybe_sliced on dense/csr/csc/coo factors")
def dynal_helpers(cx):
    import scipy.sparse as sp
    from quimb.core import dynal, gen_matching_dynal, gen_ops_maybe_sliced

    lim = 30 if cx.quick else 60
    for n in range(1, 5):
        for bases in itertools.product([1, 2, 3, 4, 5], repeat=n):
            D = _prod(bases)
            if D > lim:
                continue
            if not cx.mine():
                continue
            bases = list(bases)

            def t(bases=bases, D=D):
                digs = _digits(bases)
                for x in range(D):
                    got = [int(v) for v in dynal(x, bases)]
                    if got != digs[x].tolist():
                        return f"x={x}: digits {got} != {digs[x].tolist()}"

            cx.check("dynal(x, bases) == mixed-radix digits of x", dict(bases=bases), t, nontrivial=D > 1)
            if D <= 24:
                def t2(bases=bases, D=D):
                    digs = _digits(bases)
                    for ri in range(D):
                        for rf in range(ri, D):
                            got = [(int(a), int(b)) for a, b in gen_matching_dynal(ri, rf, bases)]
                            ref = []
                            for a, b in zip(digs[ri], digs[rf]):
                                ref.append((int(a), int(b)))
                                if a != b:
                                    break
                            if got != ref:
                                return f"ri={ri} rf={rf}: {got} != {ref}"

                cx.check("gen_matching_dynal(ri, rf, dims) == common leading digits + first differing pair",
                         dict(bases=bases), t2, nontrivial=D > 1)
    rng = cx.rng
    for case in range(40 if cx.quick else 200):
        if not cx.mine():
            continue
        nops = int(rng.integers(1, 5))
        shapes = [(int(rng.integers(1, 5)), int(rng.integers(1, 4))) for _ in range(nops)]
        fmts = [["dense", "csr", "csc", "coo"][int(rng.integers(0, 4))] for _ in range(nops)]
        mats = [_rand(rng, s, "complex128", sparsify=True) for s in shapes]
        nsl = int(rng.integers(0, nops + 1))
        ix = []
        for k in range(nsl):
            a = int(rng.integers(0, shapes[k][0]))
            b = int(rng.integers(a, shapes[k][0]))
            ix.append((a, b))

        def t3(mats=mats, fmts=fmts, ix=ix):
            ops = [_as(m, f) for m, f in zip(mats, fmts)]
            got = list(gen_ops_maybe_sliced(ops, ix))
            if len(got) != len(ops):
                return f"{len(got)} factors returned for {len(ops)}"
            for k, (g, m) in enumerate(zip(got, mats)):
                ref = m[ix[k][0]:ix[k][1] + 1, :] if k < len(ix) else m
                e = _cmp(g, ref, f"factor {k}")
                if e:
                    return e
                if sp.issparse(ops[k]) != sp.issparse(g):
                    return f"factor {k}: sparsity changed"

        cx.check("gen_ops_maybe_sliced(ops, ix): leading factors row-sliced [d1, d2], rest untouched",
                 dict(case=case, shapes=[list(s) for s in shapes], fmts=fmts, ix=[list(i) for i in ix]), t3)


# ------------------------------------------------------------------------------------------------
# 2. kron with every ownership range
# ------------------------------------------------------------------------------------------------

_KRON_SHAPES = [
    [(2, 2), (3, 3)], [(2, 2), (2, 2), (2, 2)], [(3, 3), (1, 1), (2, 2)], [(1, 1), (4, 4)], [(2, 3), (3, 2)],
    [(2, 1), (3, 1), (2, 1)], [(1, 2), (1, 3)], [(5, 5)], [(2, 2), (3, 3), (2, 2), (3, 3)], [(6, 2), (6, 3)],
    [(2, 2)] * 5, [(4, 1), (3, 3), (3, 2)], [(3, 3), (3, 3), (4, 4)], [(2, 2), (1, 1), (1, 1), (3, 3), (2, 2)],
    [(7, 7), (5, 5)], [(36, 2)], [(3, 1), (1, 3), (2, 2)], [(2, 2), (2, 2), (1, 1)], [(1, 1), (1, 1), (3, 3)],
    [(4, 4), (3, 3), (3, 3)], [(2, 5), (2, 1), (3, 2), (3, 1)],
]


def _kron_format_patterns(n, rng):
    pats = [["dense"] * n, ["qarray"] * n]
    for f in SPFMT:
        pats.append([f] * n)
    if n > 1:
        pats.append(["dense" if k % 2 == 0 else "csr" for k in range(n)])
        pats.append(["csc" if k % 2 == 0 else "dense" for k in range(n)])
        pats.append([(["dense"] + SPFMT)[int(rng.integers(0, 5))] for _ in range(n)])
        pats.append([SPFMT[int(rng.integers(0, 4))] for _ in range(n)])
    return pats


@driver("C15", "kron-ownership-exhaustive", chunks=8, timeout=200,
        bound="21 lists of 1..5 factor shapes (square, rectangular, kets, bras, dims of 1) with D = prod(rows) <= 36; factors "
              "dense / qarray / csr / csc / coo / bsr / mixed; stype in {None,csr,csc,coo,bsr}, coo_build, parallel; "
              "EVERY ownership 0 <= ri < rf <= D, plus the full product, kronpow and the & operator; 4 dtypes")
def kron_ownership(cx):
    import scipy.sparse as sp

    import quimb as qu

    rng = cx.rng
    shapes_list = _KRON_SHAPES[:8] + _KRON_SHAPES[16:18] if cx.quick else _KRON_SHAPES
    for si, shapes in enumerate(shapes_list):
        n = len(shapes)
        D = _prod(s[0] for s in shapes)
        for pi, fmts in enumerate(_kron_format_patterns(n, rng)):
            optgrid = [(None, False, False)]
            all_dense = all(f in ("dense", "qarray") for f in fmts)
            if cx.quick:
                optgrid.append(((None, "csr", "csc", "coo", "bsr")[int(rng.integers(0, 5))], bool(rng.integers(0, 2)),
                                bool(rng.integers(0, 2))))
            elif all_dense:
                optgrid += [(None, False, True), ("csr", False, False), (None, True, False)]
            else:
                optgrid += [(None, True, False), (None, False, True), ("csr", False, False), ("csc", False, False),
                            ("coo", False, False), ("bsr", False, False), ("csr", True, False), ("csc", True, True),
                            ("coo", True, False), ("bsr", True, True)]
            for (stype, coo_build, parallel) in optgrid:
                dt = DTS[int(rng.integers(0, 4))]
                mats = [_rand(rng, s, dt, sparsify=True) for s in shapes]
                if not cx.mine():
                    continue
                if cx.out_of_time():
                    cx.inconclusive.append("kron-ownership-exhaustive: time budget exhausted")
                    return
                full = _ref_kron(*mats)
                tol = _tol(dt)
                base = dict(shapes=[list(s) for s in shapes], fmts=fmts, stype=stype, coo_build=coo_build,
                            parallel=parallel, dtype=dt)
                kws = dict(stype=stype, coo_build=coo_build, parallel=parallel)

                def chk_format(X, fmts=fmts, stype=stype):
                    anysp = any(f in SPFMT for f in fmts)
                    if anysp and not sp.issparse(X):
                        return "sparse factors gave a dense result"
                    if not anysp and sp.issparse(X):
                        return "dense factors gave a sparse result"
                    if sp.issparse(X) and stype is not None and X.format != stype:
                        return f"format {X.format} != requested stype {stype}"
                    return None

                def t_full(mats=mats, fmts=fmts, kws=kws, full=full, tol=tol):
                    ops = [_as(m, f) for m, f in zip(mats, fmts)]
                    X = qu.kron(*ops, **kws)
                    return chk_format(X) or _cmp(X, full, "kron", tol)

                cx.check("kron(*ops) == nested np.kron (full product)",
                         dict(base, route=_route(fmts, stype, coo_build, None)), t_full, nontrivial=n > 1)
                route = _route(fmts, stype, coo_build, (0, 1))
                for ri in range(D):
                    def t_own(ri=ri, mats=mats, fmts=fmts, kws=kws, full=full, tol=tol, D=D):
                        ops = [_as(m, f) for m, f in zip(mats, fmts)]
                        for rf in range(ri + 1, D + 1):
                            X = qu.kron(*ops, ownership=(ri, rf), **kws)
                            e = chk_format(X) or _cmp(X, full[ri:rf, :], f"rows [{ri},{rf})", tol)
                            if e:
                                return e

                    cx.check("kron(*ops, ownership=(ri, rf)) == rows [ri, rf) of the full product, every rf",
                             dict(base, ri=ri, route=route), t_own)
    # kronpow and the & operator
    for case in range(30 if cx.quick else 150):
        if not cx.mine():
            continue
        dt = DTS[int(rng.integers(0, 4))]
        shp = (int(rng.integers(1, 4)), int(rng.integers(1, 4)))
        p = int(rng.integers(1, 4 if max(shp) == 3 else 5))
        fmt = (["dense", "qarray"] + SPFMT)[int(rng.integers(0, 6))]
        a = _rand(rng, shp, dt, sparsify=True)
        D = shp[0] ** p
        own = None
        if rng.integers(0, 2):
            ri = int(rng.integers(0, D))
            own = (ri, int(rng.integers(ri + 1, D + 1)))
        stype = (None, None, "csr", "coo", "csc")[int(rng.integers(0, 5))] if fmt in SPFMT else None

        def t_pow(a=a, p=p, fmt=fmt, own=own, stype=stype, dt=dt):
            ref = _ref_kron(*([a] * p))
            if own is not None:
                ref = ref[own[0]:own[1]]
            kws = {}
            if own is not None:
                kws["ownership"] = own
            if stype is not None:
                kws["stype"] = stype
            X = qu.kronpow(_as(a, fmt), p, **kws)
            return _cmp(X, ref, "kronpow", _tol(dt))

        cx.check("kronpow(a, p) == a (x) ... (x) a (p factors), with ownership rows",
                 dict(case=case, shape=list(shp), p=p, fmt=fmt, ownership=list(own) if own else None, stype=stype, dtype=dt,
                      route=_route([fmt] * p, stype, False, own)), t_pow, nontrivial=p > 1)
        b = _rand(rng, (int(rng.integers(1, 4)), int(rng.integers(1, 4))), dt, sparsify=True)
        fmt2 = (["qarray"] + SPFMT)[int(rng.integers(0, 5))]
        fmt3 = (["dense", "qarray"] + SPFMT)[int(rng.integers(0, 6))]

        def t_and(a=a, b=b, fmt2=fmt2, fmt3=fmt3, dt=dt):
            return _cmp(_as(a, fmt2) & _as(b, fmt3), np.kron(a, b), "a & b", _tol(dt))

        cx.check("a & b == np.kron(a, b) (qarray / sparse operator overload)",
                 dict(case=case, a=list(a.shape), b=list(b.shape), fmts=[fmt2, fmt3], dtype=dt), t_and)


# ------------------------------------------------------------------------------------------------
# 3. ikron
# ------------------------------------------------------------------------------------------------

def _ikron_cases(dims, rng):
    """yield (mode, inds, opshapes, blocks_builder) descriptions: blocks_builder(mats) -> dict for _ref_blocks"""
    n = len(dims)
    # (a) one operator on one site
    for i in range(n):
        yield ("single-site", i, [dims[i]], lambda mats, i=i: {i: (1, mats[0])})
    # (b) one operator overlaid on a contiguous run of sites
    for i in range(n):
        for j in range(i + 1, n):
            sz = _prod(dims[i:j + 1])
            if (sz <= 36 or (i, j) == (0, n - 1)) and sz > 1:
                order = list(range(i, j + 1))
                if (i + j) % 2:
                    order = order[::-1]  # the index *set* matters, not its order
                yield ("overlay-run", order, [sz], lambda mats, i=i, j=j: {i: (j - i + 1, mats[0])})
    # (c) one operator with gaps between the listed sites: it covers the whole range first..last (the form ham_j1j2 uses);
    #     unambiguous only when the first site alone does not already exhaust the operator and has dimension > 1
    for i in range(n):
        for j in range(i + 2, n):
            sz = _prod(dims[i:j + 1])
            if sz <= 36 and dims[i] > 1 and _prod(dims[i + 1:j + 1]) > 1:
                yield ("overlay-range-with-gap", [i, j], [sz], lambda mats, i=i, j=j: {i: (j - i + 1, mats[0])})
    # (d) the same operator repeated on several sites of equal dimension
    for d in sorted(set(dims)):
        sites = [i for i in range(n) if dims[i] == d]
        if len(sites) >= 2 and d > 1:
            k = int(rng.integers(2, len(sites) + 1))
            pick = [int(s) for s in rng.permutation(sites)[:k]]
            yield ("one-op-repeated", pick, [d], lambda mats, pick=pick: {i: (1, mats[0]) for i in pick})
            if len(sites) >= 3:
                pick = [int(s) for s in rng.permutation(sites)[:3]]
                # two operators cyclically on three sites: ops[k % 2] on inds[k]
                yield ("cyclic-2-ops-on-3-sites", pick, [d, d],
                       lambda mats, pick=pick: {pick[0]: (1, mats[0]), pick[1]: (1, mats[1]), pick[2]: (1, mats[0])})
    # (e) several operators, one per listed site, listed in arbitrary order
    if n >= 2:
        for rep in range(2):
            k = int(rng.integers(2, n + 1))
            pick = [int(s) for s in rng.permutation(n)[:k]]
            yield ("ops-per-site", pick, [dims[i] for i in pick],
                   lambda mats, pick=pick: {i: (1, m) for i, m in zip(pick, mats)})


def _ikron_opts(rng, quick, default_first):
    combos = []
    if default_first:
        combos.append(dict(fmt="dense", sparse=None, stype=None, coo_build=False, parallel=False, own=False))
    k = 1 if quick else 3
    for _ in range(k):
        combos.append(dict(fmt=(["dense", "qarray"] + SPFMT)[int(rng.integers(0, 6))],
                           sparse=(None, True, False)[int(rng.integers(0, 3))],
                           stype=(None, None, "csr", "csc", "coo", "bsr")[int(rng.integers(0, 6))],
                           coo_build=bool(rng.integers(0, 2)), parallel=bool(rng.integers(0, 4) == 0),
                           own=bool(rng.integers(0, 2))))
    return combos


def _ikron_kinds(dims, blocks, fmts_by_start, sparse_flag):
    """representation of each Kronecker factor ikron will multiply, from the inputs only (for _route)"""
    opfmts = list(fmts_by_start.values())
    eff = sparse_flag if sparse_flag is not None else any(f in SPFMT for f in opfmts)
    kinds = []
    i = 0
    pending_id = False
    while i < len(dims):
        if i in blocks:
            if pending_id:
                kinds.append("csr" if eff else "dense")
                pending_id = False
            kinds.append(fmts_by_start[i])
            i += blocks[i][0]
        else:
            if dims[i] > 1:
                pending_id = True
            i += 1
    if pending_id:
        kinds.append("csr" if eff else "dense")
    return kinds


@driver("C15", "ikron-embedding", chunks=8, timeout=200,
        bound="dimension lists: all lists over {1,2,3} of length 1..4 plus 16 hand-picked (dims up to 8, 5 subsystems, single "
              "subsystem), total dimension 2..64; placements: one op on one site, one op (larger than 1x1) overlaid on a "
              "contiguous run (index set in any order), overlay over a range with gaps (first site of dimension > 1, the form "
              "ham_j1j2 uses), one op repeated, 2 ops cyclically on 3 sites, one op per site "
              "in arbitrary order, dims of -1 at the targets; op formats dense/qarray/csr/csc/coo/bsr x sparse in "
              "{None,True,False} x stype x coo_build x parallel x random ownership ranges; 4 dtypes; plus every ownership range "
              "for 6 placements with D <= 36")
def ikron_embedding(cx):
    import scipy.sparse as sp

    import quimb as qu

    rng = cx.rng
    for di, dims in enumerate(_dims_lists(cx.quick)):
        D = _prod(dims)
        for ci, (mode, inds, opsz, builder) in enumerate(_ikron_cases(dims, rng)):
            for oi, o in enumerate(_ikron_opts(rng, cx.quick, default_first=True)):
                dt = DTS[int(rng.integers(0, 4))]
                mats = [_rand(rng, (s, s), dt, sparsify=(s > 1)) for s in opsz]
                own = None
                if o["own"]:
                    ri = int(rng.integers(0, D))
                    own = (ri, int(rng.integers(ri + 1, D + 1)))
                as_int = (mode == "single-site" and oi % 2 == 0)
                as_list = bool(len(mats) > 1 or rng.integers(0, 2))
                if not cx.mine():
                    continue
                if cx.out_of_time():
                    cx.inconclusive.append("ikron-embedding: time budget exhausted")
                    return
                blocks = builder(mats)
                ref = _ref_blocks(blocks, dims)
                if own is not None:
                    ref = ref[own[0]:own[1]]
                fmts_by_start = {}
                for st, (ln, m) in blocks.items():
                    fmts_by_start[st] = o["fmt"]
                kinds = _ikron_kinds(dims, blocks, fmts_by_start, o["sparse"])
                route = _route(kinds, o["stype"], o["coo_build"], own)
                params = dict(dims=dims, mode=mode, inds=inds, fmt=o["fmt"], sparse=o["sparse"], stype=o["stype"],
                              coo_build=o["coo_build"], parallel=o["parallel"], ownership=list(own) if own else None,
                              dtype=dt, route=route, opt=oi)

                def t(mats=mats, dims=dims, inds=inds, o=o, own=own, ref=ref, dt=dt, as_int=as_int, as_list=as_list, mode=mode):
                    ops = [_as(m, o["fmt"]) for m in mats]
                    ops_arg = ops if as_list else ops[0]
                    if mode == "single-site":
                        inds_arg = inds if as_int else ([inds] if as_list else (inds,))
                    else:
                        inds_arg = list(inds) if as_list else tuple(inds)
                    X = qu.ikron(ops_arg, list(dims), inds_arg, sparse=o["sparse"], stype=o["stype"], coo_build=o["coo_build"],
                                 parallel=o["parallel"], ownership=own)
                    if sp.issparse(X) and o["stype"] is not None and X.format != o["stype"]:
                        return f"format {X.format} != requested stype {o['stype']}"
                    return _cmp(X, ref, "ikron", _tol(dt))

                cx.check(f"ikron({mode}) == explicit Kronecker product with identities", params, t)
    # dims of -1 at the target sites: "place an operator at the specified sites regardless of size"
    for case in range(20 if cx.quick else 120):
        mine = cx.mine()
        n = int(rng.integers(1, 5))
        dims = [int(rng.integers(1, 4)) for _ in range(n)]
        k = int(rng.integers(1, n + 1))
        sites = sorted(int(s) for s in rng.permutation(n)[:k])
        opsz = [int(rng.integers(1, 4)) for _ in sites]
        full_dims = list(dims)
        for s, z in zip(sites, opsz):
            full_dims[s] = z
        if not (1 < _prod(full_dims) <= 64):
            continue
        same = rng.integers(0, 2) == 0
        if same:
            opsz = [opsz[0]] * len(sites)
            for s in sites:
                full_dims[s] = opsz[0]
            if not (1 < _prod(full_dims) <= 64):
                continue
        mats = [_rand(rng, (z, z), "complex128") for z in opsz]
        if same:
            mats = [mats[0]]
        fmt = (["dense"] + SPFMT)[int(rng.integers(0, 5))]
        if not mine:
            continue
        mdims = [(-1 if i in sites else d) for i, d in enumerate(dims)]

        def t(mats=mats, mdims=mdims, sites=sites, full_dims=full_dims, fmt=fmt, same=same):
            blocks = {s: (1, mats[0] if same else mats[k]) for k, s in enumerate(sites)}
            ref = _ref_blocks(blocks, full_dims)
            ops = [_as(m, fmt) for m in mats]
            X = qu.ikron(ops if len(ops) > 1 else ops[0], mdims, sites)
            return _cmp(X, ref, "ikron with -1 dims")

        cx.check("ikron(dims of -1 at the targets) == operator placed with its own size", dict(case=case, dims=mdims, inds=sites,
                                                                                           opsz=opsz, fmt=fmt), t)
    # every ownership range for a few placements
    exh = [([2, 3, 2], "site", 1), ([2, 3, 2], "run", (0, 1)), ([3, 1, 2, 2], "run", (2, 3)), ([2, 2, 2, 2], "pair", (3, 0)),
           ([1, 4, 3], "site", 2), ([6, 6], "site", 0), ([2, 2, 3, 3], "pair", (1, 2)), ([5, 7], "site", 1),
           ([2, 2, 2, 2, 2], "run", (1, 2, 3))]
    if cx.quick:
        exh = exh[:3]
    for ei, (dims, kind, where) in enumerate(exh):
        D = _prod(dims)
        for fmt, sparse, stype, coo_build in [("dense", None, None, False), ("csr", None, None, False), ("dense", True, "coo", True),
                                              ("coo", True, "csc", False), ("csc", None, None, True), ("bsr", True, None, False),
                                              ("csr", False, None, False), ("qarray", True, "bsr", False)]:
            if cx.quick and fmt in ("csc", "qarray", "coo"):
                continue
            if kind == "site":
                mats = [_rand(rng, (dims[where],) * 2, "complex128", sparsify=True)]
                blocks = {where: (1, mats[0])}
                inds = where
            elif kind == "run":
                sz = _prod(dims[where[0]:where[-1] + 1])
                mats = [_rand(rng, (sz, sz), "complex128", sparsify=True)]
                blocks = {where[0]: (len(where), mats[0])}
                inds = list(where)
            else:
                mats = [_rand(rng, (dims[w],) * 2, "complex128", sparsify=True) for w in where]
                blocks = {w: (1, m) for w, m in zip(where, mats)}
                inds = list(where)
            if not cx.mine():
                continue
            if cx.out_of_time():
                cx.inconclusive.append("ikron-embedding: time budget exhausted")
                return
            full = _ref_blocks(blocks, dims)
            kinds = _ikron_kinds(dims, blocks, {s: fmt for s in blocks}, sparse)
            route = _route(kinds, stype, coo_build, (0, 1))
            for ri in range(D):
                def t(ri=ri, mats=mats, dims=dims, inds=inds, fmt=fmt, sparse=sparse, stype=stype, coo_build=coo_build, full=full, D=D):
                    ops = [_as(m, fmt) for m in mats]
                    for rf in range(ri + 1, D + 1):
                        X = qu.ikron(ops if len(ops) > 1 else ops[0], dims, inds, sparse=sparse, stype=stype, coo_build=coo_build,
                                     ownership=(ri, rf))
                        e = _cmp(X, full[ri:rf], f"rows [{ri},{rf})")
                        if e:
                            return e

                cx.check("ikron(..., ownership=(ri, rf)) == rows [ri, rf) of the full embedding, every rf",
                         dict(dims=dims, inds=inds, fmt=fmt, sparse=sparse, stype=stype, coo_build=coo_build, ri=ri, route=route), t)


# ------------------------------------------------------------------------------------------------
# 4. multi-dimensional coordinates: dim_map, ikron / partial_trace with nested dims; dim_compress
# ------------------------------------------------------------------------------------------------

def _nested(shape, flat):
    if len(shape) == 1:
        return [int(v) for v in flat[:shape[0]]]
    step = _prod(shape[1:])
    return [_nested(shape[1:], flat[k * step:(k + 1) * step]) for k in range(shape[0])]


@driver("C15", "dim-map-compress", chunks=4, timeout=150,
        bound="dim_map: grids of shape (n), (a,b), (a,b,c) with extents 1..3 (1-d: 1..5), subsystem dims 1..3, coordinates in "
              "[-4, 6] per axis, cyclic / trim / both / neither (out-of-range must raise), nested lists and numpy arrays; ikron "
              "and partial_trace with nested dims and coordinate tuples (total dimension <= 64); dim_compress: all lists over "
              "{1,2,3} of length 1..5 with D <= 72 x every index subset: same bipartition of the Hilbert space, product kept, "
              "marked positions alternate")
def dim_map_compress(cx):
    import quimb as qu
    from quimb.core import dim_compress, dim_map

    rng = cx.rng
    shapes = [(n,) for n in range(1, 6)] + [(a, b) for a in range(1, 4) for b in range(1, 4)] + \
             [(a, b, c) for a in range(1, 3) for b in range(1, 4) for c in range(1, 3)]
    reps = 3 if cx.quick else 12
    for shape in shapes:
        for rep in range(reps):
            for cyclic, trim in ((False, False), (True, False), (False, True), (True, True)):
                N = _prod(shape)
                flat = [int(v) for v in rng.integers(1, 4, size=N)]
                ncoo = int(rng.integers(1, 5))
                in_range = (not cyclic and not trim) and rep % 3 != 0
                coos = []
                for _ in range(ncoo):
                    if in_range:
                        coos.append(tuple(int(rng.integers(0, s)) for s in shape))
                    else:
                        coos.append(tuple(int(rng.integers(-4, 7)) for s in shape))
                as_np = bool(rng.integers(0, 2))
                int_coos = len(shape) == 1 and bool(rng.integers(0, 2))
                if not cx.mine():
                    continue

                def t(shape=shape, flat=flat, coos=coos, cyclic=cyclic, trim=trim, as_np=as_np, int_coos=int_coos):
                    dims = _nested(shape, flat)
                    if as_np:
                        dims = np.array(dims)
                    carg = [c[0] for c in coos] if int_coos else list(coos)
                    ok = [all(0 <= c < s for c, s in zip(coo, shape)) for coo in coos]
                    if cyclic:
                        ref = [_flat_index(shape, [c % s for c, s in zip(coo, shape)]) for coo in coos]
                    elif trim:
                        ref = [_flat_index(shape, coo) for coo, k in zip(coos, ok) if k]
                    elif all(ok):
                        ref = [_flat_index(shape, coo) for coo in coos]
                    else:
                        try:
                            r = dim_map(dims, carg, cyclic=cyclic, trim=trim)
                        except ValueError:
                            return None
                        return f"out-of-range coordinate accepted: {r}"
                    fd, inds = dim_map(dims, carg, cyclic=cyclic, trim=trim)
                    if [int(v) for v in fd] != flat:
                        return f"flat dims {list(fd)} != {flat}"
                    if [int(v) for v in inds] != ref:
                        return f"indices {list(inds)} != {ref}"

                cx.check("dim_map(dims, coos, cyclic, trim) == row-major flattening with wrap / drop / reject",
                         dict(shape=list(shape), rep=rep, cyclic=cyclic, trim=trim, coos=[list(c) for c in coos], np=as_np,
                              int_coos=int_coos), t)
    # ikron / ptr with nested dims
    nd_shapes = [(2, 2), (1, 3), (3, 1), (2, 3), (3, 2), (2, 1, 2), (1, 2, 2), (2, 2, 1), (1, 1, 2), (2, 2, 2)]
    for shape in nd_shapes:
        for rep in range(2 if cx.quick else 8):
            N = _prod(shape)
            while True:
                flat = [int(v) for v in rng.integers(1, 4, size=N)]
                if 1 < _prod(flat) <= 64:
                    break
            k = int(rng.integers(1, min(N, 3) + 1))
            sites = [int(s) for s in rng.permutation(N)[:k]]
            coos = [tuple(int(v) for v in np.unravel_index(s, shape)) for s in sites]
            mats = [_rand(rng, (flat[s], flat[s]), "complex128") for s in sites]
            fmt = (["dense"] + SPFMT[:2])[int(rng.integers(0, 3))]
            D = _prod(flat)
            rho = _herm(rng, D)
            psi = _rand(rng, (D, 1))
            as_np = bool(rng.integers(0, 2))
            if not cx.mine():
                continue

            def t(shape=shape, flat=flat, sites=sites, coos=coos, mats=mats, fmt=fmt, as_np=as_np):
                dims = _nested(shape, flat)
                if as_np:
                    dims = np.array(dims)
                ref = _ref_blocks({s: (1, m) for s, m in zip(sites, mats)}, flat)
                X = qu.ikron([_as(m, fmt) for m in mats], dims, list(coos))
                return _cmp(X, ref, "ikron nested dims")

            cx.check("ikron(ops, nested dims, coordinate tuples) == embedding at the row-major flattened sites",
                     dict(shape=list(shape), dims=flat, coos=[list(c) for c in coos], fmt=fmt, np=as_np, rep=rep), t)

            def t2(shape=shape, flat=flat, sites=sites, coos=coos, rho=rho, psi=psi, as_np=as_np):
                dims = _nested(shape, flat)
                if as_np:
                    dims = np.array(dims)
                e = _cmp(qu.partial_trace(rho, dims, list(coos)), _ref_ptr(rho, flat, sites), "ptr(op) nested dims")
                if e:
                    return e
                return _cmp(qu.ptr(psi, dims, list(coos)), _ref_ptr(psi @ psi.conj().T, flat, sites), "ptr(ket) nested dims")

            cx.check("partial_trace(p, nested dims, coordinate tuples) == reduced state of the flattened sites",
                     dict(shape=list(shape), dims=flat, coos=[list(c) for c in coos], np=as_np, rep=rep), t2)
    # dim_compress
    for n in range(1, 6):
        for dims in itertools.product([1, 2, 3], repeat=n):
            if _prod(dims) > 72:
                continue
            if cx.quick and (sum(dims) + n) % 3:
                continue
            if not cx.mine():
                continue
            dims = list(dims)
            for k in range(0, n + 1):
                for inds in itertools.combinations(range(n), k):
                    if k == 0:
                        continue

                    def t(dims=dims, inds=inds):
                        arg = inds[0] if len(inds) == 1 and inds[0] % 2 else (list(inds)[::-1] if len(inds) % 2 else tuple(inds))
                        nd, ni = dim_compress(dims, arg)
                        nd, ni = [int(v) for v in nd], [int(v) for v in ni]
                        if any(d < 1 for d in nd):
                            return f"compressed dims {nd} not positive"
                        if _prod(nd) != _prod(dims):
                            return f"product of compressed dims {nd} != {_prod(dims)}"
                        if any(not (0 <= i < len(nd)) for i in ni) or len(set(ni)) != len(ni):
                            return f"bad compressed indices {ni} for {nd}"
                        if any(b - a != 2 for a, b in zip(ni, ni[1:])):
                            return f"marked positions {ni} do not alternate (dims {nd})"

                        def bipart(dd, ii):
                            digs = _digits(dd)
                            m = [i for i in range(len(dd)) if i in ii]
                            u = [i for i in range(len(dd)) if i not in ii]
                            return _ravel(digs[:, m], [dd[i] for i in m]), _ravel(digs[:, u], [dd[i] for i in u])

                        a0, b0 = bipart(dims, set(inds))
                        a1, b1 = bipart(nd, set(ni))
                        if not (np.array_equal(a0, a1) and np.array_equal(b0, b1)):
                            return f"compressed ({nd}, {ni}) denotes a different bipartition"

                    cx.check("dim_compress(dims, inds): same product, same marked/unmarked bipartition, marked positions alternate",
                             dict(dims=dims, inds=list(inds), unit_dim=1 in dims), t, nontrivial=n > 1)


# ------------------------------------------------------------------------------------------------
# 5. permute / pkron
# ------------------------------------------------------------------------------------------------

@driver("C15", "permute-pkron", chunks=8, timeout=200,
        bound="same dimension lists (D <= 64); permute: every permutation for <= 4 subsystems, 6 random for 5; kets, bras, "
              "operators (non-Hermitian), product states; dense / qarray / csr / csc / coo / bsr; pkron: every ordered subset of "
              "<= 3 sites (non-contiguous, reordered) incl. all sites, op dense or sparse, sparse / stype / coo_build options; "
              "permute(ikron(A, dims, i)) == ikron(A, dims[perm], perm^-1(i)); 4 dtypes")
def permute_pkron(cx):
    import scipy.sparse as sp

    import quimb as qu

    rng = cx.rng
    for dims in _dims_lists(cx.quick):
        n = len(dims)
        D = _prod(dims)
        perms = list(itertools.permutations(range(n))) if n <= 4 else \
            [tuple(int(v) for v in rng.permutation(n)) for _ in range(6)]
        if cx.quick and len(perms) > 6:
            perms = [perms[int(k)] for k in rng.permutation(len(perms))[:6]]
        for perm in perms:
            for kind in ("ket", "bra", "op"):
                dt = DTS[int(rng.integers(0, 4))]
                fmt = (["dense", "qarray"] + SPFMT)[int(rng.integers(0, 6))]
                shape = {"ket": (D, 1), "bra": (1, D), "op": (D, D)}[kind]
                x = _rand(rng, shape, dt, sparsify=fmt in SPFMT)
                perm_as = (list, tuple, np.array)[int(rng.integers(0, 3))]
                if not cx.mine():
                    continue
                if cx.out_of_time():
                    cx.inconclusive.append("permute-pkron: time budget exhausted")
                    return

                def t(x=x, dims=dims, perm=perm, fmt=fmt, dt=dt, perm_as=perm_as):
                    got = qu.permute(_as(x, fmt), list(dims), perm_as(perm))
                    if (fmt in SPFMT) != sp.issparse(got):
                        return "sparsity of the result differs from the input"
                    return _cmp(got, _ref_permute(x, dims, perm), "permute", _tol(dt))

                cx.check("permute(p, dims, perm): subsystem j of the result is subsystem perm[j] of the input",
                         dict(dims=dims, perm=list(perm), kind=kind, fmt=fmt, dtype=dt), t,
                         nontrivial=list(perm) != sorted(perm))
            # product states / operators: permuting the product == product of the permuted factors
            facs = [_rand(rng, (d, 1)) for d in dims]
            ofacs = [_rand(rng, (d, d)) for d in dims]
            if cx.mine():
                def t2(facs=facs, ofacs=ofacs, dims=dims, perm=perm):
                    e = _cmp(qu.permute(_ref_kron(*facs), dims, perm), _ref_kron(*[facs[k] for k in perm]), "product ket")
                    if e:
                        return e
                    return _cmp(qu.permute(_ref_kron(*ofacs), dims, perm), _ref_kron(*[ofacs[k] for k in perm]), "product op")

                cx.check("permute(a0 (x) a1 (x) ...) == a_perm[0] (x) a_perm[1] (x) ...", dict(dims=dims, perm=list(perm)), t2,
                         nontrivial=n > 1)
            # permute-then-embed == embed on permuted subsystems
            i = int(rng.integers(0, n))
            A = _rand(rng, (dims[i], dims[i]))
            if cx.mine():
                def t3(A=A, i=i, dims=dims, perm=perm):
                    lhs = qu.permute(qu.ikron(A, dims, i), dims, perm)
                    newdims = [dims[k] for k in perm]
                    j = list(perm).index(i)
                    ref = _ref_blocks({j: (1, A)}, newdims)
                    e = _cmp(lhs, ref, "permute(ikron)")
                    if e:
                        return e
                    return _cmp(qu.ikron(A, newdims, j), ref, "ikron on permuted dims")

                cx.check("permute(ikron(A, dims, i), dims, perm) == ikron(A, dims[perm], position of i in perm)",
                         dict(dims=dims, perm=list(perm), i=i), t3)
        # pkron
        subsets = [s for k in range(1, min(n, 3) + 1) for s in itertools.permutations(range(n), k)]
        if n > 3:
            subsets.append(tuple(int(v) for v in rng.permutation(n)))
        if cx.quick and len(subsets) > 8:
            subsets = [subsets[int(k)] for k in rng.permutation(len(subsets))[:8]]
        for inds in subsets:
            sz = _prod(dims[i] for i in inds)
            dt = DTS[int(rng.integers(0, 4))]
            fmt = (["dense", "qarray"] + SPFMT)[int(rng.integers(0, 6))]
            A = _rand(rng, (sz, sz), dt, sparsify=fmt in SPFMT and sz > 1)
            opts = {}
            r = int(rng.integers(0, 4))
            if r == 1:
                opts = dict(sparse=True)
            elif r == 2:
                opts = dict(sparse=True, stype=SPFMT[int(rng.integers(0, 4))])
            elif r == 3:
                opts = dict(sparse=True, coo_build=True)
            inds_as = (list, tuple, np.array)[int(rng.integers(0, 3))]
            if not cx.mine():
                continue
            if cx.out_of_time():
                cx.inconclusive.append("permute-pkron: time budget exhausted")
                return

            def t4(A=A, dims=dims, inds=inds, fmt=fmt, opts=opts, dt=dt, inds_as=inds_as):
                got = qu.pkron(_as(A, fmt), list(dims), inds_as(inds), **opts)
                return _cmp(got, _ref_place(A, dims, inds), "pkron", _tol(dt))

            cx.check("pkron(op, dims, inds): tensor factor k of op acts on subsystem inds[k], identity elsewhere",
                     dict(dims=dims, inds=list(inds), fmt=fmt, opts=opts, dtype=dt,
                          route=_route([fmt] + (["csr"] if (D // sz > 1 and (opts.get("sparse") or fmt in SPFMT)) else
                                                ["dense"] if D // sz > 1 else []),
                                       opts.get("stype"), opts.get("coo_build", False), None)), t4)


# ------------------------------------------------------------------------------------------------
# 6. partial trace, itrace, partial transpose, adjointness
# ------------------------------------------------------------------------------------------------

@driver("C15", "partial-trace", chunks=8, timeout=200,
        bound="same dimension lists (D <= 64), every subset of kept subsystems (incl. none and all) given in random order as "
              "list / tuple / int; dense ket, dense Hermitian and non-Hermitian operator, sparse (csr/csc/coo/bsr) Hermitian "
              "operator and sparse ket; .ptr methods; ket vs projector; adjointness Tr[ikron(A) rho] == Tr[A ptr(rho)] for "
              "contiguous runs and Tr[pkron(A) rho] for arbitrary ordered subsets; partial_transpose for every subset (ket, bra, "
              "operator); itrace on random tensors with 1..3 traced pairs; 4 dtypes")
def partial_trace(cx):
    import quimb as qu
    from quimb.calc import partial_transpose

    rng = cx.rng
    for dims in _dims_lists(cx.quick):
        n = len(dims)
        D = _prod(dims)
        unit = 1 in dims
        subsets = [s for k in range(0, n + 1) for s in itertools.combinations(range(n), k)]
        for keep in subsets:
            dt = DTS[int(rng.integers(0, 4))]
            psi = _rand(rng, (D, 1), dt)
            rho = _herm(rng, D, dt)
            gen = _rand(rng, (D, D), dt)
            order = [int(keep[k]) for k in rng.permutation(len(keep))] if keep else []
            karg_kind = int(rng.integers(0, 3))
            sfmt = SPFMT[int(rng.integers(0, 4))]
            A = _rand(rng, (_prod(dims[i] for i in keep),) * 2)
            if not cx.mine():
                continue
            if cx.out_of_time():
                cx.inconclusive.append("partial-trace: time budget exhausted")
                return
            if len(order) == 1 and karg_kind == 2:
                karg = order[0]
            elif karg_kind == 1:
                karg = tuple(order)
            else:
                karg = list(order)
            tol = _tol(dt) * 10
            base = dict(dims=dims, keep=order, dtype=dt)
            kept_dim = _prod(dims[i] for i in keep)

            def t_ket(psi=psi, dims=dims, karg=karg, keep=keep, tol=tol):
                ref = _ref_ptr(psi @ psi.conj().T, dims, keep)
                e = _cmp(qu.partial_trace(psi, list(dims), karg), ref, "partial_trace(ket)", tol)
                if e:
                    return e
                e = _cmp(qu.qarray(psi).ptr(dims, karg), ref, "qarray.ptr(ket)", tol)
                if e:
                    return e
                # ket and its projector give the same reduced state
                return _cmp(qu.ptr(psi @ psi.conj().T, dims, karg), ref, "ptr(projector)", tol)

            cx.check("ptr(ket, dims, keep) == ptr(|psi><psi|) == einsum reduced state on the kept subsystems (ascending)",
                     dict(base, kind="ket"), t_ket, nontrivial=len(keep) < n)

            def t_op(rho=rho, gen=gen, dims=dims, karg=karg, keep=keep, tol=tol):
                e = _cmp(qu.ptr(rho, dims, karg), _ref_ptr(rho, dims, keep), "ptr(hermitian op)", tol)
                if e:
                    return e
                return _cmp(qu.ptr(qu.qarray(gen), tuple(dims), karg), _ref_ptr(gen, dims, keep), "ptr(general op)", tol)

            cx.check("ptr(dense operator, dims, keep) == einsum partial trace", dict(base, kind="op"), t_op,
                     nontrivial=len(keep) < n)

            def t_sp(rho=rho, dims=dims, karg=karg, keep=keep, tol=tol, sfmt=sfmt):
                ref = _ref_ptr(rho, dims, keep)
                S = _as(rho, sfmt)
                e = _cmp(qu.ptr(S, dims, karg), ref, "ptr(sparse)", tol)
                if e:
                    return e
                return _cmp(S.ptr(dims, karg), ref, "sparse.ptr method", tol)

            cx.check("ptr(sparse Hermitian operator, dims, keep) == dense reference, every sparse format",
                     dict(base, kind="sparse-op", fmt=sfmt, unit_dim=bool(unit or not keep)), t_sp, nontrivial=len(keep) < n)

            def t_spk(psi=psi, dims=dims, karg=karg, keep=keep, tol=tol, sfmt=sfmt):
                ref = _ref_ptr(psi @ psi.conj().T, dims, keep)
                return _cmp(qu.ptr(_as(psi, sfmt), dims, karg), ref, "ptr(sparse ket)", tol)

            cx.check("ptr(sparse ket, dims, keep) == reduced state of the projector",
                     dict(base, kind="sparse-ket", fmt=sfmt, unit_dim=bool(unit or not keep)), t_spk, nontrivial=len(keep) < n)

            # adjointness (contiguous runs via ikron, any ordered subset via pkron)
            if keep and kept_dim <= 36:
                contiguous = list(keep) == list(range(keep[0], keep[-1] + 1))

                def t_adj(A=A, rho=rho, dims=dims, keep=keep, order=order, contiguous=contiguous, tol=tol):
                    rho = rho.astype("complex128")
                    red = _ref_ptr(rho, dims, keep)
                    rhs_ref = np.trace(A @ red)
                    if contiguous and (A.shape[0] > 1 or len(keep) == 1):
                        E = _dense(qu.ikron(A, dims, list(keep)))
                        lhs = np.trace(E @ rho)
                        rhs = np.trace(A @ _dense(qu.ptr(rho, dims, list(keep))))
                        for nm, v in (("Tr[ikron(A) rho]", lhs), ("Tr[A ptr(rho)]", rhs)):
                            if abs(v - rhs_ref) > tol * max(1.0, abs(rhs_ref)) * D:
                                return f"{nm} = {v} != reference {rhs_ref}"
                    # ordered subset: A's factors in the order `order`
                    Ao = A
                    E = _dense(qu.pkron(Ao, dims, list(order)))
                    # reference: bring A to ascending order of sites, then trace against the reduced state
                    kd = [dims[i] for i in order]
                    perm = sorted(range(len(order)), key=lambda k: order[k])
                    As = _ref_permute(Ao, kd, perm)
                    v = np.trace(E @ rho)
                    w = np.trace(As @ red)
                    if abs(v - w) > tol * max(1.0, abs(w)) * D:
                        return f"Tr[pkron(A, order {order}) rho] = {v} != Tr[A_sorted ptr(rho)] = {w}"

                cx.check("adjointness: Tr[embed(A) rho] == Tr[A ptr(rho)] (ikron on runs, pkron on ordered subsets)",
                         dict(base, contiguous=contiguous), t_adj, nontrivial=len(keep) < n)

            # partial transpose
            def t_pt(rho=rho, gen=gen, psi=psi, dims=dims, karg=karg, keep=keep, tol=tol):
                sysa = karg
                e = _cmp(partial_transpose(gen, dims, sysa), _ref_ptranspose(gen, dims, keep), "partial_transpose(op)", tol)
                if e:
                    return e
                return _cmp(partial_transpose(psi, tuple(dims), sysa), _ref_ptranspose(psi @ psi.conj().T, dims, keep),
                            "partial_transpose(ket)", tol)

            cx.check("partial_transpose(p, dims, sysa): row/column digits of the subsystems in sysa exchanged (ket -> projector)",
                     dict(base, kind="dense"), t_pt, nontrivial=0 < len(keep) < n)

            def t_pts(gen=gen, dims=dims, karg=karg, keep=keep, tol=tol, sfmt=sfmt):
                return _cmp(partial_transpose(_as(gen, sfmt), dims, karg), _ref_ptranspose(gen, dims, keep),
                            "partial_transpose(sparse)", tol)

            if len(keep) == 1:
                cx.check("partial_transpose(sparse operator) == dense reference", dict(base, kind="sparse", fmt=sfmt), t_pts,
                         nontrivial=0 < len(keep) < n)
    # itrace
    for case in range(60 if cx.quick else 400):
        npairs = int(rng.integers(1, 4))
        nfree = int(rng.integers(0, 3))
        pd = [int(rng.integers(1, 4)) for _ in range(npairs)]
        fd = [int(rng.integers(1, 4)) for _ in range(nfree)]
        labels = [("p", k) for k in range(npairs)] * 2 + [("f", k) for k in range(nfree)]
        order = [labels[int(k)] for k in rng.permutation(len(labels))]
        shape = [pd[l[1]] if l[0] == "p" else fd[l[1]] for l in order]
        T = _rand(rng, shape)
        pair_order = [int(k) for k in rng.permutation(npairs)]
        if not cx.mine():
            continue

        def t(T=T, order=order, npairs=npairs, pair_order=pair_order):
            from quimb.core import itrace

            ax1, ax2 = [], []
            for k in pair_order:
                pos = [i for i, l in enumerate(order) if l == ("p", k)]
                ax1.append(pos[0])
                ax2.append(pos[1])
            lab = []
            nxt = npairs
            for l in order:
                if l[0] == "p":
                    lab.append(l[1])
                else:
                    lab.append(nxt)
                    nxt += 1
            ref = np.einsum(T, lab, [x for x in lab if x >= npairs])
            if npairs == 1:
                e = _cmp(itrace(T, (ax1[0], ax2[0])), ref, "itrace (int pair)")
                if e:
                    return e
            return _cmp(itrace(T, (ax1, ax2)), ref, "itrace")

        cx.check("itrace(a, axes) == einsum with the paired axes contracted, remaining axes in order",
                 dict(case=case, shape=shape, npairs=npairs), t)


# ------------------------------------------------------------------------------------------------
# 7. Hamiltonian builders with ownership
# ------------------------------------------------------------------------------------------------

_S = {"x": np.array([[0, 0.5], [0.5, 0]], dtype=complex), "y": np.array([[0, -0.5j], [0.5j, 0]]),
      "z": np.array([[0.5, 0], [0, -0.5]], dtype=complex)}


def _site(op, i, n):
    return np.kron(np.kron(np.eye(2 ** i), op), np.eye(2 ** (n - i - 1)))


def _bond(i, j, n, js):
    return sum(jv * _site(_S[s], i, n) @ _site(_S[s], j, n) for jv, s in zip(js, "xyz"))


def _ref_heis(n, js, bs, cyclic):
    H = np.zeros((2 ** n, 2 ** n), dtype=complex)
    for i in range(n if cyclic else n - 1):
        H += _bond(i, (i + 1) % n, n, js)
    for i in range(n):
        for bv, s in zip(bs, "xyz"):
            H -= bv * _site(_S[s], i, n)
    return H


def _ref_j1j2(n, j1, j2, bz, cyclic):
    H = np.zeros((2 ** n, 2 ** n), dtype=complex)
    for i in range(n):
        for dist, jv in ((1, j1), (2, j2)):
            k = i + dist
            if k >= n and not cyclic:
                continue
            H += _bond(i, k % n, n, (jv, jv, jv))
        H += bz * _site(_S["z"], i, n)
    return H


def _ref_heis2d(n, m, js, bz, cyclic):
    N = n * m
    H = np.zeros((2 ** N, 2 ** N), dtype=complex)
    for a in range(n):
        for b in range(m):
            if cyclic or a + 1 < n:
                H += _bond(a * m + b, ((a + 1) % n) * m + b, N, js)
            if cyclic or b + 1 < m:
                H += _bond(a * m + b, a * m + (b + 1) % m, N, js)
            H += bz * _site(_S["z"], a * m + b, N)
    return H


def _three(x):
    return tuple(x) if isinstance(x, (tuple, list)) else (x, x, x)


@driver("C15", "hamiltonians-ownership", chunks=8, timeout=240,
        bound="ham_heis / ham_ising / ham_XY / ham_XXZ / ham_j1j2 / ham_mbl for n = 2..5 spins (j1j2: n >= 3), "
              "ham_heis_2D on 1x2..2x3 lattices (cyclic only with both extents >= 2); scalar and 3-vector couplings / fields "
              "incl. zeros, cyclic or open, sparse True/False, stype csr/csc/coo/bsr, parallel; full matrix == explicit sum of "
              "Kronecker products of spin-1/2 matrices; EVERY ownership range for D <= 32 (quick: D <= 8, 12 random ranges above), "
              "40 random ranges for D = 64")
def hamiltonians(cx):
    import scipy.sparse as sp

    import quimb as qu

    rng = cx.rng
    nmax = 5
    configs = []
    for n in range(2, nmax + 1):
        for cyclic in (False, True):
            configs.append(("heis", n, dict(j=1.0, b=0.0, cyclic=cyclic)))
            configs.append(("heis", n, dict(j=(0.7, -1.1, 0.4), b=(0.3, -0.2, 0.9), cyclic=cyclic)))
            configs.append(("heis", n, dict(j=-0.8, b=0.45, cyclic=cyclic)))
            configs.append(("heis", n, dict(j=(0.0, 0.6, 0.0), b=(0.0, 0.5, 0.0), cyclic=cyclic)))
            configs.append(("ising", n, dict(jz=0.9, bx=-0.6, cyclic=cyclic)))
            configs.append(("XY", n, dict(jxy=1.3, bz=0.4, cyclic=cyclic)))
            configs.append(("XXZ", n, dict(delta=0.35, jxy=-0.9, cyclic=cyclic)))
            configs.append(("mbl", n, dict(dh=0.8, j=1.1, bz=0.3, cyclic=cyclic, seed=11 + n, dh_dist="s", dh_dim=1)))
            configs.append(("mbl", n, dict(dh=(0.5, 0.2, 0.9), j=(1.0, 0.5, -0.3), bz=0.0, cyclic=cyclic, seed=5, dh_dist="g")))
            configs.append(("mbl", n, dict(dh=1.2, cyclic=cyclic, seed=3, dh_dist="qp", dh_dim="z", beta=0.37)))
            configs.append(("mbl", n, dict(dh=0.6, cyclic=cyclic, seed=8, dh_dist="s", dh_dim=3)))
            if n >= 3:
                configs.append(("j1j2", n, dict(j1=1.0, j2=0.5, bz=0.0, cyclic=cyclic)))
                configs.append(("j1j2", n, dict(j1=-0.7, j2=1.4, bz=0.25, cyclic=cyclic)))
    for (a, b) in [(1, 2), (2, 1), (2, 2), (1, 3), (3, 1), (1, 4), (2, 3), (3, 2)]:
        for cyclic in (False, True):
            if cyclic and min(a, b) < 2:
                continue
            if cx.quick and a * b > 4:
                continue
            configs.append(("2D", (a, b), dict(j=1.0, bz=0.0, cyclic=cyclic)))
            configs.append(("2D", (a, b), dict(j=(0.4, -0.9, 1.2), bz=0.35, cyclic=cyclic)))

    def build(name, n, kw, **opts):
        kw = dict(kw)
        if name == "heis":
            return qu.ham_heis(n, **kw, **opts)
        if name == "ising":
            return qu.ham_ising(n, **kw, **opts)
        if name == "XY":
            return qu.ham_XY(n, **kw, **opts)
        if name == "XXZ":
            return qu.ham_XXZ(n, **kw, **opts)
        if name == "j1j2":
            return qu.ham_j1j2(n, **kw, **opts)
        if name == "mbl":
            return qu.ham_mbl(n, **kw, **opts)
        return qu.ham_heis_2D(n[0], n[1], **kw, **opts)

    def reference(name, n, kw):
        cyc = kw["cyclic"]
        if name == "heis":
            b = kw["b"]
            return _ref_heis(n, _three(kw["j"]), tuple(b) if isinstance(b, tuple) else (0.0, 0.0, b), cyc)
        if name == "ising":
            return _ref_heis(n, (0, 0, kw["jz"]), (kw["bx"], 0, 0), cyc)
        if name == "XY":
            return _ref_heis(n, (kw["jxy"], kw["jxy"], 0), (0, 0, kw["bz"]), cyc)
        if name == "XXZ":
            return _ref_heis(n, (kw["jxy"], kw["jxy"], kw["delta"]), (0, 0, 0), cyc)
        if name == "j1j2":
            return _ref_j1j2(n, kw["j1"], kw["j2"], kw["bz"], cyc)
        if name == "mbl":
            H = _ref_heis(n, _three(kw.get("j", 1.0)), (0, 0, kw.get("bz", 0.0)), cyc)
            dh = kw["dh"]
            dim = kw.get("dh_dim", 1)
            dim = {0: "", 1: "z", 2: "xy", 3: "xyz"}.get(dim, dim)
            dhds = tuple(dh) if isinstance(dh, tuple) else tuple(dh if s in dim else 0.0 for s in "xyz")
            np.random.seed(kw["seed"])
            dist = kw["dh_dist"]
            if dist == "s":
                rs = 2.0 * np.random.rand(3, n) - 1.0
            elif dist == "g":
                rs = np.random.randn(3, n)
            else:
                delta = 2 * np.pi * np.random.rand()
                rs = np.cos(2 * np.pi * kw["beta"] * np.broadcast_to(np.arange(n), (3, n)) + delta)
            for i in range(n):
                for k, s in enumerate("xyz"):
                    H += dhds[k] * rs[k, i] * _site(_S[s], i, n)
            return H
        return _ref_heis2d(n[0], n[1], _three(kw["j"]), kw["bz"], cyc)

    for ci, (name, n, kw) in enumerate(configs):
        N = n if isinstance(n, int) else n[0] * n[1]
        D = 2 ** N
        variants = [dict(sparse=False), dict(sparse=True), dict(sparse=True, stype=SPFMT[ci % 4])]
        if name in ("heis", "ising", "XY", "XXZ", "2D"):
            variants.append(dict(sparse=bool(ci % 2), parallel=True))
        pkw = {k: (list(v) if isinstance(v, tuple) else v) for k, v in kw.items()}
        for vi, opts in enumerate(variants):
            if not cx.mine():
                continue
            if cx.out_of_time():
                cx.inconclusive.append("hamiltonians-ownership: time budget exhausted")
                return
            ref = reference(name, n, kw)

            def t_full(name=name, n=n, kw=kw, opts=opts, ref=ref):
                H = build(name, n, kw, **opts)
                if opts.get("sparse"):
                    if not sp.issparse(H):
                        return "sparse=True gave a dense matrix"
                    if H.format != opts.get("stype", "csr"):
                        return f"format {H.format} != {opts.get('stype', 'csr')}"
                elif sp.issparse(H):
                    return "sparse=False gave a sparse matrix"
                return _cmp(H, ref, "full hamiltonian")

            cx.check(f"ham_{name}(...) == explicit sum of Kronecker products of spin matrices",
                     dict(n=n, args=pkw, opts=opts), t_full)
            if vi == 2 and D > 16:
                continue  # ownership for three variants only on the larger systems
            if D <= (8 if cx.quick else 32):
                for ri in range(D):
                    def t_own(ri=ri, name=name, n=n, kw=kw, opts=opts, ref=ref, D=D):
                        for rf in range(ri + 1, D + 1):
                            H = build(name, n, kw, ownership=(ri, rf), **opts)
                            e = _cmp(H, ref[ri:rf], f"rows [{ri},{rf})")
                            if e:
                                return e

                    cx.check(f"ham_{name}(..., ownership=(ri, rf)) == rows [ri, rf) of the full matrix, every rf",
                             dict(n=n, args=pkw, opts=opts, ri=ri), t_own)
            else:
                for k in range(12 if cx.quick else 40):
                    ri = int(rng.integers(0, D))
                    rf = int(rng.integers(ri + 1, D + 1))

                    def t_own1(ri=ri, rf=rf, name=name, n=n, kw=kw, opts=opts, ref=ref):
                        return _cmp(build(name, n, kw, ownership=(ri, rf), **opts), ref[ri:rf], f"rows [{ri},{rf})")

                    cx.check(f"ham_{name}(..., ownership=(ri, rf)) == rows [ri, rf) of the full matrix (sampled ranges)",
                             dict(n=n, args=pkw, opts=opts, ri=ri, rf=rf), t_own1)
