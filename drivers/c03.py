"""C03 bounded stand-in: labelled semantics -- axis order never matters; non-in-place calls never mutate.

By reflection (inspect over the MRO of the receiver classes) every method with an ``inplace`` parameter and every
``f_`` alias is found on every run; a per-method argument table (keyed ``Owner.name``) supplies argument values
computed from the receiver; methods without an entry that need arguments are reported as *not exercised* (counted
in a contract of their own, never silently skipped).

Contracts (per receiver, method, argument case):
 1. the plain spelling (``inplace=False``) leaves receiver and tensor/network arguments observably unchanged
    (fingerprint: class, labels, tags, left_inds, dtype, shape, bytes of every array, exponent, maps, site-structure
    properties); every array of the receiver is made read-only first, so numpy itself raises on an in-place write
    through an array that copies share;
 2. ``f(x)`` is the same labelled object as ``f_(copy(x))`` (tensor by tensor, modulo the names of generated
    labels), and has the same value as an independent numpy.einsum evaluation of both;
 3. ``f(x)`` is invariant (as a labelled object: numpy.einsum value over the outer labels, label/tag structure)
    under random permutations of the stored axes of every tensor of ``x`` and of tensor arguments;
 4. binary operators do not mutate their operands and are invariant under axis permutations.
"""

import functools
import inspect
import itertools

import numpy as np

from vf.rtc import driver


class Skip(Exception):
    """argument builder: this method is not applicable to this receiver"""


# ----------------------------------------------------------------------------------------------
# fingerprints and labelled equality (independent of quimb's own comparison helpers)
# ----------------------------------------------------------------------------------------------


def is_tensor(x):
    return type(x).__mro__ and any(k.__name__ == "Tensor" for k in type(x).__mro__)


def is_tn(x):
    return any(k.__name__ == "TensorNetwork" for k in type(x).__mro__)


def _arr_fp(a):
    a = np.asarray(a)
    return (str(a.dtype), a.shape, a.tobytes())


def fp_tensor(t):
    li = t.left_inds
    return (type(t).__name__, tuple(t.inds), tuple(t.tags), None if li is None else tuple(li), _arr_fp(t.data))


def _fp_val(v):
    if isinstance(v, (list, tuple)):
        return tuple(_fp_val(x) for x in v)
    if isinstance(v, dict):
        return tuple((repr(k), _fp_val(x)) for k, x in v.items())
    if isinstance(v, np.ndarray):
        return _arr_fp(v)
    return repr(v)


def fp_tn(tn):
    props = tuple((p, _fp_val(getattr(tn, p, None))) for p in type(tn)._EXTRA_PROPS)
    return (type(tn).__name__, float(np.real(tn.exponent)), props,
            tuple((tid, fp_tensor(t)) for tid, t in tn.tensor_map.items()),
            tuple((k, tuple(v)) for k, v in tn.ind_map.items()), tuple((k, tuple(v)) for k, v in tn.tag_map.items()),
            frozenset(tn._inner_inds), frozenset(tn._outer_inds))


def fingerprint(x):
    if is_tensor(x):
        return ("T", fp_tensor(x))
    if is_tn(x):
        return ("TN", fp_tn(x))
    if isinstance(x, (list, tuple)):
        return ("seq", tuple(fingerprint(v) for v in x))
    if isinstance(x, dict):
        return ("dict", tuple((repr(k), fingerprint(v)) for k, v in x.items()))
    if isinstance(x, np.ndarray):
        return ("arr", _arr_fp(x))
    return ("obj", repr(x)[:200])


def fp_diff(a, b, what="receiver"):
    """human description of the first difference between two fingerprints"""
    if a == b:
        return None
    if a[0] != b[0]:
        return f"{what}: kind {a[0]} -> {b[0]}"
    if a[0] == "T":
        names = ("class", "labels", "tags", "left_inds", "array (dtype, shape, bytes)")
        for n, u, v in zip(names, a[1], b[1]):
            if u != v:
                return f"{what}: tensor {n} changed" + (f": {u} -> {v}" if n != names[-1] else "")
    if a[0] == "TN":
        names = ("class", "exponent", "site-structure properties", "tensors", "ind_map", "tag_map", "inner labels", "outer labels")
        for n, u, v in zip(names, a[1], b[1]):
            if u != v:
                if n == "tensors":
                    if len(u) != len(v):
                        return f"{what}: number of tensors {len(u)} -> {len(v)}"
                    for (tid, ft), (tid2, ft2) in zip(u, v):
                        if tid != tid2:
                            return f"{what}: tensor ids changed"
                        if ft != ft2:
                            return fp_diff(("T", ft), ("T", ft2), f"{what} tensor {tid}")
                return f"{what}: {n} changed" + (f": {u} -> {v}" if n in ("class", "exponent", "site-structure properties") else "")
    if a[0] in ("seq", "dict"):
        return f"{what}: a sequence / mapping argument changed"
    return f"{what}: changed"


def freeze(x):
    """make every array reachable from x read-only (numpy then raises on any in-place write)"""
    if is_tensor(x):
        d = x.data
        if isinstance(d, np.ndarray):
            d.flags.writeable = False
    elif is_tn(x):
        for t in x.tensor_map.values():
            freeze(t)
    elif isinstance(x, (list, tuple)):
        for v in x:
            freeze(v)
    elif isinstance(x, dict):
        for v in x.values():
            freeze(v)
    elif isinstance(x, np.ndarray):
        x.flags.writeable = False
    return x


def _tol(*dtypes):
    single = any(str(d) in ("float32", "complex64") for d in dtypes)
    return (2e-3, 2e-4) if single else (1e-7, 1e-9)


def _close(a, b, what, loose=1.0):
    a, b = np.asarray(a), np.asarray(b)
    if a.shape != b.shape:
        return f"{what}: shape {a.shape} != {b.shape}"
    rtol, atol = _tol(a.dtype, b.dtype)
    scale = max(float(np.max(np.abs(a))) if a.size else 0.0, float(np.max(np.abs(b))) if b.size else 0.0)
    if not (np.isfinite(a).all() and np.isfinite(b).all()):
        if np.array_equal(np.isfinite(a), np.isfinite(b)):
            return None
        return f"{what}: non-finite entries differ"
    if a.size and np.max(np.abs(a - b)) > loose * (atol + rtol * scale):
        return f"{what}: max abs diff {np.max(np.abs(a - b)):.3e} (scale {scale:.3e})"
    return None


def is_gen(ix):
    """labels generated by quimb (rand_uuid) -- their names differ from call to call"""
    return isinstance(ix, str) and ix.startswith("_")


def dense_value(tn_or_t, outer=None):
    """independent value: numpy.einsum over all labels with the sorted outer labels as output, times 10**exponent"""
    if is_tensor(tn_or_t):
        ts, expo = [tn_or_t], 0.0
    else:
        ts, expo = list(tn_or_t.tensor_map.values()), tn_or_t.exponent
    occ = {}
    for t in ts:
        for ix in t.inds:
            occ[ix] = occ.get(ix, 0) + 1
    if outer is None:
        outer = sorted(ix for ix, c in occ.items() if c == 1)
    num = {ix: i for i, ix in enumerate(occ)}
    if len(num) > 52:
        raise Skip("too many labels for numpy.einsum")
    ops = []
    for t in ts:
        ops.append(np.asarray(t.data))
        ops.append([num[ix] for ix in t.inds])
    ops.append([num[ix] for ix in outer])
    val = np.einsum(*ops, optimize="greedy" if len(ts) > 2 else False)
    return outer, val * 10.0 ** float(np.real(expo))


def structure(x):
    """label / tag structure modulo the names of generated labels: per tensor (tags, sorted (label|size) pairs)"""
    if is_tensor(x):
        ts = [x]
    else:
        ts = list(x.tensor_map.values())
    out = []
    for t in ts:
        labs = sorted(("~%d" % d) if is_gen(ix) else f"{ix}:{d}" for ix, d in zip(t.inds, t.shape))
        out.append((tuple(sorted(map(str, t.tags))), tuple(labs)))
    return sorted(out)


def same_labelled_value(a, b, what, loose=1.0, check_structure=True):
    """value-level labelled equality of two results (tensors, networks, scalars, arrays, nested sequences)"""
    if (a is None) != (b is None):
        return f"{what}: None vs value"
    if a is None:
        return None
    if is_tensor(a) or is_tn(a):
        if not (is_tensor(b) or is_tn(b)):
            return f"{what}: {type(a).__name__} vs {type(b).__name__}"
        if type(a).__name__ != type(b).__name__:
            return f"{what}: class {type(a).__name__} vs {type(b).__name__}"
        if is_tn(a):
            pa = tuple((p, _fp_val(getattr(a, p, None))) for p in type(a)._EXTRA_PROPS)
            pb = tuple((p, _fp_val(getattr(b, p, None))) for p in type(b)._EXTRA_PROPS)
            if pa != pb:
                return f"{what}: site-structure properties {pa} vs {pb}"
        if check_structure and structure(a) != structure(b):
            return f"{what}: label/tag structure {structure(a)[:3]} vs {structure(b)[:3]}"
        try:
            oa, va = dense_value(a)
            ob, vb = dense_value(b)
        except Skip:
            return None
        if oa != ob:
            return f"{what}: outer labels {oa} vs {ob}"
        return _close(va, vb, what + " (einsum value over the outer labels)", loose)
    if isinstance(a, (list, tuple)):
        if not isinstance(b, (list, tuple)) or len(a) != len(b):
            return f"{what}: sequence length / kind differs"
        for i, (u, v) in enumerate(zip(a, b)):
            e = same_labelled_value(u, v, f"{what}[{i}]", loose, check_structure)
            if e:
                return e
        return None
    if isinstance(a, dict):
        if not isinstance(b, dict) or list(map(repr, a)) != list(map(repr, b)):
            return f"{what}: dict keys differ"
        for k in a:
            e = same_labelled_value(a[k], b[k], f"{what}[{k!r}]", loose, check_structure)
            if e:
                return e
        return None
    if isinstance(a, (str, bytes, bool, type(None))):
        return None if a == b else f"{what}: {a!r} vs {b!r}"
    try:
        return _close(np.asarray(a), np.asarray(b), what, loose)
    except Exception:  # noqa
        return None if repr(a) == repr(b) else f"{what}: {repr(a)[:80]} vs {repr(b)[:80]}"


def same_labelled_object(a, b, what):
    """strict: tensor by tensor (same order), labels equal modulo a bijection of generated names, arrays equal"""
    if is_tn(a) and is_tn(b):
        if type(a).__name__ != type(b).__name__:
            return f"{what}: class {type(a).__name__} vs {type(b).__name__}"
        ta, tb = list(a.tensor_map.items()), list(b.tensor_map.items())
        if [k for k, _ in ta] != [k for k, _ in tb]:
            return f"{what}: tensor ids {[k for k, _ in ta]} vs {[k for k, _ in tb]}"
        e = _close(a.exponent, b.exponent, what + " exponent")
        if e:
            return e
        ren = {}
        for (tid, u), (_, v) in zip(ta, tb):
            e = _same_tensor(u, v, f"{what} tensor {tid}", ren)
            if e:
                return e
        return same_labelled_value(a, b, what, check_structure=False)
    if is_tensor(a) and is_tensor(b):
        return _same_tensor(a, b, what, {})
    if isinstance(a, (list, tuple)) and isinstance(b, (list, tuple)) and len(a) == len(b):
        for i, (u, v) in enumerate(zip(a, b)):
            e = same_labelled_object(u, v, f"{what}[{i}]")
            if e:
                return e
        return None
    return same_labelled_value(a, b, what)


def _same_tensor(u, v, what, ren):
    if type(u).__name__ != type(v).__name__:
        return f"{what}: class {type(u).__name__} vs {type(v).__name__}"
    if len(u.inds) != len(v.inds):
        return f"{what}: labels {u.inds} vs {v.inds}"
    for x, y in zip(u.inds, v.inds):
        if is_gen(x) and is_gen(y):
            if ren.setdefault(x, y) != y:
                return f"{what}: generated labels do not correspond"
        elif x != y:
            return f"{what}: labels {u.inds} vs {v.inds}"
    if set(u.tags) != set(v.tags):
        return f"{what}: tags {sorted(u.tags)} vs {sorted(v.tags)}"
    lu, lv = u.left_inds, v.left_inds
    if (lu is None) != (lv is None) or (lu is not None and len(lu) != len(lv)):
        return f"{what}: left_inds {lu} vs {lv}"
    if str(u.dtype) != str(v.dtype):
        return f"{what}: dtype {u.dtype} vs {v.dtype}"
    return _close(u.data, v.data, what + " data")


def _permute_tensor(t, rng):
    if len(t.inds) > 1 and len(set(t.inds)) == len(t.inds):
        p = [int(i) for i in rng.permutation(len(t.inds))]
        li = t.left_inds
        # written with numpy directly (not Tensor.transpose_): same labelled tensor, other storage order
        t.modify(data=np.transpose(np.asarray(t.data), p), inds=[t.inds[i] for i in p])
        if li is not None:
            t.modify(left_inds=li)


def permute_axes(x, rng):
    """a copy of x in which every tensor stores its axes in a random order (labels follow)"""
    if is_tensor(x):
        y = x.copy()
        _permute_tensor(y, rng)
        return y
    if is_tn(x):
        y = x.copy()
        for t in y.tensor_map.values():
            _permute_tensor(t, rng)
        return y
    if isinstance(x, tuple):
        return tuple(permute_axes(v, rng) for v in x)
    if isinstance(x, list):
        return [permute_axes(v, rng) for v in x]
    if isinstance(x, dict):
        return {k: permute_axes(v, rng) for k, v in x.items()}
    return x


# ----------------------------------------------------------------------------------------------
# reflection
# ----------------------------------------------------------------------------------------------


def resolve(cls, name):
    """(owner class, raw attribute) as found along the MRO, or (None, None)"""
    for k in cls.__mro__:
        if name in k.__dict__:
            return k, k.__dict__[name]
    return None, None


def discover(cls):
    """every callable attribute of cls that has an ``inplace`` parameter, resolved over the MRO.

    returns a list of dicts: name, owner (class name where defined), fn (underlying function), kw (partialmethod
    keywords), inplace_default, alias (name of the in-place spelling if the class offers one), alias_ok (the alias is
    partialmethod(<this very function>, same keywords + inplace=True))"""
    out = []
    for name in sorted(dir(cls)):
        if name.startswith("__"):
            continue
        owner, raw = resolve(cls, name)
        if owner is None:
            continue
        fn, kw = raw, {}
        if isinstance(raw, functools.partialmethod):
            fn, kw = raw.func, dict(raw.keywords)
        if not inspect.isfunction(fn):
            continue
        try:
            sig = inspect.signature(fn)
        except (TypeError, ValueError):
            continue
        if "inplace" not in sig.parameters:
            continue
        if kw.get("inplace") is True:
            continue  # this IS an in-place alias; handled through its plain spelling
        rec = dict(name=name, owner=owner.__name__, fn=fn, kw=kw, inplace_default=sig.parameters["inplace"].default,
                   alias=None, alias_ok=None, alias_owner=None, sig=sig)
        aowner, araw = resolve(cls, name + "_")
        if araw is not None:
            rec["alias"] = name + "_"
            rec["alias_owner"] = aowner.__name__
            ok = isinstance(araw, functools.partialmethod) and araw.func is fn and \
                {k: v for k, v in araw.keywords.items() if k != "inplace"} == kw and araw.keywords.get("inplace") is True
            rec["alias_ok"] = bool(ok)
        out.append(rec)
    # in-place aliases whose plain spelling does not exist at all (e.g. contract_mps_sweep_) are listed too
    for name in sorted(dir(cls)):
        if name.endswith("_") and not name.startswith("_") and not name.endswith("__"):
            owner, raw = resolve(cls, name)
            if isinstance(raw, functools.partialmethod) and raw.keywords.get("inplace") is True:
                if resolve(cls, name[:-1])[1] is None:
                    out.append(dict(name=name[:-1], owner=owner.__name__, fn=None, kw={}, inplace_default=None, alias=name,
                                    alias_ok=False, alias_owner=owner.__name__, sig=None, orphan=True))
    return out


def required_params(rec):
    sig = rec["sig"]
    ps = list(sig.parameters.values())[1:]
    return [p.name for p in ps if p.default is inspect._empty and p.kind in (p.POSITIONAL_OR_KEYWORD, p.POSITIONAL_ONLY)
            and p.name not in rec["kw"]]


# ----------------------------------------------------------------------------------------------
# receivers
# ----------------------------------------------------------------------------------------------


def rnd(rng, shape, dtype):
    x = rng.normal(size=shape)
    if "complex" in dtype:
        x = x + 1j * rng.normal(size=shape)
    return x.astype(dtype)


def zoo(qtn, quick):
    """receiver builders: name -> (class name, builder(rng, dtype)); all small enough for numpy.einsum"""
    Z = {}

    def reg(name):
        def deco(f):
            Z[name] = f
            return f
        return deco

    @reg("Tensor")
    def _(rng, dt):
        return qtn.Tensor(rnd(rng, (2, 3, 2), dt), ("a", "b", "c"), tags=("X", "Y"))

    @reg("Tensor-dims1")
    def _(rng, dt):
        return qtn.Tensor(rnd(rng, (1, 2, 1, 2), dt), ("a", "b", "c", "d"), tags=("X",), left_inds=("a", "b"))

    @reg("Tensor-square")
    def _(rng, dt):
        return qtn.Tensor(rnd(rng, (2, 2, 2), dt), ("a", "b", "c"), tags=("X",))

    @reg("TN")
    def _(rng, dt):
        # a loop with a dangling tensor, one multibond, stored exponent
        ts = [qtn.Tensor(rnd(rng, (2, 3, 2), dt), ("a", "x", "y"), tags=("A", "P")),
              qtn.Tensor(rnd(rng, (3, 2, 2), dt), ("x", "z", "b"), tags=("B", "P")),
              qtn.Tensor(rnd(rng, (2, 2, 2, 2), dt), ("y", "z", "w", "v"), tags=("C", "Q")),
              qtn.Tensor(rnd(rng, (2, 2, 3), dt), ("w", "v", "c"), tags=("D", "Q"))]
        tn = qtn.TensorNetwork(ts)
        tn.exponent = 0.5
        return tn

    @reg("TN-tree")
    def _(rng, dt):
        ts = [qtn.Tensor(rnd(rng, (2, 2), dt), ("a", "x"), tags=("A",)),
              qtn.Tensor(rnd(rng, (2, 3, 1), dt), ("x", "y", "s"), tags=("B",)),
              qtn.Tensor(rnd(rng, (3, 2), dt), ("y", "b"), tags=("C",))]
        return qtn.TensorNetwork(ts)

    @reg("GenVector")
    def _(rng, dt):
        return qtn.TN_from_edges_rand([(0, 1), (1, 2), (2, 0), (2, 3)], 2, phys_dim=2, dtype=dt, seed=int(rng.integers(1 << 30)))

    @reg("GenOperator")
    def _(rng, dt):
        return qtn.TN_from_edges_rand([(0, 1), (1, 2), (2, 0)], 2, phys_dim=2, site_ind_id=("k{}", "b{}"), dtype=dt,
                                      seed=int(rng.integers(1 << 30)))

    @reg("Gen")
    def _(rng, dt):
        return qtn.TN_from_edges_rand([(0, 1), (1, 2), (2, 0), (2, 3)], 2, dtype=dt, seed=int(rng.integers(1 << 30)))

    @reg("MPS")
    def _(rng, dt):
        return qtn.MPS_rand_state(4, 3, dtype=dt, seed=int(rng.integers(1 << 30)))

    @reg("MPS-cyclic")
    def _(rng, dt):
        return qtn.MPS_rand_state(4, 2, dtype=dt, cyclic=True, seed=int(rng.integers(1 << 30)))

    @reg("MPS-2site-d3")
    def _(rng, dt):
        return qtn.MPS_rand_state(2, 2, phys_dim=3, dtype=dt, seed=int(rng.integers(1 << 30)))

    @reg("MPO")
    def _(rng, dt):
        return qtn.MPO_rand(4, 2, dtype=dt, seed=int(rng.integers(1 << 30)))

    @reg("MPO-cyclic")
    def _(rng, dt):
        return qtn.MPO_rand(3, 2, dtype=dt, cyclic=True, seed=int(rng.integers(1 << 30)))

    @reg("Dense1D")
    def _(rng, dt):
        return qtn.Dense1D(rnd(rng, (8,), dt))

    @reg("PEPS")
    def _(rng, dt):
        return qtn.PEPS.rand(2, 3, 2, dtype=dt, seed=int(rng.integers(1 << 30)))

    @reg("PEPO")
    def _(rng, dt):
        return qtn.PEPO.rand(2, 2, 2, dtype=dt, seed=int(rng.integers(1 << 30)))

    @reg("TN2D")
    def _(rng, dt):
        return qtn.TN2D_rand(3, 3, 2, dtype=dt, seed=int(rng.integers(1 << 30)))

    @reg("PEPS3D")
    def _(rng, dt):
        return qtn.PEPS3D.rand(2, 2, 2, 2, dtype=dt, seed=int(rng.integers(1 << 30)))

    @reg("TN3D")
    def _(rng, dt):
        return qtn.TN3D_rand(2, 2, 2, 2, dtype=dt, seed=int(rng.integers(1 << 30)))

    return Z
